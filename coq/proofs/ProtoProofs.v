(* Proofs about model/Proto.v against model/ProtoSpec.v (C09). *)
From Coq Require Import List Arith NArith ZArith Bool Lia ZifyBool ZifyNat ZifyN.
From NSQV Require Import gen.Consts model.Judge model.Names model.Num model.Proto model.ProtoSpec
     proofs.NamesProofs.
Import ListNotations.
Open Scope Z_scope.

(* ================================================================== basic facts *)
Lemma len_nil : forall A, @len A [] = 0.
Proof. reflexivity. Qed.
Lemma len_cons : forall A (x : A) l, len (x :: l) = 1 + len l.
Proof. intros. unfold len. cbn [length]. lia. Qed.
Lemma len_nonneg : forall A (l : list A), 0 <= len l.
Proof. intros. unfold len. lia. Qed.
Lemma len_app : forall A (a b : list A), len (a ++ b) = len a + len b.
Proof. intros. unfold len. rewrite app_length. lia. Qed.

Lemma idx_0 : forall A (x : A) l, idx (x :: l) 0 = Some x.
Proof. reflexivity. Qed.
Lemma idx_1 : forall A (x y : A) l, idx (x :: y :: l) 1 = Some y.
Proof. reflexivity. Qed.
Lemma idx_2 : forall A (x y z : A) l, idx (x :: y :: z :: l) 2 = Some z.
Proof. reflexivity. Qed.

Lemma idx_in_range : forall A (l : list A) i, 0 <= i < len l -> exists x, idx l i = Some x.
Proof.
  intros A l i H. unfold idx. destruct (Z.ltb_spec i 0); [lia|].
  destruct (nth_error l (Z.to_nat i)) eqn:E; [eauto|].
  apply nth_error_None in E. unfold len in H. lia.
Qed.

Lemma make_bytes_pos : forall n, 0 <= n -> make_bytes n = Some (Z.to_nat n).
Proof. intros n H. unfold make_bytes. destruct (Z.ltb_spec n 0); [lia | reflexivity]. Qed.

(* ------------------------------------------------------------------ ReadSlice *)
Lemma read_slice_spec : forall k bs l r,
  read_slice k bs = Some (l, r) ->
  exists l0, l = l0 ++ [NL] /\ bs = l ++ r /\ (length l <= k)%nat.
Proof.
  induction k as [|k IH]; intros bs l r H; [destruct bs; discriminate|].
  destruct bs as [|c bs]; [discriminate|]. cbn [read_slice] in H.
  destruct (N.eqb_spec c NL).
  - inversion H; subst. exists []. cbn. split; [reflexivity|]. split; [reflexivity | lia].
  - destruct (read_slice k bs) as [[l' r']|] eqn:E; [|discriminate].
    inversion H; subst. destruct (IH _ _ _ E) as [l0 [H1 [H2 H3]]].
    exists (c :: l0). subst. cbn. split; [reflexivity|]. split; [reflexivity | cbn in H3; lia].
Qed.

Lemma read_slice_shorter : forall k bs l r,
  read_slice k bs = Some (l, r) -> (length r < length bs)%nat.
Proof.
  intros k bs l r H. destruct (read_slice_spec _ _ _ _ H) as [l0 [H1 [H2 _]]].
  subst. rewrite !app_length. cbn. lia.
Qed.

(* ------------------------------------------------------------------ the line *)
Lemma slice_to_ok : forall A (l : list A) n, 0 <= n <= len l -> slice_to l n = Some (firstn (Z.to_nat n) l).
Proof.
  intros A l n H. unfold slice_to.
  destruct (Z.ltb_spec n 0); [lia|]. destruct (Z.ltb_spec (len l) n); [lia|]. reflexivity.
Qed.

Lemma split_sp_nonempty : forall l cur, split_sp cur l <> [].
Proof.
  induction l as [|c l IH]; intro cur; cbn; [discriminate|].
  destruct (c =? SP)%N; [discriminate | apply IH].
Qed.

Lemma parse_line_ok : forall l0, exists params, parse_line (l0 ++ [NL]) = Some params /\ params <> [].
Proof.
  intro l0. unfold parse_line.
  assert (Hlen : len (l0 ++ [NL]) - 1 = len l0) by (rewrite len_app; cbn; lia).
  rewrite Hlen. rewrite slice_to_ok by (rewrite len_app; pose proof (len_nonneg _ l0); cbn; lia).
  replace (Z.to_nat (len l0)) with (length l0) by (unfold len; lia).
  rewrite firstn_app, Nat.sub_diag, firstn_all. cbn [firstn]. rewrite app_nil_r.
  destruct (Z.ltb_spec 0 (len l0)).
  - destruct (idx_in_range _ l0 (len l0 - 1)) as [c Hc]; [lia|]. rewrite Hc.
    destruct (c =? CR)%N.
    + rewrite slice_to_ok by lia. eexists. split; [reflexivity | apply split_sp_nonempty].
    + eexists. split; [reflexivity | apply split_sp_nonempty].
  - eexists. split; [reflexivity | apply split_sp_nonempty].
Qed.

(* ------------------------------------------------------------------ lengths read *)
Lemma read_len_spec : forall bs n r, read_len bs = Some (n, r) -> declared bs = Some (n, r) /\ (length bs = 4 + length r)%nat.
Proof.
  intros bs n r H. destruct bs as [|a [|b [|c [|d bs]]]]; try discriminate.
  cbn in *. inversion H; subst. split; reflexivity.
Qed.

Lemma read_len_declared : forall bs, read_len bs = declared bs.
Proof. intro bs. destruct bs as [|a [|b [|c [|d bs]]]]; reflexivity. Qed.

Lemma read_full_spec : forall n bs,
  0 <= n ->
  read_full (Z.to_nat n) bs =
  if n <=? len bs then Some (firstn (Z.to_nat n) bs, skipn (Z.to_nat n) bs) else None.
Proof.
  intros n bs H. unfold read_full.
  destruct (Nat.ltb_spec (length bs) (Z.to_nat n)); destruct (Z.leb_spec n (len bs)); unfold len in *; try lia; reflexivity.
Qed.

Lemma read_full_some : forall k bs b r, read_full k bs = Some (b, r) -> bs = b ++ r /\ length b = k.
Proof.
  intros k bs b r H. unfold read_full in H. destruct (Nat.ltb_spec (length bs) k); [discriminate|].
  inversion H; subst. split; [symmetry; apply firstn_skipn | apply firstn_length_le; lia].
Qed.

(* ================================================================== conformance to the table *)
Definition resps (o : list out) : list resp :=
  flat_map (fun x => match x with Resp r => [r] | _ => [] end) o.
Definition is_bad (x : out) : bool :=
  match x with Err _ | Close | Panic | OutOfFuel => true | _ => false end.
Definition clean (o : list out) : Prop := forallb (fun x => negb (is_bad x)) o = true.
(* a successful command writes exactly the response frame of its row *)
Definition resp_shape (c : cmd) (o : list out) : Prop :=
  match ok_frame c with
  | FNone => resps o = []
  | _ => exists r, resps o = [r] /\ frame_ok c r = true
  end.

(* [accepts] without the TLS gate *)
Definition acc_core (cf : cfg) (orc : oracle) (json : bytes -> jres) (st : cstate) (c : cmd)
           (params : list bytes) (rest : bytes) : bool :=
  in_state c (st_kind st)
  && well_formed cf json (st_kind st) c params rest
  && (match c with CSub => 0 <? st_hb st | _ => true end)
  && match core_call_of cf c params rest with
     | Some k => orc (st_hist st) k
     | None => true
     end.

Definition gate (cf : cfg) (c : cmd) : bool :=
  c_tls_required cf && negb (match c with CIdentify => true | _ => false end).

Lemma accepts_gate : forall cf orc json st c params rest,
  accepts cf orc json st c params rest = negb (gate cf c) && acc_core cf orc json st c params rest.
Proof. intros. unfold accepts, acc_core, gate. rewrite !andb_assoc. reflexivity. Qed.

(* what the table says about one executed command *)
Definition conforms (acc : bool) (codes : list code) (st : cstate) (c : cmd) (rest : bytes) (r : hres) : Prop :=
  match r with
  | HOk o st' rest' =>
      acc = true /\ st_kind st' = next_kind c (st_kind st) /\ clean o /\ resp_shape c o
      /\ (length rest' <= length rest)%nat
  | HStop o =>
      acc = true /\ c = CIdentify /\ clean o /\ resp_shape c o
      /\ exists o' t s d l, o = o' ++ [Upgrade t s d l]
  | HFatal e => acc = false /\ In e codes /\ is_fatal e = true
  | HSoft e st' rest' =>
      acc = false /\ In e codes /\ is_fatal e = false /\ st_kind st' = st_kind st /\ rest' = rest
  | HPanic => False
  end.

Lemma len_lt_2 : forall A (l : list A), (len l <? 2) = match l with _ :: _ :: _ => false | _ => true end.
Proof.
  intros A l. destruct l as [|a [|b l]]; try reflexivity.
  rewrite !len_cons. pose proof (len_nonneg _ l). destruct (Z.ltb_spec (1 + (1 + len l)) 2); [lia | reflexivity].
Qed.
Lemma len_lt_3 : forall A (l : list A), (len l <? 3) = match l with _ :: _ :: _ :: _ => false | _ => true end.
Proof.
  intros A l. destruct l as [|a [|b [|c l]]]; try reflexivity.
  rewrite !len_cons. pose proof (len_nonneg _ l). destruct (Z.ltb_spec (1 + (1 + (1 + len l))) 3); [lia | reflexivity].
Qed.
Lemma len_gt_1 : forall A (l : list A), (len l >? 1) = match l with _ :: _ :: _ => true | _ => false end.
Proof.
  intros A l. rewrite Z.gtb_ltb. destruct l as [|a [|b l]]; try reflexivity.
  rewrite !len_cons. pose proof (len_nonneg _ l). destruct (Z.ltb_spec 1 (1 + (1 + len l))); [reflexivity | lia].
Qed.
Lemma len_eq_1 : forall A (l : list A), (len l =? 1) = match l with [_] => true | _ => false end.
Proof.
  intros A l. destruct l as [|a [|b l]]; try reflexivity.
  rewrite !len_cons. pose proof (len_nonneg _ l). destruct (Z.eqb_spec (1 + (1 + len l)) 1); [lia | reflexivity].
Qed.

(* ------------------------------------------------------------------ bodies *)
Lemma read_body_msg_spec : forall cf rest,
  read_body_msg cf rest =
  if body_present (c_max_msg cf) rest then BodyOk (body_of rest) (after_body rest) else BodyErr.
Proof.
  intros cf rest. unfold read_body_msg, body_present, body_of, after_body. rewrite read_len_declared.
  destruct (declared rest) as [[n r1]|]; [|reflexivity].
  rewrite Z.gtb_ltb.
  destruct (Z.leb_spec n 0); destruct (Z.leb_spec 1 n); try lia; cbn [andb]; [reflexivity|].
  destruct (Z.ltb_spec (c_max_msg cf) n); destruct (Z.leb_spec n (c_max_msg cf)); try lia; cbn [andb]; [reflexivity|].
  rewrite make_bytes_pos by lia. rewrite read_full_spec by lia.
  destruct (n <=? len r1); reflexivity.
Qed.

Lemma read_body_ident_spec : forall cf rest,
  read_body_ident cf rest =
  if body_present (c_max_body cf) rest then BodyOk (body_of rest) (after_body rest) else BodyErr.
Proof.
  intros cf rest. unfold read_body_ident, body_present, body_of, after_body. rewrite read_len_declared.
  destruct (declared rest) as [[n r1]|]; [|reflexivity].
  rewrite Z.gtb_ltb.
  destruct (Z.ltb_spec (c_max_body cf) n); destruct (Z.leb_spec n (c_max_body cf)); try lia; cbn [andb].
  { rewrite andb_false_r. reflexivity. }
  destruct (Z.leb_spec n 0); destruct (Z.leb_spec 1 n); try lia; cbn [andb]; [reflexivity|].
  rewrite make_bytes_pos by lia. rewrite read_full_spec by lia.
  destruct (n <=? len r1); reflexivity.
Qed.

Lemma declared_len : forall bs n r, declared bs = Some (n, r) -> (length bs = 4 + length r)%nat.
Proof. intros bs n r H. rewrite <- read_len_declared in H. apply read_len_spec in H. tauto. Qed.

Lemma after_body_len : forall rest, (length (after_body rest) <= length rest)%nat.
Proof.
  intro rest. unfold after_body. destruct (declared rest) as [[n r]|] eqn:D; [|cbn; lia].
  apply declared_len in D. rewrite skipn_length. lia.
Qed.

Lemma body_present_len : forall max rest, body_present max rest = true ->
  1 <= len (body_of rest) <= max.
Proof.
  intros max rest H. unfold body_present, body_of in *. destruct (declared rest) as [[n r]|]; [|discriminate].
  unfold len in *. rewrite firstn_length. lia.
Qed.

Ltac fin := cbn; rewrite ?andb_false_r, ?andb_true_r; cbn; repeat split; auto 12;
  try (eexists; split; reflexivity); try apply after_body_len; try (cbn; lia).

(* ------------------------------------------------------------------ PUB *)
Lemma pub_conforms : forall cf orc json st p0 tl rest,
  conforms (acc_core cf orc json st CPub (p0 :: tl) rest) (may_return CPub) st CPub rest
           (do_pub cf orc st (p0 :: tl) rest).
Proof.
  intros. unfold do_pub, acc_core. rewrite len_lt_2.
  destruct tl as [|p1 tl]; cbn [conforms well_formed in_state core_call_of may_return]; [fin|].
  rewrite idx_1. destruct (is_valid_name p1) eqn:EV; cbn [negb andb]; [|fin].
  rewrite read_body_msg_spec. destruct (body_present (c_max_msg cf) rest) eqn:EB; [|fin].
  unfold ask. destruct (orc (st_hist st) (KPut p1 (body_of rest) 0)) eqn:EO; [|fin].
  fin.
Qed.

(* ------------------------------------------------------------------ numbers (local; C04 proves more in NumProofs) *)
Lemma b10_from_bound : forall b acc n, (acc <= max_u64)%N -> b10_from acc b = Some n -> (n <= max_u64)%N.
Proof.
  induction b as [|c r IH]; intros acc n Hacc H; cbn [b10_from] in H.
  - inversion H; subst; exact Hacc.
  - destruct (is_digit c) eqn:D; [|discriminate].
    assert (Hc : (48 <= c <= 57)%N) by (unfold is_digit in D; lia).
    destruct ((max_u64 - (c - 48)) / 10 <? acc)%N eqn:T.
    + eapply IH; [|exact H]. lia.
    + eapply IH; [|exact H]. apply N.ltb_ge in T.
      unfold max_u64 in *.
      pose proof (N.div_mod (18446744073709551615 - (c - 48)) 10 ltac:(lia)).
      pose proof (N.mod_lt (18446744073709551615 - (c - 48)) 10 ltac:(lia)). lia.
Qed.

Lemma b10_bound : forall p n, byte_to_base10 p = Some n -> (n <= max_u64)%N.
Proof. intros p n H. eapply b10_from_bound; [|exact H]. unfold max_u64. lia. Qed.

Lemma ms_to_duration_nonneg : forall n, 0 <= ms_to_duration n.
Proof.
  intro n. unfold ms_to_duration, max_i64, ns_per_ms.
  destruct (Z.of_N n >? 9223372036854775807 / 1000000); lia.
Qed.

Lemma rdy_param_local : forall max p,
  rdy_param max p = if rdy_ok max p then RdyOk (rdy_value p) else RdyInvalid.
Proof.
  intros max p. unfold rdy_param, rdy_ok, rdy_value, digits_value.
  destruct (byte_to_base10 p) as [n|] eqn:E; [|reflexivity].
  apply b10_bound in E. unfold u64_to_i64, max_u64, max_i64, two64Z in *.
  rewrite Z.gtb_ltb.
  destruct (Z.leb_spec (Z.of_N n) 9223372036854775807); cbn [andb].
  - destruct (Z.ltb_spec (Z.of_N n) 0); [lia|]. cbn [orb].
    destruct (Z.ltb_spec max (Z.of_N n)); destruct (Z.leb_spec (Z.of_N n) max); try lia; reflexivity.
  - destruct (Z.ltb_spec (Z.of_N n - 18446744073709551616) 0); [reflexivity | lia].
Qed.

Lemma dpub_param_local : forall max p,
  dpub_param max p =
  if defer_ok max p
  then DpubDelay (match digits_value p with Some n => ms_to_duration n | None => 0 end)
  else DpubInvalid.
Proof.
  intros max p. unfold dpub_param, defer_ok, digits_value.
  destruct (byte_to_base10 p) as [n|]; [|reflexivity].
  pose proof (ms_to_duration_nonneg n). rewrite Z.gtb_ltb.
  destruct (Z.ltb_spec (ms_to_duration n) 0); [lia|]. cbn [orb].
  destruct (Z.ltb_spec max (ms_to_duration n)); destruct (Z.leb_spec (ms_to_duration n) max); try lia; reflexivity.
Qed.

Lemma req_param_invalid_iff : forall max p,
  match req_param max p with ReqInvalid => digits_value p = None | ReqDelay _ => exists n, digits_value p = Some n end.
Proof.
  intros max p. unfold req_param, digits_value. destruct (byte_to_base10 p); eauto.
Qed.

Lemma get_message_id_spec : forall p, get_message_id p = if valid_id p then IdOk p else IdErr.
Proof.
  intro p. unfold get_message_id, valid_id. destruct (Z.eqb_spec (len p) nsqd_MsgIDLength) as [E|E]; cbn [negb]; [|reflexivity].
  destruct p as [|x p]; [|reflexivity]. unfold nsqd_MsgIDLength in E. cbn in E. lia.
Qed.

(* ------------------------------------------------------------------ DPUB *)
Lemma dpub_conforms : forall cf orc json st p0 tl rest,
  conforms (acc_core cf orc json st CDpub (p0 :: tl) rest) (may_return CDpub) st CDpub rest
           (do_dpub cf orc st (p0 :: tl) rest).
Proof.
  intros. unfold do_dpub, acc_core. rewrite len_lt_3.
  destruct tl as [|p1 [|p2 tl]]; cbn [conforms well_formed in_state core_call_of may_return]; [fin|fin|].
  rewrite idx_1. destruct (is_valid_name p1) eqn:EV; cbn [negb andb]; [|fin].
  rewrite idx_2, dpub_param_local. destruct (defer_ok (c_max_req cf) p2) eqn:ED; [|fin].
  rewrite read_body_msg_spec. destruct (body_present (c_max_msg cf) rest) eqn:EB; [|fin].
  unfold ask.
  destruct (orc (st_hist st) (KPut p1 (body_of rest) match digits_value p2 with Some n => ms_to_duration n | None => 0 end)) eqn:EO; [|fin].
  fin.
Qed.

(* ------------------------------------------------------------------ NOP, CLS, unknown *)
Lemma nop_conforms : forall cf orc json st params rest,
  conforms (acc_core cf orc json st CNop params rest) (may_return CNop) st CNop rest (do_nop st params rest).
Proof. intros. unfold do_nop, acc_core. fin. Qed.

Lemma cls_conforms : forall cf orc json st params rest,
  conforms (acc_core cf orc json st CCls params rest) (may_return CCls) st CCls rest (do_cls st params rest).
Proof. intros. unfold do_cls, acc_core. destruct (st_kind st) eqn:K; fin. Qed.

Lemma unknown_conforms : forall cf orc json st params rest,
  conforms (acc_core cf orc json st CUnknown params rest) (may_return CUnknown) st CUnknown rest (HFatal E_INVALID).
Proof. intros. unfold acc_core. fin. Qed.

(* ------------------------------------------------------------------ RDY *)
Lemma rdy_conforms : forall cf orc json st p0 tl rest,
  conforms (acc_core cf orc json st CRdy (p0 :: tl) rest) (may_return CRdy) st CRdy rest
           (do_rdy cf st (p0 :: tl) rest).
Proof.
  intros. unfold do_rdy, acc_core. destruct (st_kind st) eqn:K; [fin| |fin].
  rewrite len_gt_1. destruct tl as [|p1 tl]; cbn [conforms well_formed in_state core_call_of may_return].
  - rewrite Z.gtb_ltb. cbn [orb Z.ltb Z.compare].
    destruct (Z.ltb_spec (c_max_rdy cf) 1); destruct (Z.leb_spec 1 (c_max_rdy cf)); try lia; fin.
  - rewrite idx_1, rdy_param_local. destruct (rdy_ok (c_max_rdy cf) p1); fin.
Qed.

(* ------------------------------------------------------------------ FIN, TOUCH, REQ *)
Lemma consuming_in_state : forall st c, (c = CFin \/ c = CTouch \/ c = CReq) -> consuming st = in_state c (st_kind st).
Proof. intros st c [H|[H|H]]; subst; unfold consuming; destruct (st_kind st); reflexivity. Qed.

Lemma fin_conforms : forall cf orc json st p0 tl rest,
  conforms (acc_core cf orc json st CFin (p0 :: tl) rest) (may_return CFin) st CFin rest
           (do_fin orc st (p0 :: tl) rest).
Proof.
  intros. unfold do_fin, acc_core. rewrite (consuming_in_state st CFin) by auto.
  destruct (in_state CFin (st_kind st)) eqn:K; cbn [negb]; [|fin].
  rewrite len_lt_2. destruct tl as [|p1 tl]; cbn [conforms well_formed core_call_of may_return]; [fin|].
  rewrite idx_1, get_message_id_spec. destruct (valid_id p1); [|fin].
  unfold ask. destruct (orc (st_hist st) (KFin p1)); fin.
  all: destruct (st_kind st); try discriminate; reflexivity.
Qed.

Lemma touch_conforms : forall cf orc json st p0 tl rest,
  conforms (acc_core cf orc json st CTouch (p0 :: tl) rest) (may_return CTouch) st CTouch rest
           (do_touch orc st (p0 :: tl) rest).
Proof.
  intros. unfold do_touch, acc_core. rewrite (consuming_in_state st CTouch) by auto.
  destruct (in_state CTouch (st_kind st)) eqn:K; cbn [negb]; [|fin].
  rewrite len_lt_2. destruct tl as [|p1 tl]; cbn [conforms well_formed core_call_of may_return]; [fin|].
  rewrite idx_1, get_message_id_spec. destruct (valid_id p1); [|fin].
  unfold ask. destruct (orc (st_hist st) (KTouch p1)); fin.
  all: destruct (st_kind st); try discriminate; reflexivity.
Qed.

Lemma req_conforms : forall cf orc json st p0 tl rest,
  conforms (acc_core cf orc json st CReq (p0 :: tl) rest) (may_return CReq) st CReq rest
           (do_req cf orc st (p0 :: tl) rest).
Proof.
  intros. unfold do_req, acc_core. rewrite (consuming_in_state st CReq) by auto.
  destruct (in_state CReq (st_kind st)) eqn:K; cbn [negb]; [|fin].
  rewrite len_lt_3. destruct tl as [|p1 [|p2 tl]]; cbn [conforms well_formed core_call_of may_return]; [fin|fin|].
  rewrite idx_1, get_message_id_spec. destruct (valid_id p1); [|fin].
  rewrite idx_2. pose proof (req_param_invalid_iff (c_max_req cf) p2) as R.
  destruct (req_param (c_max_req cf) p2) as [|d] eqn:EQ.
  - rewrite R. fin.
  - destruct R as [n R]. rewrite R. unfold ask. destruct (orc (st_hist st) (KReq p1 d)); fin.
    all: destruct (st_kind st); try discriminate; reflexivity.
Qed.

(* ------------------------------------------------------------------ SUB *)
Lemma sub_conforms : forall cf orc json st p0 tl rest,
  conforms (acc_core cf orc json st CSub (p0 :: tl) rest) (may_return CSub) st CSub rest
           (do_sub orc st (p0 :: tl) rest).
Proof.
  intros. unfold do_sub, acc_core. destruct (st_kind st) eqn:K; [|fin|fin].
  destruct (Z.leb_spec (st_hb st) 0); destruct (Z.ltb_spec 0 (st_hb st)); try lia; [fin|].
  rewrite len_lt_3. destruct tl as [|p1 [|p2 tl]]; cbn [conforms well_formed in_state core_call_of may_return]; [fin|fin|].
  rewrite idx_1. destruct (is_valid_name p1); cbn [negb andb]; [|fin].
  rewrite idx_2. destruct (is_valid_name p2); cbn [negb andb]; [|fin].
  unfold ask. destruct (orc (st_hist st) (KSub p1 p2)); fin.
Qed.

(* ------------------------------------------------------------------ AUTH *)
Lemma auth_conforms : forall cf orc json st params rest,
  conforms (acc_core cf orc json st CAuth params rest) (may_return CAuth) st CAuth rest
           (do_auth cf st params rest).
Proof.
  intros. unfold do_auth, acc_core. destruct (st_kind st); [|fin|fin].
  destruct (negb (len params =? 1)); [fin|].
  rewrite read_body_ident_spec. destruct (body_present (c_max_body cf) rest); fin.
Qed.

(* ------------------------------------------------------------------ IDENTIFY *)
Definition ranges_ok (cf : cfg) (d : ident) : bool :=
  hb_ok cf (i_hb d) && obt_ok cf (i_obt d) && obsize_ok cf (i_obsize d)
  && sample_ok (i_sample d) && msgto_ok cf (i_msgto d).

Lemma set_heartbeat_spec : forall cf cur v,
  match set_heartbeat cf cur v with Some _ => hb_ok cf v = true | None => hb_ok cf v = false end.
Proof.
  intros. unfold set_heartbeat, hb_ok. rewrite Z.geb_leb.
  destruct (v =? -1); [reflexivity|]. destruct (v =? 0); [reflexivity|]. cbn [orb].
  destruct ((1000 <=? v) && (v <=? ms (c_max_hb cf))); reflexivity.
Qed.

Lemma set_msg_timeout_spec : forall cf cur v,
  match set_msg_timeout cf cur v with Some _ => msgto_ok cf v = true | None => msgto_ok cf v = false end.
Proof.
  intros. unfold set_msg_timeout, msgto_ok. rewrite Z.geb_leb.
  destruct (v =? 0); [reflexivity|]. cbn [orb].
  destruct ((1000 <=? v) && (v <=? ms (c_max_msgto cf))); reflexivity.
Qed.

Lemma set_sample_rate_spec : forall v,
  match set_sample_rate v with Some _ => sample_ok v = true | None => sample_ok v = false end.
Proof.
  intros. unfold set_sample_rate, sample_ok. rewrite Z.gtb_ltb.
  destruct (Z.ltb_spec v 0); destruct (Z.leb_spec 0 v); try lia; cbn [orb andb]; [reflexivity|].
  destruct (Z.ltb_spec 99 v); destruct (Z.leb_spec v 99); try lia; reflexivity.
Qed.

Lemma set_output_buffer_spec : forall cf cs ct size tmo,
  match set_output_buffer cf cs ct size tmo with
  | Some _ => obt_ok cf tmo && obsize_ok cf size = true
  | None => obt_ok cf tmo && obsize_ok cf size = false
  end.
Proof.
  intros. unfold set_output_buffer, obt_ok, obsize_ok. rewrite !Z.geb_leb.
  destruct (tmo =? -1); cbn [orb].
  - destruct (size =? -1); [reflexivity|]. destruct (size =? 0); [reflexivity|]. cbn [orb andb].
    destruct ((64 <=? size) && (size <=? c_max_obsize cf)); reflexivity.
  - destruct (tmo =? 0); cbn [orb].
    + destruct (size =? -1); [reflexivity|]. destruct (size =? 0); [reflexivity|]. cbn [orb andb].
      destruct ((64 <=? size) && (size <=? c_max_obsize cf)); reflexivity.
    + destruct ((ms (c_min_obt cf) <=? tmo) && (tmo <=? ms (c_max_obt cf))); cbn [andb]; [|reflexivity].
      destruct (size =? -1); [reflexivity|]. destruct (size =? 0); [reflexivity|]. cbn [orb].
      destruct ((64 <=? size) && (size <=? c_max_obsize cf)); reflexivity.
Qed.

Lemma identify_client_spec : forall cf st d,
  match identify_client cf st d with
  | Some st' => ranges_ok cf d = true /\ st_kind st' = st_kind st /\ st_hist st' = st_hist st
  | None => ranges_ok cf d = false
  end.
Proof.
  intros. unfold identify_client, ranges_ok.
  pose proof (set_heartbeat_spec cf (st_hb st) (i_hb d)) as H1.
  destruct (set_heartbeat cf (st_hb st) (i_hb d)); rewrite H1; [|reflexivity]. cbn [andb].
  pose proof (set_output_buffer_spec cf (st_obsize st) (st_obt st) (i_obsize d) (i_obt d)) as H2.
  destruct (set_output_buffer cf (st_obsize st) (st_obt st) (i_obsize d) (i_obt d)) as [[a b]|]; rewrite H2; [|reflexivity].
  cbn [andb].
  pose proof (set_sample_rate_spec (i_sample d)) as H3.
  destruct (set_sample_rate (i_sample d)); rewrite H3; [|reflexivity]. cbn [andb].
  pose proof (set_msg_timeout_spec cf (st_msgto st) (i_msgto d)) as H4.
  destruct (set_msg_timeout cf (st_msgto st) (i_msgto d)); rewrite H4; [|reflexivity].
  repeat split.
Qed.

Lemma ident_ok_ranges : forall cf d,
  ident_ok cf d = ranges_ok cf d && negb (i_fn d && (c_deflate_on cf && i_deflate d) && (c_snappy_on cf && i_snappy d)).
Proof. reflexivity. Qed.

Lemma identify_conforms : forall cf orc json st params rest,
  conforms (acc_core cf orc json st CIdentify params rest) (may_return CIdentify) st CIdentify rest
           (do_identify cf json st params rest).
Proof.
  intros. unfold do_identify, acc_core. destruct (st_kind st) eqn:K; [|fin|fin].
  cbn [conforms well_formed in_state core_call_of may_return].
  rewrite read_body_ident_spec. destruct (body_present (c_max_body cf) rest); [|fin].
  destruct (json (body_of rest)) as [|d]; [fin|].
  rewrite ident_ok_ranges.
  pose proof (identify_client_spec cf st d) as HI.
  destruct (identify_client cf st d) as [st'|]; [|rewrite HI; fin].
  destruct HI as [HR [HK HH]]. rewrite HR.
  destruct (i_fn d); cbn [negb andb].
  2:{ fin; congruence. }
  destruct (c_deflate_on cf && i_deflate d) eqn:ED; destruct (c_snappy_on cf && i_snappy d) eqn:ES; cbn [andb negb orb].
  - fin.
  - rewrite orb_true_r. fin; try congruence. eexists [_; _], _, _, _, _. reflexivity.
  - rewrite orb_true_r. fin; try congruence. eexists [_; _], _, _, _, _. reflexivity.
  - rewrite !orb_false_r. destruct (c_tls_on cf && i_tls d); fin; try congruence.
    eexists [_; _], _, _, _, _. reflexivity.
Qed.

(* ------------------------------------------------------------------ MPUB *)
Definition size_ok (cf : cfg) (m : Z * bytes) : bool := (1 <=? fst m) && (fst m <=? c_max_msg cf).

Lemma read_msgs_spec : forall cf k bs,
  read_msgs cf k bs =
  match split_msgs k bs with
  | Some (l, r) => if forallb (size_ok cf) l then MOk (map snd l) r else MErr E_BAD_MESSAGE
  | None => MErr E_BAD_MESSAGE
  end.
Proof.
  intros cf. induction k as [|k IH]; intro bs; [reflexivity|].
  cbn [read_msgs split_msgs]. rewrite read_len_declared.
  destruct (declared bs) as [[sz r]|]; [|reflexivity].
  rewrite Z.gtb_ltb.
  destruct (Z.leb_spec sz 0).
  { destruct (len r <? sz); [reflexivity|].
    destruct (split_msgs k (skipn (Z.to_nat sz) r)) as [[l r']|]; [|reflexivity].
    cbn [forallb]. unfold size_ok at 1. cbn [fst]. destruct (Z.leb_spec 1 sz); [lia|]. reflexivity. }
  destruct (Z.ltb_spec (c_max_msg cf) sz).
  { destruct (len r <? sz); [reflexivity|].
    destruct (split_msgs k (skipn (Z.to_nat sz) r)) as [[l r']|]; [|reflexivity].
    cbn [forallb]. unfold size_ok at 1. cbn [fst]. destruct (Z.leb_spec sz (c_max_msg cf)); [lia|].
    rewrite andb_false_r. reflexivity. }
  rewrite make_bytes_pos by lia. rewrite read_full_spec by lia.
  destruct (Z.leb_spec sz (len r)); destruct (Z.ltb_spec (len r) sz); try lia.
  2: reflexivity.
  rewrite IH. destruct (split_msgs k (skipn (Z.to_nat sz) r)) as [[l r']|]; [|reflexivity].
  cbn [forallb]. unfold size_ok at 2. cbn [fst].
  destruct (Z.leb_spec 1 sz); [|lia]. destruct (Z.leb_spec sz (c_max_msg cf)); [|lia]. cbn [andb].
  destruct (forallb (size_ok cf) l); reflexivity.
Qed.

Lemma split_msgs_len : forall k bs l r, split_msgs k bs = Some (l, r) -> (length r <= length bs)%nat.
Proof.
  induction k as [|k IH]; intros bs l r H; cbn [split_msgs] in H.
  - inversion H; subst. lia.
  - destruct (declared bs) as [[sz r0]|] eqn:D; [|discriminate].
    destruct (len r0 <? sz); [discriminate|].
    destruct (split_msgs k (skipn (Z.to_nat sz) r0)) as [[l' r']|] eqn:E; [|discriminate].
    inversion H; subst. apply IH in E. apply declared_len in D. rewrite skipn_length in E. lia.
Qed.

Lemma split_msgs_count : forall k bs l r, split_msgs k bs = Some (l, r) -> length l = k.
Proof.
  induction k as [|k IH]; intros bs l r H; cbn [split_msgs] in H.
  - inversion H; subst. reflexivity.
  - destruct (declared bs) as [[sz r0]|]; [|discriminate].
    destruct (len r0 <? sz); [discriminate|].
    destruct (split_msgs k (skipn (Z.to_nat sz) r0)) as [[l' r']|] eqn:E; [|discriminate].
    inversion H; subst. cbn. f_equal. eapply IH; exact E.
Qed.

Lemma read_mpub_spec : forall cf view,
  read_mpub cf view =
  match declared view with
  | None => (MErr E_BAD_BODY, 0)
  | Some (num, r2) =>
    if (1 <=? num) && (num <=? Z.quot (c_max_body cf - 4) 5)
    then (read_msgs cf (Z.to_nat num) r2, num) else (MErr E_BAD_BODY, 0)
  end.
Proof.
  intros. unfold read_mpub, max_messages. rewrite read_len_declared.
  destruct (declared view) as [[num r2]|]; [|reflexivity].
  rewrite Z.gtb_ltb.
  destruct (Z.leb_spec num 0); destruct (Z.leb_spec 1 num); try lia; cbn [orb andb]; [reflexivity|].
  destruct (Z.ltb_spec (Z.quot (c_max_body cf - 4) 5) num); destruct (Z.leb_spec num (Z.quot (c_max_body cf - 4) 5)); try lia; [reflexivity|].
  unfold make_cap. destruct (Z.ltb_spec num 0); [lia | reflexivity].
Qed.

Lemma view_len : forall n (bs : bytes), (length (limit_view n bs) + length (beyond_view n bs) = length bs)%nat.
Proof.
  intros. unfold limit_view, beyond_view. rewrite <- app_length, firstn_skipn. reflexivity.
Qed.

Lemma resps_enqueues : forall t (l : list bytes), resps (map (fun b => Enqueue t b 0) l ++ [Resp ROk]) = [ROk].
Proof. intros t l. induction l as [|b l IH]; cbn; [reflexivity | exact IH]. Qed.

Lemma clean_enqueues : forall t (l : list bytes),
  forallb (fun x => negb (is_bad x)) (map (fun b => Enqueue t b 0) l ++ [Resp ROk]) = true.
Proof. intros t l. induction l as [|b l IH]; cbn; [reflexivity | exact IH]. Qed.

Lemma mpub_conforms : forall cf orc json st p0 tl rest,
  conforms (acc_core cf orc json st CMpub (p0 :: tl) rest) (may_return CMpub) st CMpub rest
           (do_mpub cf orc st (p0 :: tl) rest).
Proof.
  intros. unfold do_mpub, acc_core. rewrite len_lt_2.
  destruct tl as [|p1 tl]; cbn [conforms well_formed in_state core_call_of may_return]; [fin|].
  rewrite idx_1. destruct (is_valid_name p1) eqn:EV; cbn [negb andb]; [|fin].
  change (read_len rest) with (declared rest). unfold mpub_ok, mpub_bodies.
  destruct (declared rest) as [[blen r1]|] eqn:D; [|fin].
  rewrite Z.gtb_ltb.
  destruct (Z.leb_spec blen 0); destruct (Z.leb_spec 1 blen); try lia; cbn [andb]; [fin|].
  destruct (Z.ltb_spec (c_max_body cf) blen); destruct (Z.leb_spec blen (c_max_body cf)); try lia; cbn [andb]; [fin|].
  rewrite read_mpub_spec. unfold limit_view.
  destruct (declared (firstn (Z.to_nat blen) r1)) as [[num r2]|] eqn:D2; [|fin].
  destruct ((1 <=? num) && (num <=? Z.quot (c_max_body cf - 4) 5)); cbn [andb]; [|fin].
  rewrite read_msgs_spec.
  destruct (split_msgs (Z.to_nat num) r2) as [[l unread]|] eqn:ES; [|fin].
  destruct (forallb (size_ok cf) l) eqn:EF.
  2:{ unfold size_ok in EF. rewrite EF. fin. }
  unfold size_ok in EF. rewrite EF. unfold ask.
  destruct (orc (st_hist st) (KPutMulti p1 (map snd l))); [|fin].
  cbn [conforms]. split; [reflexivity|]. split; [cbn; destruct (st_kind st); reflexivity|]. split; [|split].
  - unfold clean. cbn [forallb is_bad negb andb]. apply clean_enqueues.
  - unfold resp_shape. cbn [ok_frame]. exists ROk. cbn [resps flat_map app]. rewrite resps_enqueues. split; reflexivity.
  - rewrite app_length. apply split_msgs_len in ES. apply declared_len in D2. apply declared_len in D.
    pose proof (view_len blen r1) as V. unfold limit_view in V. unfold beyond_view in *. lia.
Qed.

(* ================================================================== Exec and the loop *)
Section Loop.
Variable cf : cfg.
Variable orc : oracle.
Variable json : bytes -> jres.

Lemma handler_conforms : forall c st p0 tl rest,
  conforms (acc_core cf orc json st c (p0 :: tl) rest) (may_return c) st c rest
           (handler cf orc json c st (p0 :: tl) rest).
Proof.
  intros. destruct c; cbn [handler].
  - apply identify_conforms. - apply fin_conforms. - apply rdy_conforms. - apply req_conforms.
  - apply pub_conforms. - apply mpub_conforms. - apply dpub_conforms. - apply nop_conforms.
  - apply touch_conforms. - apply sub_conforms. - apply cls_conforms. - apply auth_conforms.
  - apply unknown_conforms.
Qed.

Definition is_identify (c : cmd) : bool := match c with CIdentify => true | _ => false end.

Lemma lookup_gated : forall t name,
  Forall (fun e => snd e = negb (is_identify (snd (fst e)))) t ->
  snd (lookup_cmd t name) = negb (is_identify (fst (lookup_cmd t name))).
Proof.
  induction t as [|[[n c] g] t IH]; intros name H; cbn [lookup_cmd]; [reflexivity|].
  inversion H; subst. destruct (bytes_eqb n name); [exact H2 | apply IH; exact H3].
Qed.

Lemma dispatch_gated : forall name,
  snd (lookup_cmd dispatch_table name) = negb (is_identify (fst (lookup_cmd dispatch_table name))).
Proof. intro name. apply lookup_gated. unfold dispatch_table. repeat constructor. Qed.

Lemma may_return_sub : forall b c e, In e (may_return c) -> In e (may_return_gated b c).
Proof. intros b c e H. destruct c; try exact H; destruct H. Qed.

Lemma gated_invalid : forall c, c <> CIdentify -> In E_INVALID (may_return_gated true c).
Proof. intros c H. destruct c; cbn; auto; congruence. Qed.

Lemma conforms_weaken : forall acc l1 l2 st c rest r,
  (forall e, In e l1 -> In e l2) -> conforms acc l1 st c rest r -> conforms acc l2 st c rest r.
Proof.
  intros acc l1 l2 st c rest r H C. destruct r; cbn [conforms] in *; try exact C.
  - destruct C as [A [B D]]. auto.
  - destruct C as [A [B D]]. auto.
Qed.

(* what one execution of Exec satisfies *)
Definition exec_ok (st : cstate) (params : list bytes) (rest : bytes) (c : cmd) (r : hres) : Prop :=
  conforms (accepts cf orc json st c params rest) (may_return_gated (c_tls_required cf) c) st c rest r.

Lemma exec_conforms : forall st params rest, params <> [] ->
  match exec cf orc json st params rest with
  | XPanic => False
  | XRes c r => exec_ok st params rest c r
  end.
Proof.
  intros st params rest Hne. destruct params as [|p0 tl]; [congruence|].
  unfold exec. rewrite idx_0.
  pose proof (dispatch_gated p0) as G.
  destruct (lookup_cmd dispatch_table p0) as [c g]. cbn [fst snd] in G. subst g. cbv beta iota.
  unfold tls_gate_refuses.
  destruct (c_tls_required cf) eqn:T.
  - destruct c; cbn [is_identify negb andb]; unfold exec_ok; rewrite accepts_gate; unfold gate; rewrite T;
      cbn [andb negb].
    1:{ eapply conforms_weaken; [apply may_return_sub | apply handler_conforms]. }
    all: cbn [conforms]; repeat split; try reflexivity; apply gated_invalid; discriminate.
  - rewrite andb_false_r. unfold exec_ok. rewrite accepts_gate. unfold gate. rewrite T. cbn [negb andb].
    eapply conforms_weaken; [apply may_return_sub | apply handler_conforms].
Qed.

Definition ev_conforms (e : ev) : Prop :=
  match e with
  | EvReadFail => True
  | EvFuel | EvPanic => False
  | EvCmd st c params rest r => exec_ok st params rest c r
  end.

Lemma next_shorter : forall st c params rest r st' rest',
  exec_ok st params rest c r -> next_of r = Some (st', rest') -> (length rest' <= length rest)%nat.
Proof.
  intros st c params rest r st' rest' C N. unfold exec_ok in C. destruct r; cbn in N; try discriminate; inversion N; subst; cbn [conforms] in C.
  - tauto.
  - destruct C as [_ [_ [_ [_ E]]]]. subst. lia.
Qed.

Lemma steps_conform : forall fuel st bs, (length bs <= fuel)%nat ->
  Forall ev_conforms (steps cf orc json fuel st bs).
Proof.
  induction fuel as [|f IH]; intros st bs Hf.
  - destruct bs; [|cbn in Hf; lia]. cbn. repeat constructor.
  - cbn [steps]. destruct (read_slice buffer_size bs) as [[line rest]|] eqn:R; [|repeat constructor].
    destruct (read_slice_spec _ _ _ _ R) as [l0 [HL [HB _]]]. pose proof (read_slice_shorter _ _ _ _ R) as HS.
    subst line. destruct (parse_line_ok l0) as [params [HP HN]]. rewrite HP.
    pose proof (exec_conforms st params rest HN) as HE.
    destruct (exec cf orc json st params rest) as [|c r]; [contradiction|].
    constructor; [exact HE|].
    destruct (next_of r) as [[st' rest']|] eqn:N; [|constructor].
    apply IH. pose proof (next_shorter _ _ _ _ _ _ _ HE N). lia.
Qed.

(* enough fuel is enough *)
Lemma steps_fuel : forall f1 f2 st bs, (length bs <= f1)%nat -> (length bs <= f2)%nat ->
  steps cf orc json f1 st bs = steps cf orc json f2 st bs.
Proof.
  induction f1 as [|f1 IH]; intros f2 st bs H1 H2.
  - destruct bs; [|cbn in H1; lia]. destruct f2; reflexivity.
  - destruct f2 as [|f2].
    + destruct bs; [|cbn in H2; lia]. reflexivity.
    + cbn [steps]. destruct (read_slice buffer_size bs) as [[line rest]|] eqn:R; [|reflexivity].
      destruct (read_slice_spec _ _ _ _ R) as [l0 [HL [HB _]]]. pose proof (read_slice_shorter _ _ _ _ R) as HS.
      subst line. destruct (parse_line_ok l0) as [params [HP HN]]. rewrite HP.
      pose proof (exec_conforms st params rest HN) as HE.
      destruct (exec cf orc json st params rest) as [|c r]; [reflexivity|].
      f_equal. destruct (next_of r) as [[st' rest']|] eqn:N; [|reflexivity].
      pose proof (next_shorter _ _ _ _ _ _ _ HE N). apply IH; lia.
Qed.

(* the loop, unfolded once: after a command that returns (nil or a non-fatal error) the
   loop goes on from the state and the stream position it left; after a fatal error, an
   upgrade or a failed read nothing follows *)
Definition loop_body (st : cstate) (bs : bytes) : list ev :=
  match read_slice buffer_size bs with
  | None => [EvReadFail]
  | Some (line, rest) =>
    match parse_line line with
    | None => [EvPanic]
    | Some params =>
      match exec cf orc json st params rest with
      | XPanic => [EvPanic]
      | XRes c r =>
        EvCmd st c params rest r ::
        match next_of r with
        | Some (st', rest') => steps cf orc json (length rest') st' rest'
        | None => []
        end
      end
    end
  end.

Lemma steps_unfold : forall st bs, steps cf orc json (length bs) st bs = loop_body st bs.
Proof.
  intros st bs. unfold loop_body. destruct bs as [|b bs]; [reflexivity|].
  cbn [length steps].
  destruct (read_slice buffer_size (b :: bs)) as [[line rest]|] eqn:R; [|reflexivity].
  destruct (read_slice_spec _ _ _ _ R) as [l0 [HL [HB _]]]. pose proof (read_slice_shorter _ _ _ _ R) as HS.
  subst line. destruct (parse_line_ok l0) as [params [HP HN]]. rewrite HP.
  pose proof (exec_conforms st params rest HN) as HE.
  destruct (exec cf orc json st params rest) as [|c r]; [reflexivity|].
  f_equal. destruct (next_of r) as [[st' rest']|] eqn:N; [|reflexivity].
  pose proof (next_shorter _ _ _ _ _ _ _ HE N). cbn [length] in HS. apply steps_fuel; lia.
Qed.

(* ------------------------------------------------------------------ no panic *)
Lemma clean_no_bad : forall o x, clean o -> In x o -> is_bad x = false.
Proof.
  intros o x C H. unfold clean in C. rewrite forallb_forall in C. apply C in H.
  destruct (is_bad x); [discriminate | reflexivity].
Qed.

Lemma ev_outs_no_panic : forall e, ev_conforms e -> ~ In Panic (outs_of_ev e) /\ ~ In OutOfFuel (outs_of_ev e).
Proof.
  intros e C. destruct e as [| | |st c params rest r]; cbn [ev_conforms] in C; try contradiction.
  - cbn. split; intros [H|[]]; discriminate.
  - unfold exec_ok in C. destruct r; cbn [conforms outs_of_ev outs_of_res] in *.
    + destruct C as [_ [_ [C _]]]. split; intro H; apply (clean_no_bad _ _ C) in H; discriminate.
    + split; intros [H|[H|[]]]; discriminate.
    + split; intros [H|[]]; discriminate.
    + destruct C as [_ [_ [C _]]]. split; intro H; apply (clean_no_bad _ _ C) in H; discriminate.
    + contradiction.
Qed.

Theorem run_no_panic : forall st bs,
  ~ In Panic (run cf orc json st bs) /\ ~ In OutOfFuel (run cf orc json st bs).
Proof.
  intros st bs. unfold run.
  pose proof (steps_conform (length bs) st bs (le_n _)) as F.
  induction F as [|e l He Hl IH]; cbn [flat_map]; [split; intros []|].
  destruct (ev_outs_no_panic e He) as [A B]. destruct IH as [C D].
  split; intro H; apply in_app_or in H; tauto.
Qed.

End Loop.

(* ================================================================== limits *)
(* the values a client can have negotiated: the daemon's default, the documented special
   value, or a value inside the configured range *)
Definition vals_ok (cf : cfg) (hb obs obt sr mt : Z) : Prop :=
  (hb = 0 \/ hb = c_def_hb cf \/ 1000 * ns_per_ms <= hb <= ms (c_max_hb cf) * ns_per_ms) /\
  (obs = 1 \/ obs = nsqd_defaultBufferSize \/ 64 <= obs <= c_max_obsize cf) /\
  (obt = 0 \/ obt = c_def_obt cf \/ ms (c_min_obt cf) * ns_per_ms <= obt <= ms (c_max_obt cf) * ns_per_ms) /\
  0 <= sr <= 99 /\
  (mt = c_def_msgto cf \/ 1000 * ns_per_ms <= mt <= ms (c_max_msgto cf) * ns_per_ms).

Definition st_vals_ok (cf : cfg) (st : cstate) : Prop :=
  vals_ok cf (st_hb st) (st_obsize st) (st_obt st) (st_sample st) (st_msgto st).

Definition out_ok (cf : cfg) (o : out) : Prop :=
  match o with
  | Enqueue t b d =>
      is_valid_name t = true /\ 1 <= len b <= c_max_msg cf /\ 0 <= d /\ (d = 0 \/ d <= c_max_req cf)
  | Batch size count =>
      1 <= size <= c_max_body cf /\ 1 <= count <= Z.quot (c_max_body cf - 4) 5
  | Sub t c => is_valid_name t = true /\ is_valid_name c = true
  | Rdy n => 0 <= n <= c_max_rdy cf
  | Fin id => len id = nsqd_MsgIDLength
  | Req id d => len id = nsqd_MsgIDLength /\ (0 <= c_max_req cf -> 0 <= d <= c_max_req cf)
  | Touch id _ => len id = nsqd_MsgIDLength
  | Ident hb obs obt sr mt => vals_ok cf hb obs obt sr mt
  | Upgrade _ _ _ lvl => lvl <= c_max_deflate cf
  | _ => True
  end.

Lemma init_vals_ok : forall cf, st_vals_ok cf (init_state cf).
Proof. intro cf. unfold st_vals_ok, vals_ok, init_state. cbn. lia. Qed.

Lemma ns_pos : 0 < ns_per_ms.
Proof. reflexivity. Qed.

Lemma identify_client_vals : forall cf st d st',
  st_vals_ok cf st -> identify_client cf st d = Some st' -> st_vals_ok cf st'.
Proof.
  intros cf st d st' [H1 [H2 [H3 [H4 H5]]]] E. unfold identify_client in E.
  destruct (set_heartbeat cf (st_hb st) (i_hb d)) as [hb|] eqn:E1; [|discriminate].
  destruct (set_output_buffer cf (st_obsize st) (st_obt st) (i_obsize d) (i_obt d)) as [[obs obt]|] eqn:E2; [|discriminate].
  destruct (set_sample_rate (i_sample d)) as [sr|] eqn:E3; [|discriminate].
  destruct (set_msg_timeout cf (st_msgto st) (i_msgto d)) as [mt|] eqn:E4; [|discriminate].
  inversion E; subst st'. unfold st_vals_ok, vals_ok. cbn [st_hb st_obsize st_obt st_sample st_msgto].
  pose proof ns_pos as NP.
  assert (A1 : hb = 0 \/ hb = c_def_hb cf \/ 1000 * ns_per_ms <= hb <= ms (c_max_hb cf) * ns_per_ms).
  { unfold set_heartbeat in E1. rewrite Z.geb_leb in E1.
    destruct (i_hb d =? -1); [inversion E1; auto|]. destruct (i_hb d =? 0); [inversion E1; subst; exact H1|].
    destruct (Z.leb_spec 1000 (i_hb d)); [|discriminate]. destruct (Z.leb_spec (i_hb d) (ms (c_max_hb cf))); [|discriminate].
    inversion E1; subst. right. right. nia. }
  assert (A4 : 0 <= sr <= 99).
  { unfold set_sample_rate in E3. rewrite Z.gtb_ltb in E3.
    destruct (Z.ltb_spec (i_sample d) 0); [discriminate|]. destruct (Z.ltb_spec 99 (i_sample d)); [discriminate|].
    inversion E3; subst. lia. }
  assert (A5 : mt = c_def_msgto cf \/ 1000 * ns_per_ms <= mt <= ms (c_max_msgto cf) * ns_per_ms).
  { unfold set_msg_timeout in E4. rewrite Z.geb_leb in E4.
    destruct (i_msgto d =? 0); [inversion E4; subst; exact H5|].
    destruct (Z.leb_spec 1000 (i_msgto d)); [|discriminate]. destruct (Z.leb_spec (i_msgto d) (ms (c_max_msgto cf))); [|discriminate].
    inversion E4; subst. right. nia. }
  assert (A23 : (obs = 1 \/ obs = nsqd_defaultBufferSize \/ 64 <= obs <= c_max_obsize cf) /\
                (obt = 0 \/ obt = c_def_obt cf \/ ms (c_min_obt cf) * ns_per_ms <= obt <= ms (c_max_obt cf) * ns_per_ms)).
  { unfold set_output_buffer in E2. rewrite !Z.geb_leb in E2.
    assert (T : forall to1,
      (to1 = 0 \/ to1 = c_def_obt cf \/ ms (c_min_obt cf) * ns_per_ms <= to1 <= ms (c_max_obt cf) * ns_per_ms) ->
      (if i_obsize d =? -1 then Some (1, 0)
       else if i_obsize d =? 0 then Some (st_obsize st, to1)
       else if (64 <=? i_obsize d) && (i_obsize d <=? c_max_obsize cf) then Some (i_obsize d, to1) else None) = Some (obs, obt) ->
      (obs = 1 \/ obs = nsqd_defaultBufferSize \/ 64 <= obs <= c_max_obsize cf) /\
      (obt = 0 \/ obt = c_def_obt cf \/ ms (c_min_obt cf) * ns_per_ms <= obt <= ms (c_max_obt cf) * ns_per_ms)).
    { intros to1 Hto F. destruct (i_obsize d =? -1); [inversion F; subst; auto|].
      destruct (i_obsize d =? 0); [inversion F; subst; split; [exact H2 | exact Hto]|].
      destruct (Z.leb_spec 64 (i_obsize d)); [|discriminate]. destruct (Z.leb_spec (i_obsize d) (c_max_obsize cf)); [|discriminate].
      inversion F; subst. split; [right; right; lia | exact Hto]. }
    destruct (i_obt d =? -1); [apply (T 0); auto|].
    destruct (i_obt d =? 0); [apply (T (st_obt st)); auto|].
    destruct (Z.leb_spec (ms (c_min_obt cf)) (i_obt d)); [|discriminate].
    destruct (Z.leb_spec (i_obt d) (ms (c_max_obt cf))); [|discriminate]. cbn [andb] in E2.
    apply (T (i_obt d * ns_per_ms)); [right; right; nia | exact E2]. }
  destruct A23 as [A2 A3]. exact (conj A1 (conj A2 (conj A3 (conj A4 A5)))).
Qed.

Lemma valid_id_len : forall p, valid_id p = true -> len p = nsqd_MsgIDLength.
Proof. intros p H. unfold valid_id in H. apply Z.eqb_eq in H. exact H. Qed.

Lemma req_param_range : forall max p d, req_param max p = ReqDelay d -> 0 <= max -> 0 <= d <= max.
Proof.
  intros max p d H M. unfold req_param in H. destruct (byte_to_base10 p) as [n|]; [|discriminate].
  inversion H; subst. pose proof (ms_to_duration_nonneg n). rewrite Z.gtb_ltb.
  destruct (Z.ltb_spec (ms_to_duration n) 0); [lia|].
  destruct (Z.ltb_spec max (ms_to_duration n)); lia.
Qed.

Lemma defer_ok_range : forall max p, defer_ok max p = true ->
  0 <= match digits_value p with Some n => ms_to_duration n | None => 0 end <= max.
Proof.
  intros max p H. unfold defer_ok in H. destruct (digits_value p) as [n|]; [|discriminate].
  pose proof (ms_to_duration_nonneg n). lia.
Qed.

Lemma rdy_ok_range : forall max p, rdy_ok max p = true -> 0 <= rdy_value p <= max.
Proof.
  intros max p H. unfold rdy_ok, rdy_value in *. destruct (digits_value p) as [n|]; [|discriminate]. lia.
Qed.

(* what a handler hands to the core, and the client values it leaves *)
Definition res_limits (cf : cfg) (r : hres) : Prop :=
  match r with
  | HOk o st' _ => Forall (out_ok cf) o /\ st_vals_ok cf st'
  | HStop o => Forall (out_ok cf) o
  | HSoft _ st' _ => st_vals_ok cf st'
  | _ => True
  end.

Lemma vals_set_kind : forall cf st k, st_vals_ok cf st -> st_vals_ok cf (set_kind st k).
Proof. intros. exact H. Qed.
Lemma vals_push_hist : forall cf st k b, st_vals_ok cf st -> st_vals_ok cf (push_hist st k b).
Proof. intros. exact H. Qed.

Lemma size_ok_bodies : forall cf k bs l r,
  split_msgs k bs = Some (l, r) -> forallb (size_ok cf) l = true ->
  Forall (fun b => 1 <= len b <= c_max_msg cf) (map snd l).
Proof.
  induction k as [|k IH]; intros bs l r H F; cbn [split_msgs] in H.
  - inversion H; subst. constructor.
  - destruct (declared bs) as [[sz r0]|]; [|discriminate].
    destruct (Z.ltb_spec (len r0) sz); [discriminate|].
    destruct (split_msgs k (skipn (Z.to_nat sz) r0)) as [[l' r']|] eqn:E; [|discriminate].
    inversion H; subst. cbn [forallb] in F. apply andb_true_iff in F. destruct F as [F1 F2].
    cbn [map snd]. constructor; [|eapply IH; eauto].
    unfold size_ok in F1. cbn [fst] in F1. unfold len in *. rewrite firstn_length. lia.
Qed.

Section Limits.
Variable cf : cfg.
Variable orc : oracle.
Variable json : bytes -> jres.

Ltac ok_tac := repeat (first [ apply Forall_cons | apply Forall_nil ]); cbn [out_ok]; auto.

Lemma handler_limits : forall c st params rest, st_vals_ok cf st ->
  res_limits cf (handler cf orc json c st params rest).
Proof.
  intros c st params rest V. destruct c; cbn [handler].
  - (* IDENTIFY *)
    unfold do_identify. destruct (st_kind st); try exact I.
    rewrite read_body_ident_spec. destruct (body_present (c_max_body cf) rest); try exact I.
    destruct (json (body_of rest)) as [|d]; try exact I.
    destruct (identify_client cf st d) as [st'|] eqn:EI; try exact I.
    pose proof (identify_client_vals _ _ _ _ V EI) as V'.
    destruct (i_fn d); cbn [negb].
    2:{ cbn [res_limits]. split; [ok_tac | exact V']. }
    destruct ((c_deflate_on cf && i_deflate d) && (c_snappy_on cf && i_snappy d)); try exact I.
    destruct (c_tls_on cf && i_tls d || c_snappy_on cf && i_snappy d || c_deflate_on cf && i_deflate d);
      cbn [res_limits].
    + ok_tac. destruct (c_max_deflate cf <? _) eqn:L; lia.
    + split; [ok_tac | exact V'].
  - (* FIN *)
    unfold do_fin. destruct (negb (consuming st)); try exact I. destruct (len params <? 2); try exact I.
    destruct (idx params 1) as [p|]; try exact I. rewrite get_message_id_spec.
    destruct (valid_id p) eqn:EV; try exact I. apply valid_id_len in EV.
    destruct (ask orc st (KFin p)); cbn [res_limits]; [split; [ok_tac|] |]; apply vals_push_hist; exact V.
  - (* RDY *)
    unfold do_rdy. destruct (st_kind st); try exact I.
    + destruct (len params >? 1).
      * destruct (idx params 1) as [p|]; try exact I. rewrite rdy_param_local.
        destruct (rdy_ok (c_max_rdy cf) p) eqn:ER; try exact I. apply rdy_ok_range in ER.
        cbn [res_limits]. split; [ok_tac | exact V].
      * rewrite Z.gtb_ltb. cbn [orb Z.ltb Z.compare]. destruct (Z.ltb_spec (c_max_rdy cf) 1); try exact I.
        cbn [res_limits]. split; [ok_tac; lia | exact V].
    + cbn [res_limits]. split; [ok_tac | exact V].
  - (* REQ *)
    unfold do_req. destruct (negb (consuming st)); try exact I. destruct (len params <? 3); try exact I.
    destruct (idx params 1) as [p|]; try exact I. rewrite get_message_id_spec.
    destruct (valid_id p) eqn:EV; try exact I. apply valid_id_len in EV.
    destruct (idx params 2) as [t|]; try exact I.
    destruct (req_param (c_max_req cf) t) as [|d] eqn:ER; try exact I.
    destruct (ask orc st (KReq p d)); cbn [res_limits]; [split; [ok_tac|] |]; try (apply vals_push_hist; exact V).
    split; [exact EV | apply (req_param_range _ _ _ ER)].
  - (* PUB *)
    unfold do_pub. destruct (len params <? 2); try exact I. destruct (idx params 1) as [p|]; try exact I.
    destruct (is_valid_name p) eqn:EN; cbn [negb]; try exact I.
    rewrite read_body_msg_spec. destruct (body_present (c_max_msg cf) rest) eqn:EB; try exact I.
    apply body_present_len in EB.
    destruct (ask orc st (KPut p (body_of rest) 0)); try exact I.
    cbn [res_limits]. split; [ok_tac; repeat split; auto; lia | apply vals_push_hist; exact V].
  - (* MPUB *)
    unfold do_mpub. destruct (len params <? 2); try exact I. destruct (idx params 1) as [p|]; try exact I.
    destruct (is_valid_name p) eqn:EN; cbn [negb]; try exact I.
    change (read_len rest) with (declared rest).
    destruct (declared rest) as [[blen r1]|]; try exact I. rewrite Z.gtb_ltb.
    destruct (Z.leb_spec blen 0); try exact I. destruct (Z.ltb_spec (c_max_body cf) blen); try exact I.
    rewrite read_mpub_spec. destruct (declared (limit_view blen r1)) as [[num r2]|]; try exact I.
    destruct (Z.leb_spec 1 num); cbn [andb]; try exact I.
    destruct (Z.leb_spec num (Z.quot (c_max_body cf - 4) 5)); try exact I.
    rewrite read_msgs_spec. destruct (split_msgs (Z.to_nat num) r2) as [[l unread]|] eqn:ES; try exact I.
    destruct (forallb (size_ok cf) l) eqn:EF; try exact I.
    destruct (ask orc st (KPutMulti p (map snd l))); try exact I.
    cbn [res_limits]. split; [|apply vals_push_hist; exact V].
    constructor; [cbn [out_ok]; lia|]. apply Forall_app. split; [|ok_tac].
    pose proof (size_ok_bodies _ _ _ _ _ ES EF) as SB.
    rewrite Forall_forall in *. intros x Hx. apply in_map_iff in Hx. destruct Hx as [b [Hb Hin]]. subst x.
    cbn [out_ok]. specialize (SB b Hin). repeat split; auto; lia.
  - (* DPUB *)
    unfold do_dpub. destruct (len params <? 3); try exact I. destruct (idx params 1) as [p|]; try exact I.
    destruct (is_valid_name p) eqn:EN; cbn [negb]; try exact I.
    destruct (idx params 2) as [t|]; try exact I. rewrite dpub_param_local.
    destruct (defer_ok (c_max_req cf) t) eqn:ED; try exact I. apply defer_ok_range in ED.
    rewrite read_body_msg_spec. destruct (body_present (c_max_msg cf) rest) eqn:EB; try exact I.
    apply body_present_len in EB.
    destruct (ask orc st _); try exact I.
    cbn [res_limits]. split; [ok_tac; repeat split; auto; lia | apply vals_push_hist; exact V].
  - (* NOP *) cbn. split; [constructor | exact V].
  - (* TOUCH *)
    unfold do_touch. destruct (negb (consuming st)); try exact I. destruct (len params <? 2); try exact I.
    destruct (idx params 1) as [p|]; try exact I. rewrite get_message_id_spec.
    destruct (valid_id p) eqn:EV; try exact I. apply valid_id_len in EV.
    destruct (ask orc st (KTouch p)); cbn [res_limits]; [split; [ok_tac|] |]; apply vals_push_hist; exact V.
  - (* SUB *)
    unfold do_sub. destruct (st_kind st); try exact I. destruct (st_hb st <=? 0); try exact I.
    destruct (len params <? 3); try exact I. destruct (idx params 1) as [p|]; try exact I.
    destruct (is_valid_name p) eqn:EN; cbn [negb]; try exact I.
    destruct (idx params 2) as [q|]; try exact I.
    destruct (is_valid_name q) eqn:EQ; cbn [negb]; try exact I.
    destruct (ask orc st (KSub p q)); try exact I.
    cbn [res_limits]. split; [ok_tac | exact V].
  - (* CLS *)
    unfold do_cls. destruct (st_kind st); try exact I. cbn [res_limits]. split; [ok_tac | exact V].
  - (* AUTH *)
    unfold do_auth. destruct (st_kind st); try exact I. destruct (negb (len params =? 1)); try exact I.
    rewrite read_body_ident_spec. destruct (body_present (c_max_body cf) rest); exact I.
  - exact I.
Qed.

Lemma exec_limits : forall st params rest, st_vals_ok cf st ->
  match exec cf orc json st params rest with
  | XPanic => True
  | XRes _ r => res_limits cf r
  end.
Proof.
  intros st params rest V. unfold exec. destruct (idx params 0) as [name|]; [|exact I].
  destruct (lookup_cmd dispatch_table name) as [c g]. cbv beta iota.
  destruct (g && tls_gate_refuses cf); [exact I | apply handler_limits; exact V].
Qed.

Lemma steps_limits : forall fuel st bs, st_vals_ok cf st ->
  Forall (out_ok cf) (flat_map outs_of_ev (steps cf orc json fuel st bs)).
Proof.
  induction fuel as [|f IH]; intros st bs V; cbn [steps].
  - destruct (read_slice buffer_size bs) as [[line rest]|]; cbn; repeat constructor.
  - destruct (read_slice buffer_size bs) as [[line rest]|]; [|cbn; repeat constructor].
    destruct (parse_line line) as [params|]; [|cbn; repeat constructor].
    pose proof (exec_limits st params rest V) as HE.
    destruct (exec cf orc json st params rest) as [|c r]; [cbn; repeat constructor|].
    cbn [flat_map outs_of_ev]. apply Forall_app. split.
    + destruct r; cbn [outs_of_res res_limits] in *; try tauto; repeat constructor.
    + destruct r; cbn [next_of]; cbn [res_limits] in HE; try (cbn; constructor).
      * apply IH. tauto.
      * apply IH. exact HE.
Qed.

Theorem run_limits : forall st bs, st_vals_ok cf st -> Forall (out_ok cf) (run cf orc json st bs).
Proof. intros. unfold run. apply steps_limits. exact H. Qed.

End Limits.

(* ================================================================== a refused publish enqueues nothing *)
Definition is_enq (o : out) : bool := match o with Enqueue _ _ _ => true | _ => false end.
Definition enq_count (o : list out) : nat := length (filter is_enq o).
Definition is_publish (c : cmd) : bool := match c with CPub | CMpub | CDpub => true | _ => false end.

(* bytes of a batch on the wire: the count, then each message with its size *)
Fixpoint batch_bytes (bodies : list bytes) : Z :=
  match bodies with [] => 0 | b :: r => 4 + len b + batch_bytes r end.

Lemma enq_count_map : forall t (l : list bytes) tail,
  enq_count (map (fun b => Enqueue t b 0) l ++ tail) = (length l + enq_count tail)%nat.
Proof. intros t l tail. induction l as [|b l IH]; cbn; [reflexivity|]. unfold enq_count in IH. rewrite IH. reflexivity. Qed.

Lemma split_msgs_bytes : forall cf k bs l r,
  split_msgs k bs = Some (l, r) -> forallb (size_ok cf) l = true ->
  len bs = batch_bytes (map snd l) + len r.
Proof.
  induction k as [|k IH]; intros bs l r H F; cbn [split_msgs] in H.
  - inversion H; subst. cbn. lia.
  - destruct (declared bs) as [[sz r0]|] eqn:D; [|discriminate].
    destruct (Z.ltb_spec (len r0) sz); [discriminate|].
    destruct (split_msgs k (skipn (Z.to_nat sz) r0)) as [[l' r']|] eqn:E; [|discriminate].
    inversion H; subst. cbn [forallb] in F. apply andb_true_iff in F. destruct F as [F1 F2].
    specialize (IH _ _ _ E F2). cbn [map snd batch_bytes].
    unfold size_ok in F1. cbn [fst] in F1. apply declared_len in D.
    unfold len in *. rewrite firstn_length. rewrite skipn_length in IH. lia.
Qed.

(* the shape of an accepted MPUB: all its messages, declared count, within the declared size *)
Definition mpub_shape (cf : cfg) (o : list out) : Prop :=
  exists t blen bodies,
    o = Batch blen (len bodies) :: map (fun b => Enqueue t b 0) bodies ++ [Resp ROk]
    /\ 1 <= len bodies
    /\ 4 + batch_bytes bodies <= blen <= c_max_body cf.

Lemma mpub_ok_shape : forall cf orc st params rest o st' rest',
  do_mpub cf orc st params rest = HOk o st' rest' -> mpub_shape cf o.
Proof.
  intros cf orc st params rest o st' rest' H. unfold do_mpub in H.
  destruct (len params <? 2); [discriminate|]. destruct (idx params 1) as [p|]; [|discriminate].
  destruct (negb (is_valid_name p)); [discriminate|].
  change (read_len rest) with (declared rest) in H.
  destruct (declared rest) as [[blen r1]|]; [|discriminate]. rewrite Z.gtb_ltb in H.
  destruct (Z.leb_spec blen 0); [discriminate|]. destruct (Z.ltb_spec (c_max_body cf) blen); [discriminate|].
  rewrite read_mpub_spec in H. destruct (declared (limit_view blen r1)) as [[num r2]|] eqn:D2; [|discriminate].
  destruct (Z.leb_spec 1 num); cbn [andb] in H; [|discriminate].
  destruct (num <=? Z.quot (c_max_body cf - 4) 5); [|discriminate].
  rewrite read_msgs_spec in H. destruct (split_msgs (Z.to_nat num) r2) as [[l unread]|] eqn:ES; [|discriminate].
  destruct (forallb (size_ok cf) l) eqn:EF; [|discriminate].
  destruct (ask orc st (KPutMulti p (map snd l))); [|discriminate].
  inversion H; subst. exists p, blen, (map snd l).
  pose proof (split_msgs_count _ _ _ _ ES) as HC.
  assert (HN : len (map snd l) = num) by (unfold len; rewrite map_length, HC; lia).
  rewrite HN. split; [reflexivity|]. split; [lia|].
  pose proof (split_msgs_bytes _ _ _ _ _ ES EF) as HB. apply declared_len in D2.
  pose proof (len_nonneg _ unread).
  assert (len (limit_view blen r1) <= blen) by (unfold limit_view, len; rewrite firstn_length; lia).
  unfold len in *. lia.
Qed.

Lemma mpub_shape_count : forall cf o, mpub_shape cf o -> (1 <= enq_count o)%nat.
Proof.
  intros cf o [t [blen [bodies [E [H1 _]]]]]. subst o. unfold enq_count. cbn [filter is_enq].
  fold (enq_count (map (fun b => Enqueue t b 0) bodies ++ [Resp ROk])). rewrite enq_count_map.
  unfold len in H1. lia.
Qed.

Section Reject.
Variable cf : cfg.
Variable orc : oracle.
Variable json : bytes -> jres.

(* how many messages one executed command hands to the topic *)
Definition enq_rule (c : cmd) (r : hres) : Prop :=
  match r with
  | HOk o _ _ =>
      match c with
      | CPub | CDpub => enq_count o = 1%nat
      | CMpub => mpub_shape cf o
      | _ => enq_count o = 0%nat
      end
  | HStop o => enq_count o = 0%nat
  | _ => enq_count (outs_of_res r) = 0%nat
  end.

Lemma handler_enq : forall c st params rest, enq_rule c (handler cf orc json c st params rest).
Proof.
  intros c st params rest.
  destruct (handler cf orc json c st params rest) as [o st' rest'|e|e st' rest'|o|] eqn:H;
    cbn [enq_rule outs_of_res]; try reflexivity.
  - destruct c; cbn [handler] in H.
    + unfold do_identify in H. destruct (st_kind st); try discriminate.
      destruct (read_body_ident cf rest); try discriminate. destruct (json body); try discriminate.
      destruct (identify_client cf st d); try discriminate.
      destruct (negb (i_fn d)); [inversion H; reflexivity|].
      destruct (c_deflate_on cf && i_deflate d && (c_snappy_on cf && i_snappy d)); try discriminate.
      destruct (c_tls_on cf && i_tls d || c_snappy_on cf && i_snappy d || c_deflate_on cf && i_deflate d); inversion H; reflexivity.
    + unfold do_fin in H. destruct (negb (consuming st)); try discriminate. destruct (len params <? 2); try discriminate.
      destruct (idx params 1); try discriminate. destruct (get_message_id b); try discriminate.
      destruct (ask orc st (KFin id)); inversion H; reflexivity.
    + unfold do_rdy in H. destruct (st_kind st); try discriminate.
      * destruct (len params >? 1).
        -- destruct (idx params 1); try discriminate. destruct (rdy_param (c_max_rdy cf) b); inversion H; reflexivity.
        -- destruct ((1 <? 0) || (1 >? c_max_rdy cf)); inversion H; reflexivity.
      * inversion H; reflexivity.
    + unfold do_req in H. destruct (negb (consuming st)); try discriminate. destruct (len params <? 3); try discriminate.
      destruct (idx params 1); try discriminate. destruct (get_message_id b); try discriminate.
      destruct (idx params 2); try discriminate. destruct (req_param (c_max_req cf) b0); try discriminate.
      destruct (ask orc st (KReq id ns)); inversion H; reflexivity.
    + unfold do_pub in H. destruct (len params <? 2); try discriminate. destruct (idx params 1); try discriminate.
      destruct (negb (is_valid_name b)); try discriminate. destruct (read_body_msg cf rest); try discriminate.
      destruct (ask orc st (KPut b body 0)); inversion H; reflexivity.
    + eapply mpub_ok_shape; exact H.
    + unfold do_dpub in H. destruct (len params <? 3); try discriminate. destruct (idx params 1); try discriminate.
      destruct (negb (is_valid_name b)); try discriminate. destruct (idx params 2); try discriminate.
      destruct (dpub_param (c_max_req cf) b0); try discriminate. destruct (read_body_msg cf rest); try discriminate.
      destruct (ask orc st (KPut b body ns)); inversion H; reflexivity.
    + inversion H; reflexivity.
    + unfold do_touch in H. destruct (negb (consuming st)); try discriminate. destruct (len params <? 2); try discriminate.
      destruct (idx params 1); try discriminate. destruct (get_message_id b); try discriminate.
      destruct (ask orc st (KTouch id)); inversion H; reflexivity.
    + unfold do_sub in H. destruct (st_kind st); try discriminate. destruct (st_hb st <=? 0); try discriminate.
      destruct (len params <? 3); try discriminate. destruct (idx params 1); try discriminate.
      destruct (negb (is_valid_name b)); try discriminate. destruct (idx params 2); try discriminate.
      destruct (negb (is_valid_name b0)); try discriminate.
      destruct (ask orc st (KSub b b0)); inversion H; reflexivity.
    + unfold do_cls in H. destruct (st_kind st); inversion H; reflexivity.
    + unfold do_auth in H. destruct (st_kind st); try discriminate. destruct (negb (len params =? 1)); try discriminate.
      destruct (read_body_ident cf rest); discriminate.
    + discriminate.
  - destruct c; cbn [handler] in H; try discriminate.
    all: try (unfold do_fin in H || unfold do_rdy in H || unfold do_req in H || unfold do_pub in H || unfold do_mpub in H
              || unfold do_dpub in H || unfold do_touch in H || unfold do_sub in H || unfold do_cls in H || unfold do_auth in H
              || unfold do_nop in H).
    + unfold do_identify in H. destruct (st_kind st); try discriminate.
      destruct (read_body_ident cf rest); try discriminate. destruct (json body); try discriminate.
      destruct (identify_client cf st d); try discriminate.
      destruct (negb (i_fn d)); [discriminate|].
      destruct (c_deflate_on cf && i_deflate d && (c_snappy_on cf && i_snappy d)); try discriminate.
      destruct (c_tls_on cf && i_tls d || c_snappy_on cf && i_snappy d || c_deflate_on cf && i_deflate d); inversion H; reflexivity.
    + repeat match type of H with
             | (if ?x then _ else _) = _ => destruct x
             | match ?x with _ => _ end = _ => destruct x
             end; discriminate.
    + repeat match type of H with
             | (if ?x then _ else _) = _ => destruct x
             | match ?x with _ => _ end = _ => destruct x
             end; discriminate.
    + repeat match type of H with
             | (if ?x then _ else _) = _ => destruct x
             | match ?x with _ => _ end = _ => destruct x
             end; discriminate.
    + repeat match type of H with
             | (if ?x then _ else _) = _ => destruct x
             | match ?x with _ => _ end = _ => destruct x
             end; discriminate.
    + repeat match type of H with
             | (if ?x then _ else _) = _ => destruct x
             | match ?x with _ => _ end = _ => destruct x
             end; discriminate.
    + repeat match type of H with
             | (if ?x then _ else _) = _ => destruct x
             | match ?x with _ => _ end = _ => destruct x
             end; discriminate.
    + repeat match type of H with
             | (if ?x then _ else _) = _ => destruct x
             | match ?x with _ => _ end = _ => destruct x
             end; discriminate.
    + repeat match type of H with
             | (if ?x then _ else _) = _ => destruct x
             | match ?x with _ => _ end = _ => destruct x
             end; discriminate.
    + repeat match type of H with
             | (if ?x then _ else _) = _ => destruct x
             | match ?x with _ => _ end = _ => destruct x
             end; discriminate.
    + repeat match type of H with
             | (if ?x then _ else _) = _ => destruct x
             | match ?x with _ => _ end = _ => destruct x
             end; discriminate.
Qed.

Definition ev_enq (e : ev) : Prop :=
  match e with
  | EvCmd _ c _ _ r => enq_rule c r
  | _ => enq_count (outs_of_ev e) = 0%nat
  end.

Lemma exec_enq : forall st params rest,
  match exec cf orc json st params rest with
  | XPanic => True
  | XRes c r => enq_rule c r
  end.
Proof.
  intros st params rest. unfold exec. destruct (idx params 0) as [name|]; [|exact I].
  destruct (lookup_cmd dispatch_table name) as [c g]. cbv beta iota.
  destruct (g && tls_gate_refuses cf); [reflexivity | apply handler_enq].
Qed.

Lemma steps_enq : forall fuel st bs, Forall ev_enq (steps cf orc json fuel st bs).
Proof.
  induction fuel as [|f IH]; intros st bs; cbn [steps].
  - destruct (read_slice buffer_size bs) as [[line rest]|]; repeat constructor.
  - destruct (read_slice buffer_size bs) as [[line rest]|]; [|repeat constructor].
    destruct (parse_line line) as [params|]; [|repeat constructor].
    pose proof (exec_enq st params rest) as HE.
    destruct (exec cf orc json st params rest) as [|c r]; [repeat constructor|].
    constructor; [exact HE|]. destruct (next_of r) as [[st' rest']|]; [apply IH | constructor].
Qed.

End Reject.

(* ================================================================== isolation *)
Section Isolation.
Variable cf : cfg.

Definition evs_of (p : peer) (k : conn) : list ev :=
  match k with
  | None => []
  | Some (st, bs) => steps cf (p_orc p) (p_json p) (length bs) st bs
  end.

Fixpoint count_true (l : list bool) : nat :=
  match l with [] => O | true :: r => S (count_true r) | false :: r => count_true r end.

Lemma conn_step_evs : forall p k o k',
  conn_step cf p k = (o, k') ->
  match evs_of p k with
  | [] => o = [] /\ k' = None
  | e :: rest => o = outs_of_ev e /\ evs_of p k' = rest
  end.
Proof.
  intros p k o k'. destruct k as [[st bs]|]; cbn [conn_step evs_of].
  2:{ intro H. inversion H; subst. split; reflexivity. }
  rewrite steps_unfold. unfold loop_body, iter.
  destruct (read_slice buffer_size bs) as [[line rest]|]; [|intro H; inversion H; subst; split; reflexivity].
  destruct (parse_line line) as [params|]; [|intro H; inversion H; subst; split; reflexivity].
  destruct (exec cf (p_orc p) (p_json p) st params rest) as [|c r]; [intro H; inversion H; subst; split; reflexivity|].
  intro H. inversion H; subst. split; [reflexivity|].
  destruct (next_of r) as [[st' rest']|]; reflexivity.
Qed.

Lemma outputs_of_app : forall w a b, outputs_of w (a ++ b) = outputs_of w a ++ outputs_of w b.
Proof. intros. unfold outputs_of. rewrite filter_app, map_app. reflexivity. Qed.
Lemma outputs_of_same : forall w o, outputs_of w (map (pair w) o) = o.
Proof.
  intros w o. unfold outputs_of. induction o as [|x o IH]; cbn; [reflexivity|].
  rewrite Bool.eqb_reflx. cbn. f_equal. exact IH.
Qed.
Lemma outputs_of_other : forall w o, outputs_of w (map (pair (negb w)) o) = [].
Proof.
  intros w o. unfold outputs_of. induction o as [|x o IH]; cbn; [reflexivity|].
  destruct w; cbn; exact IH.
Qed.

(* under every schedule, what connection A writes and hands to the core is the run of its
   own loop on its own bytes, cut after as many iterations as A was scheduled *)
Theorem sys_run_A : forall pa pb sched a b,
  outputs_of true (sys_run cf pa pb sched a b) =
  flat_map outs_of_ev (firstn (count_true sched) (evs_of pa a)).
Proof.
  intros pa pb. induction sched as [|w s IH]; intros a b; [reflexivity|].
  destruct w; cbn [sys_run count_true].
  - destruct (conn_step cf pa a) as [o a'] eqn:E. pose proof (conn_step_evs _ _ _ _ E) as H.
    rewrite outputs_of_app, outputs_of_same, IH.
    destruct (evs_of pa a) as [|e rest]; destruct H as [H1 H2].
    + subst o a'. cbn. rewrite firstn_nil. reflexivity.
    + subst o. cbn [firstn flat_map]. rewrite H2. reflexivity.
  - destruct (conn_step cf pb b) as [o b'] eqn:E.
    rewrite outputs_of_app. change false with (negb true). rewrite outputs_of_other. cbn [app]. apply IH.
Qed.

Lemma steps_length : forall orc json f st bs, (length (steps cf orc json f st bs) <= S (length bs))%nat.
Proof.
  intros orc json. induction f as [|f IH]; intros st bs; cbn [steps].
  - destruct (read_slice buffer_size bs) as [[line rest]|]; cbn; lia.
  - destruct (read_slice buffer_size bs) as [[line rest]|] eqn:R; [|cbn; lia].
    pose proof (read_slice_shorter _ _ _ _ R) as HS.
    destruct (parse_line line) as [params|] eqn:HP; [|cbn; lia].
    pose proof (read_slice_spec _ _ _ _ R) as [l0 [HL _]]. subst line.
    destruct (parse_line_ok l0) as [params' [HP' HN]]. rewrite HP in HP'. inversion HP'; subst params'.
    pose proof (exec_conforms cf orc json st params rest HN) as HE.
    destruct (exec cf orc json st params rest) as [|c r]; [cbn; lia|].
    cbn [length]. destruct (next_of r) as [[st' rest']|] eqn:N; [|cbn; lia].
    pose proof (next_shorter _ _ _ _ _ _ _ _ _ _ HE N). specialize (IH st' rest'). lia.
Qed.

(* isolation: A's outputs do not depend on B at all (its bytes, its state, its oracles),
   and once A has been scheduled often enough they are exactly exec_conn's *)
Theorem isolation : forall pa pb pb' sched a b b',
  outputs_of true (sys_run cf pa pb sched a b) = outputs_of true (sys_run cf pa pb' sched a b').
Proof. intros. rewrite !sys_run_A. reflexivity. Qed.

Theorem isolation_complete : forall pa pb sched st bs b,
  (length bs < count_true sched)%nat ->
  outputs_of true (sys_run cf pa pb sched (Some (st, bs)) b) = run cf (p_orc pa) (p_json pa) st bs.
Proof.
  intros pa pb sched st bs b H. rewrite sys_run_A. unfold run. cbn [evs_of].
  rewrite firstn_all2; [reflexivity|].
  pose proof (steps_length (p_orc pa) (p_json pa) (length bs) st bs). lia.
Qed.

End Isolation.

(* ================================================================== corollaries *)
Definition ends_loop (e : ev) : Prop :=
  match e with EvCmd _ _ _ _ r => next_of r = None | _ => True end.

Lemma single_split : forall A (x : A) pre e post, [x] = pre ++ e :: post -> post = [].
Proof.
  intros A x pre e post H. destruct pre as [|y [|z pre]]; cbn in H; inversion H; reflexivity.
Qed.

(* an event after which the loop does not continue (fatal error, upgrade, failed read) is the last one *)
Lemma ender_is_last : forall cf orc json f st bs pre e post,
  steps cf orc json f st bs = pre ++ e :: post -> ends_loop e -> post = [].
Proof.
  intros cf orc json. induction f as [|f IH]; intros st bs pre e post; cbn [steps].
  - destruct (read_slice buffer_size bs) as [[line rest]|]; intros H _; eapply single_split; exact H.
  - destruct (read_slice buffer_size bs) as [[line rest]|]; [|intros H _; eapply single_split; exact H].
    destruct (parse_line line) as [params|]; [|intros H _; eapply single_split; exact H].
    destruct (exec cf orc json st params rest) as [|c r]; [intros H _; eapply single_split; exact H|].
    intros H E. destruct pre as [|x pre]; cbn [app] in H; inversion H as [[H1 H2]].
    + subst e. cbn [ends_loop] in E. rewrite E. reflexivity.
    + destruct (next_of r) as [[st' rest']|]; [eapply IH; eauto|].
      destruct pre; discriminate.
Qed.

Theorem fatal_closes : forall cf orc json st bs pre st0 c params rest e post,
  steps cf orc json (length bs) st bs = pre ++ EvCmd st0 c params rest (HFatal e) :: post ->
  post = [] /\ outs_of_ev (EvCmd st0 c params rest (HFatal e)) = [Err e; Close].
Proof.
  intros. split; [|reflexivity]. eapply ender_is_last; [exact H | reflexivity].
Qed.

Theorem handle_conn_no_panic : forall cf orc json bs,
  ~ In Panic (handle_conn cf orc json bs) /\ ~ In OutOfFuel (handle_conn cf orc json bs).
Proof.
  intros. unfold handle_conn. destruct (read_full 4 bs) as [[m rest]|].
  - destruct (bytes_eqb m magic_v2); [apply run_no_panic|].
    split; intros [H|[H|[]]]; discriminate.
  - split; intros [H|[]]; discriminate.
Qed.

Theorem handle_conn_limits : forall cf orc json bs, Forall (out_ok cf) (handle_conn cf orc json bs).
Proof.
  intros. unfold handle_conn. destruct (read_full 4 bs) as [[m rest]|].
  - destruct (bytes_eqb m magic_v2); [apply run_limits, init_vals_ok | repeat constructor].
  - repeat constructor.
Qed.

(* the outputs of a run, as a whole: every message handed to a topic comes from an
   accepted publish *)
Definition ev_enq_total (e : ev) : nat := enq_count (outs_of_ev e).
Lemma enq_count_app : forall a b, enq_count (a ++ b) = (enq_count a + enq_count b)%nat.
Proof. intros. unfold enq_count. rewrite filter_app, app_length. reflexivity. Qed.

Lemma enq_count_flat : forall l, enq_count (flat_map outs_of_ev l) = list_sum (map ev_enq_total l).
Proof.
  induction l as [|e l IH]; [reflexivity|]. cbn [flat_map map list_sum]. rewrite enq_count_app, IH. reflexivity.
Qed.

(* ------------------------------------------------------------------ the statements used by props/C09.v *)
Theorem exec_conn_no_panic : forall cf orc json bs,
  ~ In Panic (exec_conn cf orc json bs) /\ ~ In OutOfFuel (exec_conn cf orc json bs).
Proof. intros. apply run_no_panic. Qed.

Theorem steps_conform_len : forall cf orc json st bs,
  Forall (ev_conforms cf orc json) (steps cf orc json (length bs) st bs).
Proof. intros. apply steps_conform. apply le_n. Qed.

Theorem exec_conn_limits : forall cf orc json bs, Forall (out_ok cf) (exec_conn cf orc json bs).
Proof. intros. apply run_limits. apply init_vals_ok. Qed.

Theorem steps_enq_len : forall cf orc json st bs,
  Forall (ev_enq cf) (steps cf orc json (length bs) st bs).
Proof. intros. apply steps_enq. Qed.

Theorem ident_ok_intervals : forall cf d,
  ident_ok cf d = true ->
  (i_hb d = -1 \/ i_hb d = 0 \/ 1000 <= i_hb d <= ms (c_max_hb cf)) /\
  (i_obt d = -1 \/ i_obt d = 0 \/ ms (c_min_obt cf) <= i_obt d <= ms (c_max_obt cf)) /\
  (i_obsize d = -1 \/ i_obsize d = 0 \/ 64 <= i_obsize d <= c_max_obsize cf) /\
  0 <= i_sample d <= 99 /\
  (i_msgto d = 0 \/ 1000 <= i_msgto d <= ms (c_max_msgto cf)).
Proof.
  intros cf d H. rewrite ident_ok_ranges in H. apply andb_true_iff in H. destruct H as [H _].
  unfold ranges_ok, hb_ok, obt_ok, obsize_ok, sample_ok, msgto_ok in H.
  set (a := ms (c_max_hb cf)) in *. set (b := ms (c_min_obt cf)) in *. set (c := ms (c_max_obt cf)) in *.
  set (e := ms (c_max_msgto cf)) in *. lia.
Qed.

(* ------------------------------------------------------------------ a consumer answers what it holds, also after CLS *)
(* FIN / TOUCH / REQ naming a message the core still holds for this client (the core call
   succeeds), with a 16-byte id and a numeric delay, SUCCEED in the subscribed and in the
   closing state alike: no frame, the effect, the state unchanged.  (The other direction -
   any other state is refused - is in [steps_conform].) *)
Definition lit_fin : bytes := [70;73;78]%N.
Definition lit_touch : bytes := [84;79;85;67;72]%N.
Definition lit_req : bytes := [82;69;81]%N.

Lemma idx0_of_id : forall id : bytes, len id = nsqd_MsgIDLength -> exists a r, id = a :: r.
Proof.
  intros id H. destruct id as [|a r].
  - unfold len in H. simpl in H. unfold nsqd_MsgIDLength in H. discriminate H.
  - exists a, r. reflexivity.
Qed.

Theorem held_answers_succeed : forall cf orc json st id rest,
  c_tls_required cf = false ->
  st_kind st = SSubscribed \/ st_kind st = SClosing ->
  len id = nsqd_MsgIDLength ->
  (orc (st_hist st) (KFin id) = true ->
     exec cf orc json st [lit_fin; id] rest = XRes CFin (HOk [Fin id] (push_hist st (KFin id) true) rest))
  /\ (orc (st_hist st) (KTouch id) = true ->
     exec cf orc json st [lit_touch; id] rest
       = XRes CTouch (HOk [Touch id (st_msgto st)] (push_hist st (KTouch id) true) rest))
  /\ (forall t d, req_param (c_max_req cf) t = ReqDelay d -> orc (st_hist st) (KReq id d) = true ->
     exec cf orc json st [lit_req; id; t] rest = XRes CReq (HOk [Req id d] (push_hist st (KReq id d) true) rest)).
Proof.
  intros cf orc json st id rest Htls Hk Hlen.
  destruct (idx0_of_id id Hlen) as [a [r Hid]].
  assert (Hcons : consuming st = true) by (unfold consuming; destruct Hk as [Hk|Hk]; rewrite Hk; reflexivity).
  assert (Hgm : get_message_id id = IdOk id).
  { unfold get_message_id. rewrite Hlen. rewrite Z.eqb_refl. simpl. rewrite Hid. reflexivity. }
  split; [|split].
  - intro Ho. unfold exec. simpl. unfold tls_gate_refuses. rewrite Htls. simpl.
    unfold do_fin. rewrite Hcons. simpl. rewrite Hgm. unfold ask. rewrite Ho. reflexivity.
  - intro Ho. unfold exec. simpl. unfold tls_gate_refuses. rewrite Htls. simpl.
    unfold do_touch. rewrite Hcons. simpl. rewrite Hgm. unfold ask. rewrite Ho. reflexivity.
  - intros t d Ht Ho. unfold exec. simpl. unfold tls_gate_refuses. rewrite Htls. simpl.
    unfold do_req. rewrite Hcons. simpl. rewrite Hgm. rewrite Ht. unfold ask. rewrite Ho. reflexivity.
Qed.
