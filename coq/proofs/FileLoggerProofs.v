(* Invariants of the nsq_to_file model (FileLogger.v) and the C19 theorems.

   Inv s =  World s : the modelled file system is the replay of the emitted trace, the
                      finished list is the FINs of the trace, and at every instant of the
                      trace (all_ok) each finished message's line was in the durable part
                      of some file and the step did not shrink / replace any file;
            J s     : every pending (written, not yet finished) message's line is durable
                      already, or sits in the volatile part of the open output file, or
                      (gzip) in the open gzip member;
            E s     : an open handle names an existing file in the working directory.
   The fault schedule is part of the configuration: everything here holds for every set of
   failing system calls (a failing call emits OFail, which changes no file, and is fatal). *)
From Coq Require Import List ZArith NArith Bool Lia.
From NSQV Require Import model.Judge model.FileOS model.FileLogger proofs.FileOSProofs.
Import ListNotations.
Open Scope bool_scope.

Definition Pw (fs : fsT) (fin : list msg) : Prop := forall m, In m fin -> covered fs m.

Section Inv.
Variable c : cfg.
Variable fs0 : fsT.

Fixpoint all_ok (rt : list op) : Prop :=
  match rt with
  | [] => True
  | o :: r => Pw (replay fs0 (rev (o :: r))) (fins (rev (o :: r)))
              /\ fs_le (replay fs0 (rev r)) (replay fs0 (rev (o :: r))) /\ all_ok r
  end.

Definition World (s : st) : Prop :=
  fs s = replay fs0 (rev (rtrace s)) /\ rev (finished s) = fins (rev (rtrace s))
  /\ all_ok (rtrace s) /\ Pw (fs s) (finished s).

Definition in_flight_ok (s : st) (m : msg) : Prop :=
  covered (fs s) m \/
  exists k, out s = HOpen k /\
    ((exists f, lookup (fs s) k = Some f /\ In (line m) (f_vol f))
     \/ (gzip c = true /\ In (line m) (gzbuf s))).

Definition J (s : st) : Prop := forall m, In m (pending s) -> in_flight_ok s m.
Definition E (s : st) : Prop :=
  forall k, out s = HOpen k -> (exists f, lookup (fs s) k = Some f) /\ fst k = wdir c.
Definition Inv (s : st) : Prop := World s /\ J s /\ E s.
Definition AllCov (s : st) : Prop := forall m, In m (pending s) -> covered (fs s) m.
Definition closed (s : st) : Prop := forall k, out s <> HOpen k.

Lemma mkInv : forall s, World s -> AllCov s -> E s -> Inv s.
Proof. intros s W A He. split; auto. split; auto. intros m Hm. left. auto. Qed.

Lemma J_closed_cov : forall s, J s -> closed s -> AllCov s.
Proof.
  intros s HJ Hc m Hm. destruct (HJ m Hm) as [H | [k [Hk _]]]; auto. exfalso. eapply Hc; eauto.
Qed.

(* ---------- emit ---------- *)
Lemma covered_emit_safe : forall s o m, safe_op o = true -> covered (fs s) m -> covered (fs (emit s o)) m.
Proof.
  intros s o m Hs Hc. change (fs (emit s o)) with (apply_op (fs s) o).
  eapply covered_le; [apply safe_op_le; exact Hs | exact Hc].
Qed.

Lemma emit_world : forall s o, World s ->
  (forall m, o = OFin m -> covered (fs s) m) ->
  fs_le (fs s) (apply_op (fs s) o) -> World (emit s o).
Proof.
  intros s o [W1 [W2 [W3 W4]]] Hfin Hle. unfold World. simpl rtrace. simpl fs.
  assert (R : replay fs0 (rev (rtrace s) ++ [o]) = apply_op (fs s) o).
  { rewrite replay_app, <- W1. reflexivity. }
  assert (P : Pw (apply_op (fs s) o) (finished (emit s o))).
  { intros m Hm. simpl in Hm. destruct o; simpl in Hm;
      try (eapply covered_le; [exact Hle | apply W4; exact Hm]).
    destruct Hm as [<- | Hm].
    - simpl. apply Hfin. reflexivity.
    - simpl. apply W4. exact Hm. }
  assert (F : rev (finished (emit s o)) = fins (rev (rtrace s) ++ [o])).
  { rewrite fins_app, <- W2. destruct o; simpl; rewrite ?app_nil_r; reflexivity. }
  simpl all_ok. simpl rev. rewrite R. repeat split; auto.
  - intros m Hm. rewrite <- F in Hm. apply in_rev in Hm. apply P. exact Hm.
  - rewrite <- W1. exact Hle.
Qed.

Lemma emit_safe : forall s o, Inv s -> safe_op o = true ->
  (forall m, o = OFin m -> covered (fs s) m) -> Inv (emit s o).
Proof.
  intros s o [W [HJ He]] Hs Hfin. split; [|split].
  - apply emit_world; auto. apply safe_op_le; auto.
  - intros m Hm. simpl in Hm. destruct (HJ m Hm) as [Hc | [k [Hk [[f [Hf Hin]] | Hg]]]].
    + left. apply covered_emit_safe; auto.
    + destruct (safe_op_keeps (fs s) o k f Hs Hf) as [f' [H1 [_ H3]]].
      destruct (H3 _ Hin) as [Hv | Hd].
      * right. exists k. split; auto. left. exists f'. auto.
      * left. exists k, f'. auto.
    + right. exists k. split; auto.
  - intros k Hk. simpl in Hk. destruct (He k Hk) as [[f Hf] Hd]. split; auto.
    destruct (safe_op_keeps (fs s) o k f Hs Hf) as [f' [H1 _]]. exists f'. exact H1.
Qed.

Lemma emit_cov : forall s o, AllCov s -> fs_le (fs s) (apply_op (fs s) o) -> AllCov (emit s o).
Proof. intros s o A Hle m Hm. simpl in *. eapply covered_le; eauto. Qed.

(* an operation emitted while no handle is open *)
Lemma emit_closed : forall s o, Inv s -> closed s ->
  fs_le (fs s) (apply_op (fs s) o) -> (forall m, o <> OFin m) ->
  Inv (emit s o) /\ closed (emit s o).
Proof.
  intros s o [W [HJ He]] Hc Hle Hnf. split; [|exact Hc].
  apply mkInv.
  - apply emit_world; auto. intros m Hm. exfalso. eapply Hnf; eauto.
  - apply emit_cov; auto. apply J_closed_cov; auto.
  - intros k Hk. exfalso. eapply Hc; eauto.
Qed.

(* ---------- setters ---------- *)
Lemma Inv_set_status : forall s x, Inv s -> Inv (set_status s x).
Proof. intros s x H. exact H. Qed.
Lemma Inv_set_size : forall s z, Inv s -> Inv (set_size s z).
Proof. intros s z H. exact H. Qed.
Lemma Inv_set_rev : forall s r, Inv s -> Inv (set_rev s r).
Proof. intros s r H. exact H. Qed.
Lemma Inv_set_name : forall s a b t, Inv s -> Inv (set_name s a b t).
Proof. intros s a b t H. exact H. Qed.

Lemma fatal_inv : forall s, Inv s -> Inv (fatal s).
Proof. intros s H. unfold fatal. apply Inv_set_status. apply emit_safe; auto. intros m Hm. discriminate. Qed.

Lemma fatal_not_running : forall s, running (fatal s) = false.
Proof. reflexivity. Qed.

(* ---------- system-call counters and failing calls ---------- *)
Lemma bump_inv : forall s w, Inv s -> Inv (bump s w).
Proof. intros s w H. exact H. Qed.

Lemma fail_at_inv : forall s w k, Inv s -> Inv (fail_at s w k).
Proof.
  intros s w k H. unfold fail_at. apply fatal_inv.
  apply emit_safe; [apply bump_inv; exact H | reflexivity | intros m Hm; discriminate].
Qed.

Lemma fail_at_cov : forall s w k, AllCov s -> AllCov (fail_at s w k).
Proof. intros s w k A. exact A. Qed.

Lemma fail_at_not_running : forall s w k, running (fail_at s w k) = false.
Proof. reflexivity. Qed.

(* ---------- flush: (gzip: close the member) ; fsync ---------- *)
Definition VolOrCov (s : st) (k : key) : Prop :=
  forall m, In m (pending s) ->
    covered (fs s) m \/ exists f, lookup (fs s) k = Some f /\ In (line m) (f_vol f).

Lemma gz_close_inv : forall s k, gzip c = true -> Inv s -> out s = HOpen k ->
  Inv (gz_close s k) /\ out (gz_close s k) = HOpen k /\ pending (gz_close s k) = pending s /\
  VolOrCov (gz_close s k) k.
Proof.
  intros s k G HI Hk.
  assert (HI1 : Inv (emit s (OMember k (gzbuf s)))) by (apply emit_safe; auto; intros; discriminate).
  destruct HI as [W [HJ He]]. destruct (He k Hk) as [[f Hf] Hd].
  assert (Hl : lookup (fs (emit s (OMember k (gzbuf s)))) k = Some (mkFile (f_dur f) (f_vol f ++ gzbuf s))).
  { simpl. rewrite append_vol_lookup, Hf, key_eqb_refl. reflexivity. }
  split; [|split; [|split]].
  + unfold gz_close. destruct HI1 as [W1 [J1 E1]]. split; [exact W1|]. split; [|exact E1].
    intros m Hm. simpl in Hm. destruct (HJ m Hm) as [Hc | [k' [Hk' [[f' [Hf' Hin]] | [_ Hg]]]]].
    * left. apply covered_emit_safe; [reflexivity | exact Hc].
    * rewrite Hk in Hk'. inversion Hk'; subst k'. rewrite Hf in Hf'. inversion Hf'; subst f'.
      right. exists k. split; [exact Hk|]. left. eexists. split; [exact Hl|]. simpl. apply in_or_app. auto.
    * right. exists k. split; [exact Hk|]. left. eexists. split; [exact Hl|]. simpl. apply in_or_app. auto.
  + exact Hk.
  + reflexivity.
  + intros m Hm. simpl in Hm. destruct (HJ m Hm) as [Hc | [k' [Hk' [[f' [Hf' Hin]] | [_ Hg]]]]].
    * left. apply covered_emit_safe; [reflexivity | exact Hc].
    * rewrite Hk in Hk'. inversion Hk'; subst k'. rewrite Hf in Hf'. inversion Hf'; subst f'.
      right. eexists. split; [exact Hl|]. simpl. apply in_or_app. auto.
    * right. eexists. split; [exact Hl|]. simpl. apply in_or_app. auto.
Qed.

Lemma plain_vol : forall s k, gzip c = false -> Inv s -> out s = HOpen k -> VolOrCov s k.
Proof.
  intros s k G [W [HJ He]] Hk m Hm.
  destruct (HJ m Hm) as [Hc | [k' [Hk' [[f' [Hf' Hin]] | [Hg _]]]]]; auto.
  + rewrite Hk in Hk'. inversion Hk'; subst k'. right. exists f'. auto.
  + congruence.
Qed.

Lemma fsync_cov : forall s k, Inv s -> out s = HOpen k -> VolOrCov s k ->
  Inv (emit s (OFsync k)) /\ AllCov (emit s (OFsync k)).
Proof.
  intros s k HI Hk Hv.
  assert (HI2 : Inv (emit s (OFsync k))) by (apply emit_safe; auto; intros; discriminate).
  split; [exact HI2|].
  intros m Hm. simpl in Hm. destruct (Hv m Hm) as [Hc | [f [Hf Hin]]].
  - apply covered_emit_safe; [reflexivity | exact Hc].
  - exists k. eexists. simpl. rewrite Hf, lookup_update_same. split; [reflexivity|].
    simpl. apply in_or_app. auto.
Qed.

(* whatever fails, the invariant holds; when nothing failed every pending line is durable *)
Lemma flush_inv : forall s k, Inv s -> out s = HOpen k ->
  Inv (flush c s k) /\
  (running (flush c s k) = true ->
   AllCov (flush c s k) /\ out (flush c s k) = HOpen k /\ pending (flush c s k) = pending s).
Proof.
  intros s k HI Hk. unfold flush.
  set (s1 := if gzip c then (if faulty c s FGzClose then fail_at s FGzClose k else gz_close (bump s FGzClose) k) else s).
  assert (H1 : Inv s1 /\ (running s1 = true -> out s1 = HOpen k /\ pending s1 = pending s /\ VolOrCov s1 k)).
  { unfold s1. destruct (gzip c) eqn:G.
    - destruct (faulty c s FGzClose).
      + split. apply fail_at_inv; auto. intro R. discriminate.
      + destruct (gz_close_inv (bump s FGzClose) k G (bump_inv _ _ HI) Hk) as [A [B [C D]]].
        split; auto.
    - split; auto. intros _. split; auto. split; auto. apply plain_vol; auto. }
  destruct H1 as [HI1 H1]. cbv zeta.
  destruct (running s1) eqn:R1; cbn [negb].
  2:{ split; auto. intro R. congruence. }
  destruct (H1 eq_refl) as [Hk1 [Hp1 Hv]].
  destruct (faulty c s1 FFsync).
  - split. apply fail_at_inv; auto. intro R. discriminate.
  - destruct (fsync_cov (bump s1 FFsync) k (bump_inv _ _ HI1) Hk1 Hv) as [A B].
    split; auto.
Qed.

(* ---------- FIN of the whole batch ---------- *)
Lemma fin_fold : forall l s, Inv s -> AllCov s -> (forall m, In m l -> covered (fs s) m) ->
  let s' := fold_left (fun a m => emit a (OFin m)) l s in
  Inv s' /\ AllCov s' /\ fs s' = fs s /\ out s' = out s /\ pending s' = pending s /\ status_ s' = status_ s.
Proof.
  induction l as [|x l IH]; intros s HI HA Hl; simpl.
  - split; [exact HI|]. split; [exact HA|]. repeat split.
  - assert (HI1 : Inv (emit s (OFin x))).
    { apply emit_safe; auto. intros m Hm. inversion Hm; subst. apply Hl. left. reflexivity. }
    assert (HA1 : AllCov (emit s (OFin x))) by (apply emit_cov; auto; apply fs_le_refl).
    destruct (IH (emit s (OFin x)) HI1 HA1) as [A [B [C [D [F G]]]]].
    { intros m Hm. simpl. apply Hl. right. exact Hm. }
    split; [exact A|]. split; [exact B|]. rewrite C, D, F, G. repeat split.
Qed.

Lemma fin_all_inv : forall s, Inv s -> AllCov s ->
  Inv (fin_all s) /\ AllCov (fin_all s) /\ out (fin_all s) = out s /\ status_ (fin_all s) = status_ s.
Proof.
  intros s HI HA. unfold fin_all.
  destruct (fin_fold (rev (pending s)) s HI HA) as [[W [HJ He]] [B [C [D [F G]]]]].
  { intros m Hm. apply HA. apply in_rev. exact Hm. }
  split; [|split; [|split]]; auto.
  - split; [exact W|]. split; [|exact He]. intros m Hm. simpl in Hm. contradiction.
  - intros m Hm. simpl in Hm. contradiction.
Qed.

Lemma sync_file_inv : forall s, Inv s ->
  Inv (sync_file c s) /\ (running (sync_file c s) = true -> AllCov (sync_file c s)).
Proof.
  intros s HI. unfold sync_file. destruct (out s) as [|k|k] eqn:Ho.
  - split. apply fatal_inv; auto. intro H. discriminate.
  - destruct (flush_inv s k HI Ho) as [A B]. split; auto. intro R. apply B. exact R.
  - split. apply fatal_inv; auto. intro H. discriminate.
Qed.

Lemma do_sync_inv : forall s, Inv s -> Inv (do_sync c s).
Proof.
  intros s HI. unfold do_sync. destruct (pending s) eqn:Hp; auto.
  destruct (sync_file_inv s HI) as [A B].
  destruct (running (sync_file c s)) eqn:R; auto.
  apply fin_all_inv; auto.
Qed.

Lemma do_sync_closed : forall s, closed s -> closed (do_sync c s).
Proof.
  intros s Hc. unfold do_sync. destruct (pending s); auto.
  unfold sync_file. destruct (out s) as [|k|k] eqn:Ho.
  - simpl. intros k' H. simpl in H. rewrite Ho in H. discriminate.
  - exfalso. eapply Hc; eauto.
  - simpl. intros k' H. simpl in H. rewrite Ho in H. discriminate.
Qed.

(* ---------- Close ---------- *)
Lemma exists_false : forall fs k, exists_ fs k = false -> lookup fs k = None.
Proof. intros fs k H. unfold exists_ in H. destruct (lookup fs k); auto. discriminate. Qed.

Lemma rename_excl_inv : forall s src dst f, Inv s -> closed s ->
  fst src = DWork -> fst dst = DOut -> lookup (fs s) src = Some f -> lookup (fs s) dst = None ->
  let s' := emit (emit s (OLink src dst true)) (OUnlink src) in
  Inv s' /\ closed s'.
Proof.
  intros s src dst f HI Hc Hw Ho Hs Hd.
  assert (Hne : src <> dst) by (intro H; subst; rewrite Hw in Ho; discriminate).
  destruct (emit_closed s (OLink src dst true) HI Hc) as [HI1 Hc1].
  { apply safe_op_le. reflexivity. }
  { intros m H. discriminate. }
  apply emit_closed; auto.
  - simpl fs. apply unlink_le with (dst := dst) (f := f); auto.
    + simpl. rewrite Hs, Hd. rewrite lookup_update_other; auto.
    + simpl. rewrite Hs, Hd. apply lookup_update_same.
  - intros m H. discriminate.
Qed.

Lemma fail_at_closed : forall s w k, Inv s -> closed s -> Inv (fail_at s w k) /\ closed (fail_at s w k).
Proof. intros s w k HI Hc. split. apply fail_at_inv; exact HI. exact Hc. Qed.

Lemma link_eexist_inv : forall s src dst, Inv s -> closed s ->
  Inv (link_eexist c s src dst) /\ closed (link_eexist c s src dst) /\
  fs (link_eexist c s src dst) = fs s.
Proof.
  intros s src dst HI Hc. unfold link_eexist. destruct (faulty c s FLink).
  - destruct (fail_at_closed s FLink src HI Hc) as [A B]. split; auto.
  - destruct (emit_closed (bump s FLink) (OLink src dst false) (bump_inv _ _ HI) Hc) as [A B].
    { apply safe_op_le. reflexivity. }
    { intros m H. discriminate. }
    split; auto.
Qed.

Lemma move_inv : forall s src dst f, Inv s -> closed s ->
  fst src = DWork -> fst dst = DOut -> lookup (fs s) src = Some f -> lookup (fs s) dst = None ->
  Inv (move c s src dst) /\ closed (move c s src dst).
Proof.
  intros s src dst f HI Hc Hw Ho Hs Hd. unfold move.
  assert (Hne : src <> dst) by (intro H; subst; rewrite Hw in Ho; discriminate).
  destruct (faulty c s FLink); [apply fail_at_closed; auto|].
  destruct (emit_closed (bump s FLink) (OLink src dst true) (bump_inv _ _ HI) Hc) as [HI1 Hc1].
  { apply safe_op_le. reflexivity. }
  { intros m H. discriminate. }
  cbv zeta. set (s1 := emit (bump s FLink) (OLink src dst true)) in *.
  destruct (faulty c s1 FUnlink); [apply fail_at_closed; auto|].
  apply emit_closed; [apply bump_inv; exact HI1 | exact Hc1 | | intros m H; discriminate].
  change (fs (bump s1 FUnlink)) with (apply_op (fs s) (OLink src dst true)).
  apply unlink_le with (dst := dst) (f := f); auto.
  + simpl. rewrite Hs, Hd. rewrite lookup_update_other; auto.
  + simpl. rewrite Hs, Hd. apply lookup_update_same.
Qed.

Lemma close_bump_inv : forall fuel s src i f, Inv s -> closed s ->
  fst src = DWork -> lookup (fs s) src = Some f ->
  Inv (close_bump fuel c s src i) /\ closed (close_bump fuel c s src i).
Proof.
  induction fuel as [|n IH]; intros s src i f HI Hc Hw Hs; simpl.
  - split; auto.
  - destruct (exists_ (fs s) (DOut, with_rev (filename s) i)) eqn:Ex.
    + destruct (link_eexist_inv s src (DOut, with_rev (filename s) i) HI Hc) as [HI1 [Hc1 Hfs]].
      destruct (running (link_eexist c s src (DOut, with_rev (filename s) i))); [|split; auto].
      eapply IH; eauto. rewrite Hfs. exact Hs.
    + destruct (move_inv s src (DOut, with_rev (filename s) i) f HI Hc Hw eq_refl Hs (exists_false _ _ Ex)) as [A B].
      split.
      * destruct A as [W [HJ He]].
        apply mkInv; [exact W | exact (J_closed_cov _ HJ B) | intros k Hk; simpl in Hk; discriminate].
      * intros k Hk. simpl in Hk. discriminate.
Qed.

(* after Close either the process is dead (some call failed) or no handle is open *)
Lemma close_file_inv : forall s, Inv s ->
  Inv (close_file c s) /\ (running (close_file c s) = true -> closed (close_file c s)).
Proof.
  intros s HI. unfold close_file. destruct (out s) as [|k|k] eqn:Ho.
  - split; auto. intros _ k H. congruence.
  - destruct (flush_inv s k HI Ho) as [A B]. cbv zeta.
    set (s1 := flush c s k) in *.
    destruct (running s1) eqn:R1; cbn [negb].
    2:{ split; auto. intro R. congruence. }
    destruct (B eq_refl) as [B1 [Hk Hp]].
    destruct (faulty c s1 FClose).
    { split. apply fail_at_inv; auto. intro R. discriminate. }
    assert (HE : (exists f, lookup (fs s1) k = Some f) /\ fst k = wdir c).
    { destruct A as [_ [_ He]]. apply He. exact Hk. }
    set (sb := bump s1 FClose).
    assert (A2 : Inv (emit sb (OClose k))) by (apply emit_safe; [exact A | reflexivity | intros; discriminate]).
    assert (B2 : AllCov (emit sb (OClose k))) by (apply emit_cov; [exact B1 | apply fs_le_refl]).
    set (s2 := set_out (emit sb (OClose k)) (HStale k)).
    assert (HI2 : Inv s2).
    { destruct A2 as [W _]. apply mkInv; auto. intros k' H. simpl in H. discriminate. }
    assert (Hc2 : closed s2) by (intros k' H; simpl in H; discriminate).
    destruct (use_work c) eqn:UW.
    + destruct HE as [[f Hf] Hd]. unfold wdir in Hd. rewrite UW in Hd.
      assert (Hf2 : lookup (fs s2) k = Some f) by exact Hf.
      destruct (exists_ (fs s2) (DOut, snd k)) eqn:Ex.
      * destruct (link_eexist_inv s2 k (DOut, snd k) HI2 Hc2) as [HI3 [Hc3 Hfs]].
        destruct (running (link_eexist c s2 k (DOut, snd k))); [|split; auto].
        destruct (close_bump_inv (S (length (fs s2))) (link_eexist c s2 k (DOut, snd k)) k (N.succ (rev_ s2)) f HI3 Hc3 Hd) as [X Y].
        { rewrite Hfs. exact Hf2. }
        split; auto.
      * destruct (move_inv s2 k (DOut, snd k) f HI2 Hc2 Hd eq_refl Hf2 (exists_false _ _ Ex)) as [X Y].
        split; auto.
    + split.
      * destruct HI2 as [W _]. apply mkInv; auto. intros k' H. simpl in H. discriminate.
      * intros _ k' H. simpl in H. discriminate.
  - split. apply fatal_inv; auto. intros _ k' H. simpl in H. congruence.
Qed.

(* ---------- updateFile ---------- *)
Lemma open_loop_inv : forall fuel s, Inv s -> AllCov s ->
  Inv (open_loop fuel c s) /\ AllCov (open_loop fuel c s).
Proof.
  induction fuel as [|n IH]; intros s HI HA; cbn [open_loop].
  - split; auto.
  - destruct (use_work c && exists_ (fs s) (DOut, with_rev (filename s) (rev_ s))).
    + apply IH; auto.
    + set (k := (wdir c, with_rev (filename s) (rev_ s))).
      destruct (faulty c s FOpen).
      { split. apply fail_at_inv; auto. apply fail_at_cov; auto. }
      set (sb := bump s FOpen).
      assert (HIb : Inv sb) by exact HI.
      assert (HAb : AllCov sb) by exact HA.
      destruct (excl_mode c && exists_ (fs s) k).
      * apply IH.
        { apply Inv_set_rev. apply emit_safe; auto. intros; discriminate. }
        { apply emit_cov; auto. apply safe_op_le. reflexivity. }
      * set (o := OCreate k (excl_mode c) (negb (excl_mode c)) false true).
        assert (HI1 : Inv (emit sb o)) by (apply emit_safe; auto; intros; discriminate).
        assert (HA1 : AllCov (emit sb o)) by (apply emit_cov; auto; apply safe_op_le; reflexivity).
        assert (Hex : exists f, lookup (fs (emit sb o)) k = Some f).
        { simpl. destruct (lookup (fs s) k) eqn:L. exists f. exact L.
          eexists. apply lookup_update_same. }
        set (sz := match lookup (fs (emit sb o)) k with Some fl => fsize fl | None => 0%Z end).
        set (s2 := set_size (set_gzbuf (set_out (emit sb o) (HOpen k)) []) sz).
        assert (HI2 : Inv s2).
        { destruct HI1 as [W _]. apply mkInv; auto.
          intros k' H. simpl in H. inversion H; subst k'. split; auto. }
        assert (HA2 : AllCov s2) by exact HA1.
        destruct ((0 <? rotate_size c)%Z && (rotate_size c <? sz)%Z).
        { apply IH; auto. }
        { split; auto. }
Qed.

Lemma update_file_inv : forall s t, Inv s -> Inv (update_file c s t).
Proof.
  intros s t HI. unfold update_file. destruct (close_file_inv s HI) as [A B].
  destruct (running (close_file c s)); auto.
  apply open_loop_inv.
  - apply Inv_set_name. exact A.
  - destruct A as [_ [HJ _]]. apply J_closed_cov; auto.
Qed.

(* ---------- Write ---------- *)
Lemma write_msg_inv : forall s m, Inv s -> Inv (write_msg c s m).
Proof.
  intros s m HI. unfold write_msg. destruct (out s) as [|k|k] eqn:Ho; try (apply fatal_inv; auto).
  destruct (faulty c s FWrite).
  { apply fail_at_inv. destruct (gzip c); auto. apply emit_safe; auto. intros; discriminate. }
  cbv zeta. apply Inv_set_size. destruct (gzip c) eqn:G.
  - destruct HI as [W [HJ He]]. split; [exact W|]. split; [|exact He].
    intros x Hx. simpl in Hx. destruct (HJ x Hx) as [Hc | [k' [Hk' [Hv | [Hg Hin]]]]].
    + left. exact Hc.
    + right. exists k'. split; auto.
    + right. exists k'. split; auto. right. split; auto. simpl. apply in_or_app. auto.
  - apply emit_safe; [exact HI | reflexivity | intros; discriminate].
Qed.

Lemma write_msg_new : forall s m, Inv s -> running s = true -> running (write_msg c s m) = true ->
  in_flight_ok (write_msg c s m) m.
Proof.
  intros s m HI R R2. unfold write_msg in *. destruct (out s) as [|k|k] eqn:Ho; try discriminate.
  destruct (faulty c s FWrite); [discriminate|]. cbv zeta in *.
  right. exists k. split.
  - destruct (gzip c); simpl; exact Ho.
  - destruct (gzip c) eqn:G.
    + right. split; auto. simpl. apply in_or_app. right. left. reflexivity.
    + left. destruct HI as [_ [_ He]]. destruct (He k Ho) as [[f Hf] _].
      eexists. simpl. rewrite append_vol_lookup, Hf, key_eqb_refl. split; [reflexivity|].
      simpl. apply in_or_app. right. left. reflexivity.
Qed.

(* ---------- router ---------- *)
Lemma tail_inv : forall s a b e, Inv s -> Inv (tail_ c s a b e).
Proof.
  intros s a b e HI. unfold tail_.
  set (s1 := if a then do_sync c s else s).
  assert (H1 : Inv s1) by (unfold s1; destruct a; auto; apply do_sync_inv; auto).
  destruct (running s1); auto.
  set (s2 := if b then close_file c s1 else s1).
  assert (H2 : Inv s2) by (unfold s2; destruct b; auto; apply close_file_inv; auto).
  destruct (running s2); auto. destruct e; auto.
Qed.

Lemma external_inv : forall s k b, Inv s -> Inv (external s k b).
Proof.
  intros s k b HI. unfold external. destruct (exists_ (fs s) k).
  { apply emit_safe; auto. intros; discriminate. }
  repeat (apply emit_safe; [ | reflexivity | intros; discriminate]). exact HI.
Qed.

Lemma step_inv : forall s e, Inv s -> Inv (step c s e).
Proof.
  intros s e HI. unfold step.
  destruct e as [m t starved | t | | | | k b]; try (apply external_inv; exact HI);
    (destruct (running s) eqn:R; simpl; auto).
  - set (s1 := if needs_rotation c s t then update_file c s t else s).
    assert (H1 : Inv s1) by (unfold s1; destruct (needs_rotation c s t); auto; apply update_file_inv; auto).
    destruct (running s1) eqn:R1; simpl; auto.
    assert (H2 : Inv (write_msg c s1 m)) by (apply write_msg_inv; auto).
    destruct (running (write_msg c s1 m)) eqn:R2; simpl; auto.
    destruct (Nat.leb (max_in_flight c) (length (pending (write_msg c s1 m)))); auto.
    apply tail_inv.
    destruct H2 as [W [HJ He]]. split; [exact W|]. split; [|exact He].
    intros x Hx. simpl in Hx. apply in_app_or in Hx. destruct Hx as [Hx | [<- | []]].
    + destruct (HJ x Hx) as [Hc | Hr]; [left; exact Hc | right; exact Hr].
    + pose proof (write_msg_new s1 m H1 R1 R2) as Hn.
      destruct Hn as [Hc | Hr]; [left; exact Hc | right; exact Hr].
  - destruct (needs_rotation c s t).
    + destruct (skip_empty c). apply tail_inv; auto.
      pose proof (update_file_inv s t HI) as H1.
      destruct (running (update_file c s t)); auto. apply tail_inv; auto.
    + apply tail_inv; auto.
  - apply tail_inv; auto.
  - apply tail_inv; auto.
  - apply tail_inv; auto.
Qed.

Lemma init_inv : Inv (init fs0).
Proof.
  split; [|split].
  - repeat split; simpl; auto. intros m H. contradiction.
  - intros m H. simpl in H. contradiction.
  - intros k H. simpl in H. discriminate.
Qed.

Lemma fold_inv : forall es s, Inv s -> Inv (fold_left (step c) es s).
Proof. induction es as [|e es IH]; intros s H; simpl; auto. apply IH. apply step_inv. exact H. Qed.

Lemma run_inv : forall es, Inv (run c fs0 es).
Proof. intro es. apply fold_inv. apply init_inv. Qed.

(* ---------- from all_ok to "every instant" ---------- *)
Lemma all_ok_prefix : forall rt a b, all_ok rt -> rev rt = a ++ b -> exists rt', rev rt' = a /\ all_ok rt'.
Proof.
  induction rt as [|o r IH]; intros a b H Heq.
  - simpl in Heq. symmetry in Heq. apply app_eq_nil in Heq. destruct Heq; subst. exists []. auto.
  - destruct b as [|x b'] using rev_ind.
    + rewrite app_nil_r in Heq. exists (o :: r). auto.
    + clear IHb'. simpl in Heq. rewrite app_assoc in Heq. apply app_inj_tail in Heq.
      destruct Heq as [Heq _]. destruct H as [_ [_ H]]. eapply IH; eauto.
Qed.

Lemma all_ok_le : forall rt a b, all_ok rt -> rev rt = a ++ b ->
  fs_le (replay fs0 a) (replay fs0 (rev rt)).
Proof.
  induction rt as [|o r IH]; intros a b H Heq.
  - simpl in Heq. symmetry in Heq. apply app_eq_nil in Heq. destruct Heq; subst. apply fs_le_refl.
  - destruct b as [|x b'] using rev_ind.
    + rewrite app_nil_r in Heq. rewrite Heq. apply fs_le_refl.
    + clear IHb'. pose proof Heq as Heq'. simpl in Heq. rewrite app_assoc in Heq. apply app_inj_tail in Heq.
      destruct Heq as [Heq _]. destruct H as [_ [Hle H]].
      eapply fs_le_trans; [eapply IH; eauto | exact Hle].
Qed.

End Inv.

(* ---------- the C19 theorems ---------- *)

(* At every instant of every run (any configuration, any pre-existing files, any event
   history), after a crash that keeps an arbitrary part of the unsynced data, every
   message finished so far has body ++ "\n" inside the durable content of a file. *)
Theorem fin_after_sync : forall c fs0 es p q keep m,
  trace (run c fs0 es) = p ++ q -> In m (fins p) ->
  exists k f pre post,
    lookup (crash keep (replay fs0 p)) k = Some f /\
    flat (f_dur f) = pre ++ (snd m ++ [10%N]) ++ post.
Proof.
  intros c fs0 es p q keep m Htr Hin.
  destruct (run_inv c fs0 es) as [[_ [_ [Hok _]]] _].
  destruct (all_ok_prefix fs0 _ p q Hok Htr) as [rt' [Hr Hok']].
  assert (Hc : covered (replay fs0 p) m).
  { destruct rt' as [|o r].
    - simpl in Hr. subst p. simpl in Hin. contradiction.
    - destruct Hok' as [HP _]. rewrite Hr in HP. apply HP. exact Hin. }
  apply covered_crash with (keep := keep) in Hc. destruct Hc as [k [f [Hk Hl]]].
  destruct (in_flat _ _ Hl) as [pre [post Hf]]. exists k, f, pre, post. split; auto.
Qed.

(* Between any two instants of any run no file shrinks or is replaced: an existing name
   keeps existing with its durable part and its whole content extended, except that a
   work-dir name may give way to an output-dir name holding (an extension of) its content. *)
Theorem no_overwrite : forall c fs0 es p q r,
  trace (run c fs0 es) = p ++ q ++ r ->
  fs_le (replay fs0 p) (replay fs0 (p ++ q)).
Proof.
  intros c fs0 es p q r Htr.
  destruct (run_inv c fs0 es) as [[_ [_ [Hok _]]] _].
  rewrite app_assoc in Htr.
  destruct (all_ok_prefix fs0 _ (p ++ q) r Hok Htr) as [rt' [Hr Hok']].
  rewrite <- Hr. eapply all_ok_le; eauto.
Qed.

(* pre-existing output-dir files (colliding names included) are preserved *)
Theorem preexisting_preserved : forall c fs0 es k f,
  lookup fs0 k = Some f -> fst k = DOut ->
  exists f', lookup (fs (run c fs0 es)) k = Some f' /\ ext f f'.
Proof.
  intros c fs0 es k f Hk Hd.
  destruct (run_inv c fs0 es) as [[Hfs [_ [Hok _]]] _].
  pose proof (all_ok_le fs0 _ [] (rev (rtrace (run c fs0 es))) Hok eq_refl) as Hle.
  rewrite <- Hfs in Hle. simpl in Hle.
  destruct (Hle k f Hk) as [H | [Hw _]]; auto. rewrite Hd in Hw. discriminate.
Qed.

(* the modelled file system is exactly the replay of the emitted trace *)
Theorem fs_is_replay : forall c fs0 es,
  fs (run c fs0 es) = replay fs0 (trace (run c fs0 es)) /\
  rev (finished (run c fs0 es)) = fins (trace (run c fs0 es)).
Proof.
  intros c fs0 es. destruct (run_inv c fs0 es) as [[A [B _]] _]. split; auto.
Qed.
