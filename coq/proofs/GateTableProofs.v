(* Obligations over the tables regenerated from the repository under test
   (coq/gen/GateTable.v, written by tools/gotables/gate.go) for property C11.
   The tables are finite: vm_compute decides each statement; the universally quantified
   forms are derived through forallb_forall. *)
From Coq Require Import List String Bool NArith ZArith.
From NSQV Require Import model.Judge model.GateSyn model.Gate gen.GateTable.
Import ListNotations.
Open Scope string_scope.

(* ------------------------------------------------------------------ Exec *)
Definition row_ok (r : exec_row) : bool := String.eqb (row_cmd r) "IDENTIFY" || row_after_gate r.

Lemma exec_table_gate_b : forallb row_ok exec_table = true.
Proof. vm_compute. reflexivity. Qed.

(* every command other than IDENTIFY is dispatched after enforceTLSPolicy's error was returned *)
Theorem exec_table_gate : forall r, In r exec_table -> row_cmd r <> "IDENTIFY" -> row_after_gate r = true.
Proof.
  intros r Hin Hne. pose proof (proj1 (forallb_forall row_ok exec_table) exec_table_gate_b r Hin) as H.
  unfold row_ok in H. apply orb_true_iff in H. destruct H as [H|H]; auto.
  apply String.eqb_eq in H. contradiction.
Qed.

(* the command words of the model: the constructors of Gate.cmd other than COther *)
Definition model_words : list string :=
  ["IDENTIFY"; "AUTH"; "SUB"; "PUB"; "MPUB"; "DPUB"; "RDY"; "FIN"; "REQ"; "TOUCH"; "CLS"; "NOP"].

Definition incl_b (a b : list string) : bool := forallb (fun x => existsb (String.eqb x) b) a.

(* the source dispatches exactly the model's command words, each to the handler of the same
   name, IDENTIFY being the one row in front of the gate *)
Theorem exec_table_words :
  incl_b (map row_cmd exec_table) model_words = true /\
  incl_b model_words (map row_cmd exec_table) = true /\
  forallb (fun r => String.eqb (row_cmd r) (row_handler r)) exec_table = true /\
  existsb (fun r => String.eqb (row_cmd r) "IDENTIFY" && negb (row_after_gate r)) exec_table = true.
Proof. vm_compute. repeat split; reflexivity. Qed.

(* enforceTLSPolicy is  if TLSRequired != TLSNotRequired && client.TLS != 1 { fatal E_INVALID } *)
Theorem enforce_shape :
  enforce_guard = GuardReqNeAndNotTLS "TLSNotRequired" /\ enforce_returns = [mkErr "E_INVALID" true].
Proof. vm_compute. split; reflexivity. Qed.

(* ... which is Gate.gate_blocks *)
Definition tls_req_of_name (s : string) : option tls_req :=
  if String.eqb s "TLSNotRequired" then Some TlsNotRequired
  else if String.eqb s "TLSRequiredExceptHTTP" then Some TlsRequiredExceptHTTP
  else if String.eqb s "TLSRequired" then Some TlsRequired else None.

Definition eval_guard (g : guard_shape) (cfg : config) (k : conn) : option bool :=
  match g with
  | GuardReqNeAndNotTLS c =>
      match tls_req_of_name c with
      | Some r => Some (negb (tls_req_eqb (c_tls_required cfg) r) && negb (k_tls k))
      | None => None
      end
  | _ => None
  end.

Theorem enforce_is_gate_blocks : forall cfg k, eval_guard enforce_guard cfg k = Some (gate_blocks cfg k).
Proof. intros. reflexivity. Qed.

(* the TLS flag has one writer, UpgradeTLS, whose only caller is IDENTIFY *)
Theorem tls_flag_single_writer : tls_flag_writers = ["UpgradeTLS"] /\ upgrade_tls_callers = ["IDENTIFY"].
Proof. vm_compute. split; reflexivity. Qed.

(* ------------------------------------------------------------------ handler order *)
Fixpoint index_of (e : gevent) (l : list gevent) : option nat :=
  match l with
  | [] => None
  | x :: r => if gevent_eqb x e then Some O else option_map S (index_of e r)
  end.

(* [a] occurs, and every occurrence of [b] comes after it *)
Definition precedes (a b : gevent) (l : list gevent) : bool :=
  match index_of a l, index_of b l with
  | Some i, Some j => Nat.ltb i j
  | Some _, None => true
  | None, _ => false
  end.

Definition auth_first (l : list gevent) : bool :=
  precedes GvCheckAuth GvGetTopic l && precedes GvCheckAuth GvGetChannel l &&
  precedes GvCheckAuth GvPut l && precedes GvCheckAuth GvAddClient l &&
  negb (existsb (gevent_eqb GvCheckAuthLoose) l).

Definition summaries : list (string * list gevent) :=
  [("SUB", summary_SUB); ("PUB", summary_PUB); ("MPUB", summary_MPUB); ("DPUB", summary_DPUB)].

Lemma summaries_auth_first_b : forallb (fun p => auth_first (snd p)) summaries = true.
Proof. vm_compute. reflexivity. Qed.

(* in all four handlers the guarded CheckAuth comes before GetTopic, GetChannel, PutMessage(s)
   and AddClient *)
Theorem summaries_auth_first : forall h l, In (h, l) summaries -> auth_first l = true.
Proof.
  intros h l Hin.
  exact (proj1 (forallb_forall _ summaries) summaries_auth_first_b (h, l) Hin).
Qed.

(* the order of checks and effects the model implements is the order of the source:
   PUB and DPUB read the body before CheckAuth, MPUB authorises and creates the topic before
   it reads the body *)
Theorem summaries_match_model :
  summary_SUB = model_order_SUB /\ summary_PUB = model_order_PUB /\
  summary_MPUB = model_order_MPUB /\ summary_DPUB = model_order_DPUB.
Proof. vm_compute. repeat split; reflexivity. Qed.

(* every refusal of CheckAuth is a fatal error carrying one of the three codes *)
Definition denial_name (s : string) : bool :=
  String.eqb s "E_AUTH_FIRST" || String.eqb s "E_AUTH_FAILED" || String.eqb s "E_UNAUTHORIZED".

Lemma checkauth_fatal_b : forallb (fun r => er_fatal r && denial_name (er_code r)) checkauth_returns = true.
Proof. vm_compute. reflexivity. Qed.

Theorem checkauth_fatal : forall r, In r checkauth_returns -> er_fatal r = true /\ denial_name (er_code r) = true.
Proof.
  intros r Hin. pose proof (proj1 (forallb_forall _ checkauth_returns) checkauth_fatal_b r Hin) as H.
  apply andb_true_iff in H. exact H.
Qed.

Theorem checkauth_codes : incl_b ["E_AUTH_FIRST"; "E_AUTH_FAILED"; "E_UNAUTHORIZED"] (map er_code checkauth_returns) = true.
Proof. vm_compute. reflexivity. Qed.

(* ------------------------------------------------------------------ HTTP wiring *)
Definition eval_wexp (cfg : config) (w : wexp) : option bool :=
  match w with
  | WTrue => Some true
  | WFalse => Some false
  | WReqEq c => option_map (fun r => tls_req_eqb (c_tls_required cfg) r) (tls_req_of_name c)
  | WReqNe c => option_map (fun r => negb (tls_req_eqb (c_tls_required cfg) r)) (tls_req_of_name c)
  | WOther _ => None
  end.

Definition wiring_of (listener : string) : option http_wiring :=
  find (fun w => String.eqb (hw_listener w) listener) http_wirings.

Definition eval_wiring (cfg : config) (listener : string) : option (bool * bool) :=
  match wiring_of listener with
  | Some w => match eval_wexp cfg (hw_tls_enabled w), eval_wexp cfg (hw_tls_required w) with
              | Some e, Some r => Some (e, r)
              | _, _ => None
              end
  | None => None
  end.

(* the servers NSQD.Main builds are the model's, for every configuration *)
Theorem wiring_plain : forall cfg, eval_wiring cfg "httpListener" = Some (plain_wiring cfg).
Proof. intros. reflexivity. Qed.
Theorem wiring_https : forall cfg, eval_wiring cfg "httpsListener" = Some (https_wiring cfg).
Proof. intros. reflexivity. Qed.
Theorem wiring_complete : List.length http_wirings = 2%nat /\ http_ctor_stores_params = true.
Proof. vm_compute. split; reflexivity. Qed.
(* ServeHTTP refuses with 403 exactly under  !tlsEnabled && tlsRequired  (Gate.http_refuses) *)
Theorem servehttp_shape : servehttp_guard = GuardNotEnabledAndRequired 403.
Proof. vm_compute. reflexivity. Qed.

(* ------------------------------------------------------------------ the HTTP half of C11_tls_gate *)
Theorem http_plain_403_iff : forall cfg, http_plain_refused cfg = true <-> c_tls_required cfg = TlsRequired.
Proof. intros cfg. unfold http_plain_refused, plain_wiring, http_refuses. destruct (c_tls_required cfg); simpl; split; congruence. Qed.

Theorem https_never_refused : forall cfg, https_refused cfg = false.
Proof. reflexivity. Qed.

(* nsqd.New: a started daemon that requires TLS has a TLS configuration, and a client
   certificate policy implies that TLS is required *)
Theorem startup_sound : forall raw cfg, startup raw = Some cfg ->
  (c_tls_required cfg <> TlsNotRequired -> c_tls_config cfg = true) /\
  (c_policy cfg <> PolNone -> c_tls_required cfg <> TlsNotRequired) /\
  c_authd cfg = c_authd raw /\ c_policy cfg = c_policy raw /\ c_tls_config cfg = c_tls_config raw /\
  (c_policy raw = PolNone -> c_tls_required cfg = c_tls_required raw).
Proof.
  intros raw cfg. unfold startup.
  destruct raw as [req tc pol n]. simpl.
  destruct pol, req, tc; simpl; intros H; inversion H; subst; simpl; repeat split; congruence.
Qed.

(* ------------------------------------------------------------------ what CheckAuth is asked *)
(* SUB asks for (params[1], params[2]); the three publishes for (params[1], ""):
   this is Gate.demand *)
Theorem checkauth_args_are_demand :
  checkauth_args =
    [("SUB", "string(params[1])", "string(params[2])"); ("PUB", "string(params[1])", """""");
     ("MPUB", "string(params[1])", """"""); ("DPUB", "string(params[1])", """""")].
Proof. vm_compute. reflexivity. Qed.

(* ------------------------------------------------------------------ internal/auth shapes *)
Fixpoint bytes_of_string (s : string) : list N :=
  match s with
  | EmptyString => []
  | String a r => Ascii.N_of_ascii a :: bytes_of_string r
  end.

(* IsExpired is Expires.Before(now) (Gate.is_expired: expires < now); IsAllowed asks for
   "subscribe" when the channel is not empty and "publish" otherwise; QueryAuthd accepts exactly
   these two permissions and refuses a TTL <= 0; the literals are the model's *)
Theorem auth_shapes :
  isexpired_expr = "a.Expires.Before(time.Now())" /\
  isallowed_branch = ("channel != """"", "subscribe", "publish") /\
  queryauthd_known_perms = ["subscribe"; "publish"] /\
  queryauthd_ttl_refused = "authState.TTL <= 0" /\
  bytes_of_string "subscribe" = s_subscribe /\ bytes_of_string "publish" = s_publish.
Proof. vm_compute. repeat split; reflexivity. Qed.
