(* C03 auxiliary facts about consumers (CLS, paused topics). *)
From Coq Require Import List NArith ZArith Bool Lia.
From RecordUpdate Require Import RecordUpdate.
From NSQV Require Import model.Core proofs.CoreBase.
Import ListNotations.
Open Scope N_scope.

Lemma find_map_if_client k (f : client -> client) (Hf : forall x, k_id (f x) = k_id x) l :
  find (fun x => k_id x =? k) (map (fun x => if k_id x =? k then f x else x) l)
  = option_map f (find (fun x => k_id x =? k) l).
Proof.
  induction l as [|a l IH]; cbn; [reflexivity|].
  destruct (k_id a =? k) eqn:E.
  - rewrite Hf, E. reflexivity.
  - rewrite E. exact IH.
Qed.

Theorem cls_zeroes_rdy cfg s k kl :
  find_client s k = Some kl -> k_state kl = st_subscribed ->
  snd (step cfg s (OCls k)) = ROk /\
  forall kl', find_client (fst (step cfg s (OCls k))) k = Some kl' -> k_rdy kl' = 0%Z /\ k_state kl' = st_closing.
Proof.
  intros H1 H2. cbn [step]. rewrite H1, H2. cbn [fst snd]. split; [reflexivity|].
  intros kl' H. unfold find_client, upd_client in H. cbn in H.
  rewrite find_map_if_client in H by (intros; reflexivity).
  unfold find_client in H1. rewrite H1 in H. cbn in H. inversion H; subst. cbn. split; reflexivity.
Qed.

Theorem paused_topic_pumps_nothing cfg now tp : t_paused tp = true -> pump cfg now tp = tp.
Proof. intros H. unfold pump. rewrite H. reflexivity. Qed.
