(* The write-lock discipline of the Go source (generated table gen/WriteLock.v) and the
   serialisation theorem of proofs/ConnWriterProofs.v under it.  The three sites of the
   model: Send (its SendFramedResponse and its Flush), messagePump's flush when the client is
   not ready, messagePump's flush on the output-buffer-timeout ticker.  Every other use of
   the writer in package nsqd is either inside a function that holds the lock itself (the
   IDENTIFY-time set-up: SetOutputBuffer, UpgradeTLS / Deflate / Snappy) or inside
   clientV2.Flush, whose only callers are the three sites. *)
From Coq Require Import List Bool String.
From NSQV Require Import model.Judge model.ConnWriter proofs.ConnWriterProofs gen.WriteLock.
Import ListNotations.
Open Scope string_scope.

Definition wl_entry : Type := (string * string * string * bool)%type.
Definition wl_fn (e : wl_entry) : string := let '(f, _, _, _) := e in f.
Definition wl_what (e : wl_entry) : string := let '(_, w, _, _) := e in w.
Definition wl_where (e : wl_entry) : string := let '(_, _, w, _) := e in w.
Definition wl_locked (e : wl_entry) : bool := let '(_, _, _, b) := e in b.

Definition wl_timed_ctx : string := "case <-flusherChan".

(* at least one use, every use under the lock *)
Definition all_locked (l : list wl_entry) : bool :=
  match l with [] => false | _ => forallb wl_locked l end.

Definition src_locks (site : nat) : bool :=
  match site with
  | 0%nat => all_locked (filter (fun e => wl_fn e =? "Send") wl_sites)
  | 1%nat => all_locked (filter (fun e => (wl_fn e =? "messagePump") && negb (wl_where e =? wl_timed_ctx)) wl_sites)
  | 2%nat => all_locked (filter (fun e => (wl_fn e =? "messagePump") && (wl_where e =? wl_timed_ctx)) wl_sites)
  | _ => true
  end.

(* the uses outside the three sites *)
Definition src_others_ok : bool :=
  forallb (fun e => wl_locked e || (wl_fn e =? "Flush")) wl_sites.

Lemma src_locks_all : forall site, src_locks site = true.
Proof. intros [|[|[|site]]]; reflexivity. Qed.

Lemma ConnWriter_source_discipline :
  wl_sites =
  [("SetOutputBuffer", "c.Writer", "if desiredSize != 0", true);
   ("SetOutputBuffer", "c.Writer", "if desiredSize != 0", true);
   ("UpgradeTLS", "c.Writer", "", true);
   ("UpgradeDeflate", "c.flateWriter", "", true);
   ("UpgradeDeflate", "c.Writer", "", true);
   ("UpgradeSnappy", "c.Writer", "", true);
   ("Flush", "c.Writer", "", false);
   ("Flush", "c.flateWriter", "", false);
   ("Flush", "c.flateWriter", "if c.flateWriter != nil", false);
   ("Send", "client.Writer", "", true);
   ("Send", "client.Flush", "if frameType != frameTypeMessage", true);
   ("messagePump", "client.Flush", "if subChannel == nil || !client.IsReadyForMessages()", true);
   ("messagePump", "client.Flush", "case <-flusherChan", true)] /\
  src_locks site_send = true /\ src_locks site_flush_notready = true /\ src_locks site_flush_timed = true /\
  src_others_ok = true.
Proof. repeat split; reflexivity. Qed.

Theorem ConnWriter_serialised_source : forall (progs : nat -> list wjob) (sched : list (nat * nat)),
  let s := wrun src_locks (winit progs) sched in
  (w_wire s ++ skipn (sent_of s) (w_buf s))%list = List.concat (map snd (w_log s)) /\
  (forall t, exists k, logged t (w_log s) = firstn k (frames_of (progs t))) /\
  (forall t, t_jobs (w_threads s t) = [] -> logged t (w_log s) = frames_of (progs t)) /\
  (forall t, t_failed (w_threads s t) = false) /\
  (w_lock s = None -> w_buf s = [] -> w_wire s = List.concat (map snd (w_log s))).
Proof. intros progs sched. exact (ConnWriter_serialised src_locks progs sched src_locks_all). Qed.
