(* Correspondence judge for C15 (nsqlookupd survives arbitrary input).  One case = one
   session against a real nsqlookupd subprocess: a well-behaved bystander producer stays
   connected while hostile TCP connections (arbitrary byte streams, each followed by EOF)
   and HTTP requests (every route x method x argument combination) are thrown at the
   daemon; after every action the driver records liveness, the raw answer and the views.
     agree   : model/LookupProto.v predicts the frames / status and every view
     monitor : the property itself on the implementation's observation - the daemon is
               alive; an error frame is the last frame of its connection; the frame a
               deliberately malformed command was built to provoke is the one received;
               the bystander's registrations are what they were; a hostile connection that
               has come and gone leaves every producer entry of the registry and the /lookup
               producers unchanged; a well-behaved command of one connection changes nothing
               of the others; an HTTP request that is not answered 200, or is not a POST on
               one of the five admin routes, changes nothing at all; the admin requests change
               nothing but what they name: create adds at most the named keys and leaves every
               producer entry, tombstone flag and /lookup producer alone (also when the name is
               already registered by somebody); delete removes entries of the named topic /
               channel only and never adds or alters one; tombstone turns flags on, only for
               the named topic, only for connections whose broadcast_address:http_port is the
               named node, and removes nothing; invalid names are refused: whatever was sent,
               every name the views list (/topics, /channels, the channels of /lookup, the
               keys of /debug) passes the name rule (1..64 bytes in total, suffix included),
               and an admin request answered 200 named a valid topic (and channel)
   No proofs here. *)
From Coq Require Import List NArith ZArith Bool String.
From NSQV Require Import model.Judge model.Names model.Lookupd model.LookupProto model.LookupNames judge.J14.
Import ListNotations.
Open Scope bool_scope.

Inductive action :=
| AConn (p : peer) (decode : list (bytes * jres)) (input : bytes)
| AHttp (m path : string) (q : query)
| AOp (o : op).                       (* a well-behaved command (bystander set-up, pings) *)

Inductive oframe := OOk | OJson | OErr (c : code) | OBadProtocol | OOther.
Inductive result := RConn (frames : list oframe) | RHttp (status : N) | ROp (o : out).

Record view := mkView {
  v_lookup : option (list name * list peer);    (* /lookup?topic=<the bystander's topic> *)
  v_topics : list name;                         (* /topics *)
  v_chans : list name;                          (* /channels with the wildcard topic: every channel key *)
  v_debug : list (reg * peer * bool);           (* /debug *)
  v_nodes : list (peer * name)                  (* /debug: broadcast_address:http_port of every connection that has entries *)
}.

Record act := mkAct {
  a_action : action;
  a_result : result;
  a_alive : bool;                   (* the daemon answered /ping afterwards *)
  a_expect : option oframe;         (* the last frame this stream was built to provoke, when it was *)
  a_expect_status : option N;       (* the status a request with a missing / invalid argument must get (400) *)
  a_view : view
}.

Record case := mk {
  c_by : peer;                      (* the bystander's connection *)
  c_topic : name;                   (* the topic whose /lookup is watched *)
  c_acts : list act
}.

Definition inactive_default : Z := 300000000000%Z.
Definition lifetime_default : Z := 45000000000%Z.

Definition oframe_eqb (a b : oframe) : bool :=
  match a, b with
  | OOk, OOk | OJson, OJson | OBadProtocol, OBadProtocol | OOther, OOther => true
  | OErr x, OErr y => code_eqb x y
  | _, _ => false
  end.
Definition of_frame (f : frame) : oframe :=
  match f with FOk => OOk | FIdentified => OJson | FErr c => OErr c | FBadProtocol => OBadProtocol end.

Definition decode_of (tbl : list (bytes * jres)) (b : bytes) : jres :=
  match find (fun e => bytes_eqb (fst e) b) tbl with Some e => snd e | None => BadJSON end.

Definition view_agrees (s : state) (topic : name) (v : view) : bool :=
  lookup_eqb (v_lookup v) (q_lookup inactive_default lifetime_default s topic)
  && mseq bytes_eqb (v_topics v) (q_topics s)
  && mseq bytes_eqb (v_chans v) (q_channels s star)
  && mseq debug_eqb (v_debug v) (q_debug s)
  && forallb (fun e => node_matches s (snd e) (fst e)) (v_nodes v).

Definition status_agrees (h : hstatus) (n : N) : bool :=
  match h with
  | SCode m => N.eqb m n
  | SRouter => N.eqb n 404 || N.eqb n 301 || N.eqb n 307 || N.eqb n 308
  | SAny => negb (N.eqb n 0)
  end.

Fixpoint agree_acts (s : state) (topic : name) (l : list act) : bool :=
  match l with
  | [] => true
  | a :: r =>
      match a_action a, a_result a with
      | AConn p tbl input, RConn frames =>
          match exec_conn (decode_of tbl) s p input with
          | Panic => negb (a_alive a)            (* the model predicts the death of the process *)
          | Done s' fs =>
              a_alive a && list_eqb oframe_eqb (map of_frame fs) frames
              && view_agrees s' topic (a_view a) && agree_acts s' topic r
          end
      | AHttp m path q, RHttp n =>
          let '(s', h) := http_exec s m path q in
          a_alive a && status_agrees h n && view_agrees s' topic (a_view a) && agree_acts s' topic r
      | AOp o, ROp out =>
          let '(s', out') := step s o in
          a_alive a && out_eqb out' out && view_agrees s' topic (a_view a) && agree_acts s' topic r
      | _, _ => false
      end
  end.

(* ---- the property on the observation alone *)
Definition is_err (f : oframe) : bool :=
  match f with OErr _ | OBadProtocol | OOther => true | _ => false end.
Fixpoint frames_ok (l : list oframe) : bool :=
  match l with
  | [] => true
  | [f] => negb (oframe_eqb f OOther)
  | f :: r => negb (is_err f) && frames_ok r           (* every error is fatal: nothing follows it *)
  end.
Definition last_is (e : option oframe) (l : list oframe) : bool :=
  match e with
  | None => true
  | Some f => match rev l with x :: _ => oframe_eqb x f | [] => false end
  end.

Definition mine (p : peer) (v : view) : list (reg * peer * bool) :=
  filter (fun e => N.eqb (snd (fst e)) p) (v_debug v).
Definition my_channels (p : peer) (v : view) : list name :=
  flat_map (fun e => match r_cat (fst (fst e)) with CChannel => [r_sub (fst (fst e))] | _ => [] end) (mine p v).
Definition listed (p : peer) (v : view) : bool :=
  match v_lookup v with Some (_, ps) => existsb (N.eqb p) ps | None => false end.

Definition node_eqb : peer * name -> peer * name -> bool := pair_eqb N.eqb bytes_eqb.
Definition view_same (a b : view) : bool :=
  lookup_eqb (v_lookup a) (v_lookup b) && mseq bytes_eqb (v_topics a) (v_topics b)
  && mseq bytes_eqb (v_chans a) (v_chans b) && mseq debug_eqb (v_debug a) (v_debug b)
  && mseq node_eqb (v_nodes a) (v_nodes b).

Definition empty_view : view := mkView None [] [] [] [].

(* everything in the registry that is NOT connection p's, and the producers /lookup lists *)
Definition others (p : peer) (v : view) : list (reg * peer * bool) :=
  filter (fun e => negb (N.eqb (snd (fst e)) p)) (v_debug v).
Definition producers (v : view) : list peer :=
  match v_lookup v with Some (_, ps) => ps | None => [] end.
Definition producers_but (p : peer) (v : view) : list peer :=
  filter (fun q => negb (N.eqb q p)) (producers v).

(* the connection a well-behaved command travels on; whether the command ends it *)
Definition op_peer (o : op) : option peer :=
  match o with
  | Identify p _ | Register p _ _ | Unregister p _ _ | Ping p | Disconnect p => Some p
  | _ => None
  end.
Definition op_closes (o : op) (r : out) : bool :=
  match o, r with
  | Disconnect _, _ => true
  | _, OResp (RErr _) => true          (* every error of this protocol is fatal *)
  | _, _ => false
  end.

(* ---- HTTP: what a request may change, on the views before and after it.  Only a POST on
   one of the five admin routes that is answered 200 may change anything, and then only
   what it names. *)
Inductive admin := KCreateT | KDeleteT | KCreateC | KDeleteC | KTomb.
Definition admin_of (m path : string) : option admin :=
  if negb (String.eqb m "POST") then None
  else if String.eqb path "/topic/create" then Some KCreateT
  else if String.eqb path "/topic/delete" then Some KDeleteT
  else if String.eqb path "/channel/create" then Some KCreateC
  else if String.eqb path "/channel/delete" then Some KDeleteC
  else if String.eqb path "/topic/tombstone" then Some KTomb
  else None.

(* multisets of names: [new] is [old] plus at most the names of [extra] *)
Definition grows_by (old new extra : list name) : bool :=
  forallb (fun x => Nat.leb (count bytes_eqb x old) (count bytes_eqb x new)
                    && Nat.leb (count bytes_eqb x new) (count bytes_eqb x old + count bytes_eqb x extra))
          (old ++ new).
Definition within (new old : list name) : bool :=
  forallb (fun x => Nat.leb (count bytes_eqb x new) (count bytes_eqb x old)) new.

Definition found (v : view) : bool := match v_lookup v with Some _ => true | None => false end.
Definition lookup_chans (v : view) : list name := match v_lookup v with Some (chs, _) => chs | None => [] end.
(* the entries of /debug outside the keys selected by [hit] *)
Definition but (hit : reg -> bool) (v : view) : list (reg * peer * bool) :=
  filter (fun e => negb (hit (fst (fst e)))) (v_debug v).
Definition node_is (v : view) (p : peer) (node : name) : bool :=
  existsb (fun e => N.eqb (fst e) p && bytes_eqb (snd e) node) (v_nodes v).

(* every producer entry (tombstone flags included), every /lookup producer and every
   connection's node string is what it was *)
Definition keeps_entries (v prev : view) : bool :=
  mseq debug_eqb (v_debug v) (v_debug prev) && mseq N.eqb (producers v) (producers prev)
  && mseq node_eqb (v_nodes v) (v_nodes prev).

Definition mon_admin (watched : name) (a : admin) (q : query) (v prev : view) : bool :=
  match a, q with
  | KCreateT, QArgs (Some t) _ _ =>
      keeps_entries v prev
      && grows_by (v_topics prev) (v_topics v) [t]
      && mseq bytes_eqb (v_chans v) (v_chans prev)
      && (negb (found prev) || found v) && (negb (found v) || found prev || bytes_eqb t watched)
      && mseq bytes_eqb (lookup_chans v) (lookup_chans prev)
  | KCreateC, QArgs (Some t) (Some c) _ =>
      keeps_entries v prev
      && grows_by (v_topics prev) (v_topics v) [t]
      && grows_by (v_chans prev) (v_chans v) [c]
      && (negb (found prev) || found v) && (negb (found v) || found prev || bytes_eqb t watched)
      && grows_by (lookup_chans prev) (lookup_chans v) (if bytes_eqb t watched then [c] else [])
  | KDeleteT, QArgs (Some t) _ _ =>
      let hit k := bytes_eqb (r_key k) t && negb (cat_eqb (r_cat k) CClient) in
      mseq debug_eqb (but hit v) (but hit prev)
      && subset debug_eqb (v_debug v) (v_debug prev)                (* nothing new, no flag altered *)
      && grows_by (v_topics v) (v_topics prev) [t]
      && within (v_chans v) (v_chans prev)
      && mseq node_eqb (v_nodes v) (v_nodes prev)                   (* the client entries stay *)
      && (if bytes_eqb t watched then subset N.eqb (producers v) (producers prev)
          else lookup_eqb (v_lookup v) (v_lookup prev))
  | KDeleteC, QArgs (Some t) (Some c) _ =>
      let hit k := reg_eqb k (chan_key t c) in
      mseq debug_eqb (but hit v) (but hit prev)
      && subset debug_eqb (v_debug v) (v_debug prev)
      && mseq bytes_eqb (v_topics v) (v_topics prev)
      && grows_by (v_chans v) (v_chans prev) [c]
      && mseq node_eqb (v_nodes v) (v_nodes prev)
      && mseq N.eqb (producers v) (producers prev) && Bool.eqb (found v) (found prev)
      && grows_by (lookup_chans v) (lookup_chans prev) (if bytes_eqb t watched then [c] else [])
  | KTomb, QArgs (Some t) _ (Some node) =>
      let hit k := reg_eqb k (topic_key t) in
      mseq (pair_eqb reg_eqb N.eqb) (map fst (v_debug v)) (map fst (v_debug prev))    (* nothing removed, nothing added *)
      && mseq debug_eqb (but hit v) (but hit prev)
      && forallb (fun e => existsb (debug_eqb e) (v_debug prev)                       (* as it was, or *)
                           || (snd e && node_is prev (snd (fst e)) node))             (* marked, and it is the named node *)
                 (v_debug v)
      && mseq bytes_eqb (v_topics v) (v_topics prev) && mseq bytes_eqb (v_chans v) (v_chans prev)
      && mseq node_eqb (v_nodes v) (v_nodes prev)
      && Bool.eqb (found v) (found prev) && mseq bytes_eqb (lookup_chans v) (lookup_chans prev)
      && (if bytes_eqb t watched then subset N.eqb (producers v) (producers prev)
          else mseq N.eqb (producers v) (producers prev))
  | _, _ => view_same v prev         (* an argument the handler needs is missing or the query does not parse *)
  end.

(* invalid names are refused: the registry as the daemon itself shows it holds valid names only *)
Definition view_names_ok (v : view) : bool :=
  forallb is_valid_name (v_topics v) && forallb is_valid_name (v_chans v)
  && forallb is_valid_name (lookup_chans v)
  && forallb (fun e => key_ok (fst (fst e))) (v_debug v).

(* ... and an admin request that was answered 200 named a valid topic (and channel) *)
Definition admin_args_valid (a : admin) (q : query) : bool :=
  match a, q with
  | (KCreateT | KDeleteT | KTomb), QArgs (Some t) _ _ => is_valid_name t
  | (KCreateC | KDeleteC), QArgs (Some t) (Some c) _ => is_valid_name t && is_valid_name c
  | _, _ => false
  end.

Definition mon_http (watched : name) (m path : string) (q : query) (n : N) (v prev : view) : bool :=
  (N.eqb n 200 || view_same v prev)
  && (negb (N.eqb n 200) || match admin_of m path with Some a => admin_args_valid a q | None => true end)
  && match admin_of m path with
     | None => view_same v prev
     | Some a => mon_admin watched a q v prev
     end.

Fixpoint mon_acts (watched : name) (by_ : peer) (prev : view) (l : list act) : bool :=
  match l with
  | [] => true
  | a :: r =>
      let v := a_view a in
      a_alive a && view_names_ok v &&
      (match a_action a, a_result a with
       | AConn p _ _, RConn frames =>
           frames_ok frames && last_is (a_expect a) frames
           (* isolation: a connection that has come and gone leaves EVERY producer entry of the
              registry (whoever it belongs to, tombstone flags included) and the producers
              /lookup lists as they were - whatever identity its bytes claimed *)
           && mseq debug_eqb (v_debug v) (v_debug prev)
           && mseq N.eqb (producers v) (producers prev)
           && mseq debug_eqb (mine by_ v) (mine by_ prev)
           && Bool.eqb (listed by_ v) (listed by_ prev)
           && forallb (fun c => existsb (bytes_eqb c) (v_chans v)) (my_channels by_ prev)  (* its channels are still listed *)
           && (negb (listed by_ prev)
               || match v_lookup v with
                  | Some (chs, _) => forallb (fun c => existsb (bytes_eqb c) chs) (my_channels by_ prev)
                  | None => false
                  end)
           && match mine p v with [] => true | _ => false end         (* the closed connection left nothing *)
       | AHttp m path q, RHttp n =>
           negb (N.eqb n 0)
           && match a_expect_status a with Some e => N.eqb n e | None => true end
           && mon_http watched m path q n v prev
       | AOp o, ROp out =>
           (* a well-behaved command on connection q (the bystander's or the visitor's, which
              stays open): nothing that is not q's changes; a connection that ended left nothing *)
           match op_peer o with
           | Some q =>
               mseq debug_eqb (others q v) (others q prev)
               && mseq N.eqb (producers_but q v) (producers_but q prev)
               && (negb (op_closes o out) || match mine q v with [] => true | _ => false end)
           | None => true
           end
       | _, _ => false
       end)
      && mon_acts watched by_ v r
  end.

(* ---- the wire form (names as indices into one table, see J14) *)
Inductive ijres := IBadJSON | IJson (baddr : N) (tcp http : Z) (version : N).
Inductive iaction :=
| IAConn (p : peer) (decode : list (bytes * ijres)) (input : bytes)
| IAHttp (m path : string) (q : iquery)
| IAOp (o : iop).
Record iview := imkView {
  iv_lookup : option (list N * list peer);
  iv_topics : list N;
  iv_chans : list N;
  iv_debug : list (cat * N * N * peer * bool);
  iv_nodes : list (peer * N)
}.
Record iact := imkAct {
  ia_action : iaction; ia_result : result; ia_alive : bool; ia_expect : option oframe;
  ia_expect_status : option N; ia_view : iview
}.
Record icase := imk { ic_names : list name; ic_by : peer; ic_topic : N; ic_acts : list iact }.

Definition ract (tbl : list name) (a : iact) : act :=
  mkAct
    (match ia_action a with
     | IAConn p d input =>
         AConn p (map (fun e => (fst e, match snd e with
                                        | IBadJSON => BadJSON
                                        | IJson b tcp http v => Json (mkInfo (nm tbl b) tcp http (nm tbl v))
                                        end)) d) input
     | IAHttp m path q => AHttp m path (rq tbl q)
     | IAOp o => AOp (rop tbl o)
     end)
    (ia_result a) (ia_alive a) (ia_expect a) (ia_expect_status a)
    (let v := ia_view a in
     mkView (option_map (fun cp => (nms tbl (fst cp), snd cp)) (iv_lookup v))
            (nms tbl (iv_topics v)) (nms tbl (iv_chans v))
            (map (fun e => match e with (c, k, sb, p, b) => (mkReg c (nm tbl k) (nm tbl sb), p, b) end) (iv_debug v))
            (map (fun e => (fst e, nm tbl (snd e))) (iv_nodes v))).

Definition resolve (c : icase) : case :=
  mk (ic_by c) (nm (ic_names c) (ic_topic c)) (map (ract (ic_names c)) (ic_acts c)).

Definition judge (c : case) : N :=
  verdict (agree_acts init (c_topic c) (c_acts c)) (mon_acts (c_topic c) (c_by c) empty_view (c_acts c)).

Definition judge_i (c : icase) : N := judge (resolve c).
