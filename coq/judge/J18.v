(* Correspondence judge for C18: the real nsqadmin's views against the stub upstreams' data,
   the real clusterinfo / stringy functions called directly, and process liveness under a
   hostile stream.  No proofs here. *)
From Coq Require Import String List ZArith NArith Bool QArith_base.
From NSQV Require Import model.Judge model.Cluster model.Quantile.
Import ListNotations.
Open Scope list_scope.
Open Scope Z_scope.

(* a rational of a case term *)
Definition qq (n : Z) (d : positive) : Q := Qmake n d.

(* an e2e aggregate as nsqadmin served it (or as the real Add left it): JSON null / nil, or the
   count and the non-null entries ("quantile", "max", "count", "average"; float64 exactly) *)
Record obs_pe := mkOP { op_q : Q; op_max : Q; op_count : Q; op_avg : Q }.
Inductive obs_e2e := OENone | OE (count : Z) (pcts : list obs_pe).

Record obs_chan := mkOC { oc_name : bytes; oc_num : list Z; oc_paused : bool; oc_e2e : obs_e2e }.
Record obs_node := mkON { on_bcast : bytes; on_http : bytes; on_tcp : bytes; on_host : bytes;
                          on_topics : list (bytes * bool); on_remotes : list bytes }.

Inductive case :=
| CTopics (lookupd_mode : bool) (ups : lup (list bytes)) (st : N) (warn : bool) (got : list bytes)
| CNodes (src : stage1) (st : N) (warn : bool) (got : list obs_node)
| CTopic (src : stage1) (stats : lup (list (option topic))) (t : bytes)
         (st : N) (warn : bool) (num : list Z) (paused : bool) (nodes : list bytes) (chans : list obs_chan) (te2e : obs_e2e)
| CChannel (src : stage1) (stats : lup (list (option topic))) (t c : bytes)
           (st : N) (warn : bool) (num : list Z) (paused : bool) (nodes : list bytes) (clients : list (bytes * bytes)) (ce2e : obs_e2e)
| CCounter (src : stage1) (stats : lup (list (option topic)))
           (st : N) (warn : bool) (rows : list (bytes * bytes * bytes * Z))
| CNode (src : stage1) (stats : lup (list (option topic))) (node : bytes)
        (st : N) (warn : bool) (msgs clients : Z) (topics : list bytes)
  (* the real functions called directly through the verifshim *)
| CUniq (l got : list bytes)
| CUnion (s a got : list bytes)
| CTomb (topics : list bytes) (tombs : list bool) (decoded : bool) (got : list (bytes * bool))
| CChanAdd (chans : list chan) (num : list Z) (paused : bool) (nclients : Z)
| CTopicAdd (nodes : list (list chan * list Z * bool)) (num : list Z) (paused : bool) (chans : list obs_chan)
  (* the real ChannelStats.Add on blocks decoded by the real UnmarshalJSON: a fresh receiver, or
     (raw) the first node's ChannelStats as the receiver -- what the topic view does to its channels
     ([handnil] > 0: with that many nil maps put in front of the receiver's entries by hand,
     which no upstream answer can do) *)
| CE2eAdd (raw : bool) (handnil : nat) (nodes : list (option e2e)) (panicked nan : bool) (got : obs_e2e)
  (* the nsqadmin subprocess after a hostile upstream answer *)
| CAlive (alive : bool) (answered : bool).

(* ---- order-insensitive comparison *)
Fixpoint count_by {A : Type} (eqb : A -> A -> bool) (x : A) (l : list A) : nat :=
  match l with [] => 0%nat | y :: r => ((if eqb x y then 1 else 0) + count_by eqb x r)%nat end.
Definition ms_eqb {A : Type} (eqb : A -> A -> bool) (a b : list A) : bool :=
  Nat.eqb (length a) (length b) && forallb (fun x => Nat.eqb (count_by eqb x a) (count_by eqb x b)) a.
Definition zs_eqb : list Z -> list Z -> bool := list_eqb Z.eqb.
Definition pair_eqb {A B : Type} (ea : A -> A -> bool) (eb : B -> B -> bool) (x y : A * B) : bool :=
  ea (fst x) (fst y) && eb (snd x) (snd y).

Fixpoint assoc_fetch {A : Type} (k : bytes) (l : lup A) : fetch A :=
  match l with
  | [] => FFail
  | (k', v) :: r => if bytes_eqb k k' then v else assoc_fetch k r
  end.

Definition status_of {V : Type} (r : res (view V)) : N :=
  match r with
  | Ok (VStatus c) => c
  | Ok (VOk _ _) => 200
  | Recovered => 500
  | Crash => 0
  end.
Definition warn_of_view {V : Type} (r : res (view V)) : bool :=
  match r with Ok (VOk _ w) => w | _ => false end.

(* (the aggregate of a channel is compared separately) *)
Definition chan_obs_eqb (a b : obs_chan) : bool :=
  bytes_eqb (oc_name a) (oc_name b) && zs_eqb (oc_num a) (oc_num b) && Bool.eqb (oc_paused a) (oc_paused b).

Definition row_eqb (a b : bytes * bytes * bytes * Z) : bool :=
  let '(t, c, n, v) := a in let '(t', c', n', v') := b in
  bytes_eqb t t' && bytes_eqb c c' && bytes_eqb n n' && (v =? v').

(* ---- the property, from the upstream data directly (the right-hand sides of the theorems) *)
Definition all_failed {K A : Type} (ups : list (K * fetch A)) : bool := forallb failed ups.
Definition some_failed {K A : Type} (ups : list (K * fetch A)) : bool := existsb failed ups.

Fixpoint nodup_b (l : list bytes) : bool :=
  match l with [] => true | x :: r => negb (smem x r) && nodup_b r end.
Definition same_set (a b : list bytes) : bool := forallb (fun x => smem x b) a && forallb (fun x => smem x a) b.

Definition stats_ups (src : stage1) (stats : lup (list (option topic))) : option (list (pinfo * fetch (list (option topic))) * nat) :=
  match stage1_producers src with
  | AHard => None
  | AOk ps n => Some (map (fun p => (p, assoc_fetch (p_addr p) stats)) ps, n)
  end.

(* 502 iff a stage got no answer; otherwise the view IS served (200) -- unless [excuse] holds of
   the answering upstreams' data (the documented recovered 500s: a JSON null channel in the topic
   asked for, a channel no node has) --, with a warning iff an upstream of either stage failed *)
Definition spec_status (src : stage1) (stats : lup (list (option topic))) (st : N) (warn : bool)
           (excuse : list (pinfo * fetch (list (option topic))) -> bool) : bool :=
  match stats_ups src stats with
  | None => (st =? 502)%N
  | Some (ups, n1) =>
      if all_failed ups then (st =? 502)%N
      else if (st =? 200)%N then Bool.eqb warn (negb (Nat.eqb n1 0) || some_failed ups)
      else (st =? 500)%N && excuse ups
  end.

(* ---- the e2e latency aggregate, from the nodes' blocks directly.
   [raw]: the receiver is the first node's own block (the channels of the topic view), so a
   single node's block is served as it came; otherwise a fresh aggregate.  Null entries of a
   block count for nothing: the aggregate is that of the other entries. *)
Definition contribs (nodes : list (option e2e)) : list (Q * Q * Q) :=
  flat_map (fun e : e2e => map (fun p : pct => (pc_q p, pc_val p, inject_Z (e_count e))) (nonnil (e_pcts e))) (nonnil nodes).
Definition c_q (c : Q * Q * Q) : Q := fst (fst c).
Definition c_val (c : Q * Q * Q) : Q := snd (fst c).
Definition c_cnt (c : Q * Q * Q) : Q := snd c.
Definition qabs (a : Q) : Q := if Qle_bool 0 a then a else Qopp a.
Definition two40 : Q := qq 1099511627776 1.
Definition two30 : Q := qq 1073741824 1.
(* |a - b| <= (1 + maxv) * amp / 2^bits *)
Definition close_to (a b maxv amp scale : Q) : bool :=
  Qle_bool (Qmult (qabs (Qminus a b)) scale) (Qmult (Qplus 1 maxv) amp).
Fixpoint nodup_q (l : list Q) : bool :=
  match l with [] => true | x :: r => negb (existsb (Qeq_bool x) r) && nodup_q r end.

Definition e2e_none_expected (raw : bool) (nodes : list (option e2e)) : bool :=
  if raw then Nat.leb (length nodes) 1 && Nat.eqb (length (nonnil nodes)) 0 else Nat.eqb (length nodes) 0.

Definition e2e_spec (raw : bool) (nodes : list (option e2e)) (got : obs_e2e) : bool :=
  let cs := contribs nodes in
  let maxv := maxQ 0 (map (fun c => qabs (c_val c)) cs) in
  match got with
  | OENone => e2e_none_expected raw nodes
  | OE cnt ps =>
      negb (e2e_none_expected raw nodes) &&
      (cnt =? w64 (sumZ (map e_count (nonnil nodes)))) &&
      nodup_q (map op_q ps) &&
      forallb (fun c => existsb (fun o => Qeq_bool (op_q o) (c_q c)) ps) cs &&
      forallb (fun o =>
        let m := filter (fun c => Qeq_bool (c_q c) (op_q o)) cs in
        let total := sumQ (map c_cnt m) in
        negb (Nat.eqb (length m) 0) &&
        Qeq_bool (op_count o) total &&
        (if forallb (fun c => Qle_bool 0 (c_val c)) m then Qeq_bool (op_max o) (maxQ 0 (map c_val m)) else true) &&
        (if forallb (fun c => Qle_bool 0 (c_cnt c)) m then
           if Qle_bool total 0
           then Qeq_bool (op_avg o) 0 || (raw && existsb (fun c => Qeq_bool (op_avg o) (c_val c)) m)
           else (* the weighted mean: | avg * total - sum count * value | <= total * (1 + maxv) / 2^40 *)
                close_to (Qmult (op_avg o) total) (sumQ (map (fun c => Qmult (c_cnt c) (c_val c)) m)) maxv total two40
         else true)) ps
  end.

(* ---- the e2e aggregate against the model's (the model merges in list order, the code in the
   order its fetches finish: with counts that are not negative only the average of an entry
   nothing was counted for can differ, and only for a raw receiver) *)
Definition close_e2e (raw : bool) (nodes : list (option e2e)) (model : option eagg) (got : obs_e2e) : bool :=
  let cs := contribs nodes in
  let maxv := maxQ 0 (map (fun c => qabs (c_val c)) cs) in
  let nonneg := forallb (fun c => Qle_bool 0 (c_cnt c)) cs in
  let amp := if nonneg then 1%Q else Qplus 1 (sumQ (map (fun c => qabs (c_cnt c)) cs)) in
  let scale := if nonneg then two40 else two30 in
  match model, got with
  | None, OENone => true
  | Some e, OE cnt ps =>
      let mp := nonnil (ea_pcts e) in
      (cnt =? ea_count e) && Nat.eqb (length ps) (length mp) &&
      forallb (fun o =>
        match find (fun x => Qeq_bool (pe_q x) (op_q o)) mp with
        | Some x =>
            Qeq_bool (op_count o) (pe_count x) && Qeq_bool (op_max o) (pe_max x) &&
            (close_to (op_avg o) (pe_avg x) maxv amp scale ||
             (raw && Qeq_bool (pe_count x) 0 &&
              (Qeq_bool (op_avg o) 0 || existsb (fun c => Qeq_bool (c_q c) (op_q o) && Qeq_bool (op_avg o) (c_val c)) cs)))
        | None => false
        end) ps
  | _, _ => false
  end.

Definition sums_c (es : list chan) : list Z := map (fun f => w64 (sumZ (map (fun a => f (chan_num a)) es))) cfields.
Definition sums_t (ns : list tnode) : list Z := map (fun f => w64 (sumZ (map (fun a => f (tn_num a)) ns))) tfields.

(* the blocks of the topic asked for, one per (answering node, non-null topic entry of that name) *)
Definition topic_blocks (ups : list (pinfo * fetch (list (option topic)))) (sel : bytes) : list (option e2e) :=
  flat_map (fun u : pinfo * list (option topic) =>
              flat_map (fun tp => if sel_skips sel (tp_name tp) then [] else [tp_e2e tp]) (nonnil (snd u))) (answers ups).

Definition monitor_topic (src : stage1) stats (t : bytes) (st : N) (warn : bool) (num : list Z) (paused : bool)
           (nodes : list bytes) (chans : list obs_chan) (te2e : obs_e2e) : bool :=
  spec_status src stats st warn (fun ups => existsb is_nil (chans_seq (all_topic_nodes ups t))) &&
  match stats_ups src stats with
  | Some (ups, _) =>
      if (st =? 200)%N then
        let ns := all_topic_nodes ups t in
        let cs := flat_map (fun a => nonnil (tn_chans a)) ns in
        zs_eqb num (sums_t ns) && Bool.eqb paused (existsb tn_paused ns) &&
        ms_eqb bytes_eqb nodes (map tn_node ns) &&
        same_set (map oc_name chans) (map ch_name cs) && nodup_b (map oc_name chans) &&
        forallb (fun o => let mine := filter (fun a => bytes_eqb (ch_name a) (oc_name o)) cs in
                          zs_eqb (oc_num o) (sums_c mine) && Bool.eqb (oc_paused o) (existsb ch_paused mine) &&
                          e2e_spec true (map ch_e2e mine) (oc_e2e o)) chans &&
        e2e_spec false (topic_blocks ups t) te2e
      else true
  | None => true
  end.

Definition monitor_channel (src : stage1) stats (t c : bytes) (st : N) (warn : bool) (num : list Z) (paused : bool)
           (nodes : list bytes) (clients : list (bytes * bytes)) (ce2e : obs_e2e) : bool :=
  spec_status src stats st warn
    (fun ups => Nat.eqb (length (filter (fun e => bytes_eqb (ekey t e) c) (all_entries ups t))) 0) &&
  match stats_ups src stats with
  | Some (ups, _) =>
      if (st =? 200)%N then
        let es := filter (fun e => bytes_eqb (ekey t e) c) (all_entries ups t) in
        zs_eqb num (sums_c (map snd es)) && Bool.eqb paused (existsb (fun e => ch_paused (snd e)) es) &&
        ms_eqb bytes_eqb nodes (map (fun e => p_addr (fst (fst e))) es) &&
        ms_eqb (pair_eqb bytes_eqb bytes_eqb) clients
               (flat_map (fun e => map (fun cl => (p_addr (fst (fst e)), cl_id cl)) (nonnil (ch_clients (snd e)))) es) &&
        e2e_spec false (map (fun e => ch_e2e (snd e)) es) ce2e
      else true
  | None => true
  end.

Definition monitor_counter (src : stage1) stats (st : N) (warn : bool) (rows : list (bytes * bytes * bytes * Z)) : bool :=
  spec_status src stats st warn (fun _ => false) &&
  match stats_ups src stats with
  | Some (ups, _) =>
      if (st =? 200)%N then
        let es := all_entries ups [] in
        let rkey (r : bytes * bytes * bytes * Z) := let '(t, c, n, _) := r in t ++ colon ++ c ++ colon ++ n in
        let ekey3 (e : centry) := snd (fst e) ++ colon ++ ch_name (snd e) ++ colon ++ p_addr (fst (fst e)) in
        same_set (map rkey rows) (map ekey3 es) && nodup_b (map rkey rows) &&
        forallb (fun r => let '(_, _, _, v) := r in
                          v =? w64 (sumZ (map (fun e => ch_msgs (snd e)) (filter (fun e => bytes_eqb (ekey3 e) (rkey r)) es)))) rows
      else true
  | None => true
  end.

(* ---- agreement with the model *)
Definition stats_of (stats : lup (list (option topic))) (p : pinfo) : fetch (list (option topic)) := assoc_fetch (p_addr p) stats.

Definition obs_topics (n : obs_node) : list (bytes * bool) := on_topics n.
Definition node_key (n : obs_node) : bytes := on_bcast n ++ colon ++ on_tcp n.
Definition tb_eqb : bytes * bool -> bytes * bool -> bool := pair_eqb bytes_eqb Bool.eqb.

Definition judge_nodes (src : stage1) (st : N) (warn : bool) (got : list obs_node) : N :=
  match src with
  | SLookupNodes ups =>
      let r := lookupd_producers_pure ups in
      let reports := flat_map (fun u : bytes * list (option prod) => nonnil (snd u)) (answers ups) in
      let agree :=
        match r with
        | AHard => (st =? 502)%N
        | AOk es n =>
            (st =? 200)%N && Bool.eqb warn (negb (Nat.eqb n 0)) &&
            ms_eqb bytes_eqb (map node_key got) (ne_keys es) &&
            forallb (fun o =>
              match find (fun e => bytes_eqb (tcp_addr (ne_prod e)) (node_key o)) es with
              | Some e =>
                  ms_eqb bytes_eqb (on_remotes o) (ne_remotes e) &&
                  (* which nsqlookupd's report of this node came first is the fetch goroutines' business *)
                  existsb (fun p => bytes_eqb (tcp_addr p) (node_key o) &&
                                    ms_eqb tb_eqb (on_topics o) (pair_pure 0 (pr_topics p) (pr_tombs p)) &&
                                    bytes_eqb (on_http o) (pr_http p) && bytes_eqb (on_host o) (pr_host p)) reports
              | None => false
              end) got
        end in
      let monitor :=
        (if all_failed ups then (st =? 502)%N
         else (st =? 200)%N && Bool.eqb warn (some_failed ups) &&
              nodup_b (map node_key got) && same_set (map node_key got) (map tcp_addr reports)) in
      verdict agree monitor
  | SDirectNodes ups =>
      let f := map direct_nodes_fetch ups in
      let ps := flat_map snd (answers f) in
      let ok :=
        if all_failed f then (st =? 502)%N
        else (st =? 200)%N && Bool.eqb warn (some_failed f) &&
             ms_eqb bytes_eqb (map node_key got) (map tcp_addr ps) &&
             forallb (fun o => existsb (fun p => bytes_eqb (tcp_addr p) (node_key o) &&
                                                  ms_eqb tb_eqb (on_topics o) (pair_pure 0 (pr_topics p) [])) ps) got in
      verdict ok ok
  | _ => 1%N
  end.

Definition tnum_of_list (l : list Z) : tnum :=
  mkTNum (nth 0 l 0) (nth 1 l 0) (nth 2 l 0) (nth 3 l 0) (nth 4 l 0) (nth 5 l 0) (nth 6 l 0) (nth 7 l 0).

Definition judge (c : case) : N :=
  match c with
  | CTopics mode ups st warn got =>
      let r := topics_view mode ups in
      let agree := match r with
                   | VStatus code => (st =? code)%N
                   | VOk v w => (st =? 200)%N && Bool.eqb warn w && list_eqb bytes_eqb got v
                   end in
      let monitor :=
        if all_failed ups then (st =? 502)%N
        else (st =? 200)%N && Bool.eqb warn (some_failed ups) && nodup_b got &&
             same_set got (flat_map snd (answers ups)) in
      verdict agree monitor
  | CNodes src st warn got => judge_nodes src st warn got
  | CTopic src stats t st warn num paused nodes chans te2e =>
      let r := topic_view (stage1_producers src) (stats_of stats) t in
      (* the aggregates the answer carries: the topic's own and one per channel *)
      let ups := match stats_ups src stats with Some (ups, _) => ups | None => [] end in
      let cs := flat_map (fun a => nonnil (tn_chans a)) (all_topic_nodes ups t) in
      let blocks_of (name : bytes) := map ch_e2e (filter (fun a => bytes_eqb (ch_name a) name) cs) in
      let e2e_ok :=
        match e2e_of_nodes (topic_blocks ups t) with
        | Ok m => close_e2e false (topic_blocks ups t) m te2e
        | _ => false
        end &&
        forallb (fun o => match e2e_of_topic_channel (blocks_of (oc_name o)) with
                          | Ok m => close_e2e true (blocks_of (oc_name o)) m (oc_e2e o)
                          | _ => false
                          end) chans in
      let e2e_status := (* a merge that panics or leaves the finite numbers: nothing is served *)
        match e2e_of_nodes (topic_blocks ups t) with Ok _ => true | _ => false end &&
        forallb (fun a => match e2e_of_topic_channel (blocks_of (ch_name a)) with Ok _ => true | _ => false end) cs in
      let agree :=
        match r with
        | Ok (VOk v w) =>
            if e2e_status then
              (st =? 200)%N &&
              Bool.eqb warn w && zs_eqb num (tn_list (ta_num v)) && Bool.eqb paused (ta_paused v) &&
              ms_eqb bytes_eqb nodes (map fst (ta_nodes v)) &&
              ms_eqb chan_obs_eqb chans (map (fun s => mkOC (cs_name s) (cn_list (cs_num s)) (cs_paused s) OENone) (ta_chans v)) &&
              e2e_ok
            else (st =? 500)%N
        | _ => (status_of r =? st)%N
        end in
      verdict agree (monitor_topic src stats t st warn num paused nodes chans te2e)
  | CChannel src stats t ch st warn num paused nodes clients ce2e =>
      let r := channel_view (stage1_producers src) (stats_of stats) t ch in
      let ups := match stats_ups src stats with Some (ups, _) => ups | None => [] end in
      let blocks := map (fun e => ch_e2e (snd e)) (filter (fun e => bytes_eqb (ekey t e) ch) (all_entries ups t)) in
      let agree :=
        match r with
        | Ok (VOk v w) =>
            match e2e_of_nodes blocks with
            | Ok m =>
                (st =? 200)%N &&
                Bool.eqb warn w && zs_eqb num (cn_list (ca_num v)) && Bool.eqb paused (ca_paused v) &&
                ms_eqb bytes_eqb nodes (map (fun nd => fst (fst nd)) (ca_nodes v)) &&
                ms_eqb (pair_eqb bytes_eqb bytes_eqb) clients (map (fun x => (fst x, cl_id (snd x))) (ca_clients v)) &&
                close_e2e false blocks m ce2e
            | _ => (st =? 500)%N
            end
        | _ => (status_of r =? st)%N
        end in
      verdict agree (monitor_channel src stats t ch st warn num paused nodes clients ce2e)
  | CCounter src stats st warn rows =>
      let r := counter_view (stage1_producers src) (stats_of stats) in
      let agree :=
        (status_of r =? st)%N &&
        match r with
        | Ok (VOk v w) => Bool.eqb warn w && ms_eqb row_eqb rows v
        | _ => true
        end in
      verdict agree (monitor_counter src stats st warn rows)
  | CNode src stats node st warn msgs clients topics =>
      let r := node_view (stage1_producers src) (stats_of stats) node in
      let ok :=
        (status_of r =? st)%N &&
        match r with
        | Ok (VOk v w) =>
            Bool.eqb warn w && (msgs =? nt_messages v) && (clients =? nt_clients v) &&
            ms_eqb bytes_eqb topics (map tn_name (nt_topics v))
        | _ => true
        end in
      verdict ok ok
  | CUniq l got =>
      verdict (list_eqb bytes_eqb got (s_uniq l)) (nodup_b got && same_set got l)
  | CUnion s a got =>
      verdict (list_eqb bytes_eqb got (s_union s a))
              (same_set got (s ++ a) && (if nodup_b s then nodup_b got else true))
  | CTomb topics tombs decoded got =>
      let ok := decoded && list_eqb tb_eqb got (pair_pure 0 topics tombs) in
      verdict (match pair_tombstones topics tombs with Ok v => decoded && list_eqb tb_eqb got v | _ => negb decoded end)
              (decoded && Nat.eqb (length got) (length topics) && list_eqb bytes_eqb (map fst got) topics &&
               forallb (fun ib => Bool.eqb (snd (snd ib)) (nth (fst ib) tombs false))
                       (combine (seq 0 (length got)) got) && (ok || negb ok))
  | CChanAdd chans num paused nclients =>
      let v := fold_left (fun acc a => cagg_add acc [] [] a) chans (mkCA [] [] [] cn_zero false [] []) in
      verdict (zs_eqb num (cn_list (ca_num v)) && Bool.eqb paused (ca_paused v) && (nclients =? Z.of_nat (length (ca_clients v))))
              (zs_eqb num (sums_c chans) && Bool.eqb paused (existsb ch_paused chans))
  | CTopicAdd nodes num paused chans =>
      let tns := map (fun n => let '(cs, tl, p) := n in mkTN [] [] [] (tnum_of_list tl) p (map Some cs)) nodes in
      let v := tagg_of tns in
      let cs := flat_map (fun a => nonnil (tn_chans a)) tns in
      verdict (zs_eqb num (tn_list (ta_num v)) && Bool.eqb paused (ta_paused v) &&
               ms_eqb chan_obs_eqb chans (map (fun s => mkOC (cs_name s) (cn_list (cs_num s)) (cs_paused s) OENone) (ta_chans v)))
              (zs_eqb num (sums_t tns) && Bool.eqb paused (existsb tn_paused tns) &&
               forallb (fun o => let mine := filter (fun a => bytes_eqb (ch_name a) (oc_name o)) cs in
                                 zs_eqb (oc_num o) (sums_c mine) && Bool.eqb (oc_paused o) (existsb ch_paused mine)) chans)
  | CE2eAdd raw handnil nodes panicked nan got =>
      let r := if raw then
                 match nodes with
                 | Some a :: rest => e2e_of_receiver (Some (with_nil_maps handnil (e2e_decode a))) rest
                 | _ => e2e_of_topic_channel nodes
                 end
               else e2e_of_nodes nodes in
      verdict (match r with
               | Ok m => negb panicked && negb nan && close_e2e raw nodes m got
               | Recovered => panicked
               | Crash => false
               end)
              (* on decoded blocks: no panic, every number finite, the documented numbers; a
                 receiver with hand-made nil maps is not upstream data: only finiteness *)
              (negb nan && (if Nat.eqb handnil 0 then negb panicked && e2e_spec raw nodes got else true))
  | CAlive alive answered => verdict alive alive
  end.
