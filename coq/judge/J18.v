(* Correspondence judge for C18: the real nsqadmin's views against the stub upstreams' data,
   the real clusterinfo / stringy functions called directly, and process liveness under a
   hostile stream.  No proofs here. *)
From Coq Require Import String List ZArith NArith Bool.
From NSQV Require Import model.Judge model.Cluster.
Import ListNotations.
Open Scope list_scope.
Open Scope Z_scope.


Record obs_chan := mkOC { oc_name : bytes; oc_num : list Z; oc_paused : bool }.
Record obs_node := mkON { on_bcast : bytes; on_http : bytes; on_tcp : bytes; on_host : bytes;
                          on_topics : list (bytes * bool); on_remotes : list bytes }.

Inductive case :=
| CTopics (lookupd_mode : bool) (ups : lup (list bytes)) (st : N) (warn : bool) (got : list bytes)
| CNodes (src : stage1) (st : N) (warn : bool) (got : list obs_node)
| CTopic (src : stage1) (stats : lup (list (option topic))) (t : bytes)
         (st : N) (warn : bool) (num : list Z) (paused : bool) (nodes : list bytes) (chans : list obs_chan)
| CChannel (src : stage1) (stats : lup (list (option topic))) (t c : bytes)
           (st : N) (warn : bool) (num : list Z) (paused : bool) (nodes : list bytes) (clients : list (bytes * bytes))
| CCounter (src : stage1) (stats : lup (list (option topic)))
           (st : N) (warn : bool) (rows : list (bytes * bytes * bytes * Z))
| CNode (src : stage1) (stats : lup (list (option topic))) (node : bytes)
        (st : N) (warn : bool) (msgs clients : Z) (topics : list bytes)
  (* the real functions called directly through the verifshim *)
| CUniq (l got : list bytes)
| CUnion (s a got : list bytes)
| CTomb (topics : list bytes) (tombs : list bool) (decoded : bool) (got : list (bytes * bool))
| CChanAdd (chans : list chan) (num : list Z) (paused : bool) (nclients : Z)
| CTopicAdd (nodes : list (list chan * list Z * bool)) (num : list Z) (paused : bool) (chans : list obs_chan)
  (* the nsqadmin subprocess after a hostile upstream answer *)
| CAlive (alive : bool) (answered : bool).

(* ---- order-insensitive comparison *)
Fixpoint count_by {A : Type} (eqb : A -> A -> bool) (x : A) (l : list A) : nat :=
  match l with [] => 0%nat | y :: r => ((if eqb x y then 1 else 0) + count_by eqb x r)%nat end.
Definition ms_eqb {A : Type} (eqb : A -> A -> bool) (a b : list A) : bool :=
  Nat.eqb (length a) (length b) && forallb (fun x => Nat.eqb (count_by eqb x a) (count_by eqb x b)) a.
Definition zs_eqb : list Z -> list Z -> bool := list_eqb Z.eqb.
Definition pair_eqb {A B : Type} (ea : A -> A -> bool) (eb : B -> B -> bool) (x y : A * B) : bool :=
  ea (fst x) (fst y) && eb (snd x) (snd y).

Fixpoint assoc_fetch {A : Type} (k : bytes) (l : lup A) : fetch A :=
  match l with
  | [] => FFail
  | (k', v) :: r => if bytes_eqb k k' then v else assoc_fetch k r
  end.

Definition status_of {V : Type} (r : res (view V)) : N :=
  match r with
  | Ok (VStatus c) => c
  | Ok (VOk _ _) => 200
  | Recovered => 500
  | Crash => 0
  end.
Definition warn_of_view {V : Type} (r : res (view V)) : bool :=
  match r with Ok (VOk _ w) => w | _ => false end.

Definition chan_obs_eqb (a b : obs_chan) : bool :=
  bytes_eqb (oc_name a) (oc_name b) && zs_eqb (oc_num a) (oc_num b) && Bool.eqb (oc_paused a) (oc_paused b).

Definition row_eqb (a b : bytes * bytes * bytes * Z) : bool :=
  let '(t, c, n, v) := a in let '(t', c', n', v') := b in
  bytes_eqb t t' && bytes_eqb c c' && bytes_eqb n n' && (v =? v').

(* ---- the property, from the upstream data directly (the right-hand sides of the theorems) *)
Definition all_failed {K A : Type} (ups : list (K * fetch A)) : bool := forallb failed ups.
Definition some_failed {K A : Type} (ups : list (K * fetch A)) : bool := existsb failed ups.

Fixpoint nodup_b (l : list bytes) : bool :=
  match l with [] => true | x :: r => negb (smem x r) && nodup_b r end.
Definition same_set (a b : list bytes) : bool := forallb (fun x => smem x b) a && forallb (fun x => smem x a) b.

Definition stats_ups (src : stage1) (stats : lup (list (option topic))) : option (list (pinfo * fetch (list (option topic))) * nat) :=
  match stage1_producers src with
  | AHard => None
  | AOk ps n => Some (map (fun p => (p, assoc_fetch (p_addr p) stats)) ps, n)
  end.

(* 502 iff a stage got no answer; a warning iff an upstream of either stage failed *)
Definition spec_status (src : stage1) (stats : lup (list (option topic))) (st : N) (warn : bool) : bool :=
  match stats_ups src stats with
  | None => (st =? 502)%N
  | Some (ups, n1) =>
      if all_failed ups then (st =? 502)%N
      else negb (st =? 502)%N && (if (st =? 200)%N then Bool.eqb warn (negb (Nat.eqb n1 0) || some_failed ups) else true)
  end.

Definition sums_c (es : list chan) : list Z := map (fun f => w64 (sumZ (map (fun a => f (chan_num a)) es))) cfields.
Definition sums_t (ns : list tnode) : list Z := map (fun f => w64 (sumZ (map (fun a => f (tn_num a)) ns))) tfields.

Definition monitor_topic (src : stage1) stats (t : bytes) (st : N) (warn : bool) (num : list Z) (paused : bool)
           (nodes : list bytes) (chans : list obs_chan) : bool :=
  spec_status src stats st warn &&
  match stats_ups src stats with
  | Some (ups, _) =>
      if (st =? 200)%N then
        let ns := all_topic_nodes ups t in
        let cs := flat_map (fun a => nonnil (tn_chans a)) ns in
        zs_eqb num (sums_t ns) && Bool.eqb paused (existsb tn_paused ns) &&
        ms_eqb bytes_eqb nodes (map tn_node ns) &&
        same_set (map oc_name chans) (map ch_name cs) && nodup_b (map oc_name chans) &&
        forallb (fun o => let mine := filter (fun a => bytes_eqb (ch_name a) (oc_name o)) cs in
                          zs_eqb (oc_num o) (sums_c mine) && Bool.eqb (oc_paused o) (existsb ch_paused mine)) chans
      else true
  | None => true
  end.

Definition monitor_channel (src : stage1) stats (t c : bytes) (st : N) (warn : bool) (num : list Z) (paused : bool)
           (nodes : list bytes) (clients : list (bytes * bytes)) : bool :=
  spec_status src stats st warn &&
  match stats_ups src stats with
  | Some (ups, _) =>
      if (st =? 200)%N then
        let es := filter (fun e => bytes_eqb (ekey t e) c) (all_entries ups t) in
        zs_eqb num (sums_c (map snd es)) && Bool.eqb paused (existsb (fun e => ch_paused (snd e)) es) &&
        ms_eqb bytes_eqb nodes (map (fun e => p_addr (fst (fst e))) es) &&
        ms_eqb (pair_eqb bytes_eqb bytes_eqb) clients
               (flat_map (fun e => map (fun cl => (p_addr (fst (fst e)), cl_id cl)) (nonnil (ch_clients (snd e)))) es)
      else true
  | None => true
  end.

Definition monitor_counter (src : stage1) stats (st : N) (warn : bool) (rows : list (bytes * bytes * bytes * Z)) : bool :=
  spec_status src stats st warn &&
  match stats_ups src stats with
  | Some (ups, _) =>
      if (st =? 200)%N then
        let es := all_entries ups [] in
        let rkey (r : bytes * bytes * bytes * Z) := let '(t, c, n, _) := r in t ++ colon ++ c ++ colon ++ n in
        let ekey3 (e : centry) := snd (fst e) ++ colon ++ ch_name (snd e) ++ colon ++ p_addr (fst (fst e)) in
        same_set (map rkey rows) (map ekey3 es) && nodup_b (map rkey rows) &&
        forallb (fun r => let '(_, _, _, v) := r in
                          v =? w64 (sumZ (map (fun e => ch_msgs (snd e)) (filter (fun e => bytes_eqb (ekey3 e) (rkey r)) es)))) rows
      else true
  | None => true
  end.

(* ---- agreement with the model *)
Definition stats_of (stats : lup (list (option topic))) (p : pinfo) : fetch (list (option topic)) := assoc_fetch (p_addr p) stats.

Definition obs_topics (n : obs_node) : list (bytes * bool) := on_topics n.
Definition node_key (n : obs_node) : bytes := on_bcast n ++ colon ++ on_tcp n.
Definition tb_eqb : bytes * bool -> bytes * bool -> bool := pair_eqb bytes_eqb Bool.eqb.

Definition judge_nodes (src : stage1) (st : N) (warn : bool) (got : list obs_node) : N :=
  match src with
  | SLookupNodes ups =>
      let r := lookupd_producers_pure ups in
      let reports := flat_map (fun u : bytes * list (option prod) => nonnil (snd u)) (answers ups) in
      let agree :=
        match r with
        | AHard => (st =? 502)%N
        | AOk es n =>
            (st =? 200)%N && Bool.eqb warn (negb (Nat.eqb n 0)) &&
            ms_eqb bytes_eqb (map node_key got) (ne_keys es) &&
            forallb (fun o =>
              match find (fun e => bytes_eqb (tcp_addr (ne_prod e)) (node_key o)) es with
              | Some e =>
                  ms_eqb bytes_eqb (on_remotes o) (ne_remotes e) &&
                  (* which nsqlookupd's report of this node came first is the fetch goroutines' business *)
                  existsb (fun p => bytes_eqb (tcp_addr p) (node_key o) &&
                                    ms_eqb tb_eqb (on_topics o) (pair_pure 0 (pr_topics p) (pr_tombs p)) &&
                                    bytes_eqb (on_http o) (pr_http p) && bytes_eqb (on_host o) (pr_host p)) reports
              | None => false
              end) got
        end in
      let monitor :=
        (if all_failed ups then (st =? 502)%N
         else (st =? 200)%N && Bool.eqb warn (some_failed ups) &&
              nodup_b (map node_key got) && same_set (map node_key got) (map tcp_addr reports)) in
      verdict agree monitor
  | SDirectNodes ups =>
      let f := map direct_nodes_fetch ups in
      let ps := flat_map snd (answers f) in
      let ok :=
        if all_failed f then (st =? 502)%N
        else (st =? 200)%N && Bool.eqb warn (some_failed f) &&
             ms_eqb bytes_eqb (map node_key got) (map tcp_addr ps) &&
             forallb (fun o => existsb (fun p => bytes_eqb (tcp_addr p) (node_key o) &&
                                                  ms_eqb tb_eqb (on_topics o) (pair_pure 0 (pr_topics p) [])) ps) got in
      verdict ok ok
  | _ => 1%N
  end.

Definition tnum_of_list (l : list Z) : tnum :=
  mkTNum (nth 0 l 0) (nth 1 l 0) (nth 2 l 0) (nth 3 l 0) (nth 4 l 0) (nth 5 l 0) (nth 6 l 0) (nth 7 l 0).

Definition judge (c : case) : N :=
  match c with
  | CTopics mode ups st warn got =>
      let r := topics_view mode ups in
      let agree := match r with
                   | VStatus code => (st =? code)%N
                   | VOk v w => (st =? 200)%N && Bool.eqb warn w && list_eqb bytes_eqb got v
                   end in
      let monitor :=
        if all_failed ups then (st =? 502)%N
        else (st =? 200)%N && Bool.eqb warn (some_failed ups) && nodup_b got &&
             same_set got (flat_map snd (answers ups)) in
      verdict agree monitor
  | CNodes src st warn got => judge_nodes src st warn got
  | CTopic src stats t st warn num paused nodes chans =>
      let r := topic_view (stage1_producers src) (stats_of stats) t in
      let agree :=
        (status_of r =? st)%N &&
        match r with
        | Ok (VOk v w) =>
            Bool.eqb warn w && zs_eqb num (tn_list (ta_num v)) && Bool.eqb paused (ta_paused v) &&
            ms_eqb bytes_eqb nodes (map fst (ta_nodes v)) &&
            ms_eqb chan_obs_eqb chans (map (fun s => mkOC (cs_name s) (cn_list (cs_num s)) (cs_paused s)) (ta_chans v))
        | _ => true
        end in
      verdict agree (monitor_topic src stats t st warn num paused nodes chans)
  | CChannel src stats t ch st warn num paused nodes clients =>
      let r := channel_view (stage1_producers src) (stats_of stats) t ch in
      let agree :=
        (status_of r =? st)%N &&
        match r with
        | Ok (VOk v w) =>
            Bool.eqb warn w && zs_eqb num (cn_list (ca_num v)) && Bool.eqb paused (ca_paused v) &&
            ms_eqb bytes_eqb nodes (map (fun nd => fst (fst nd)) (ca_nodes v)) &&
            ms_eqb (pair_eqb bytes_eqb bytes_eqb) clients (map (fun x => (fst x, cl_id (snd x))) (ca_clients v))
        | _ => true
        end in
      verdict agree (monitor_channel src stats t ch st warn num paused nodes clients)
  | CCounter src stats st warn rows =>
      let r := counter_view (stage1_producers src) (stats_of stats) in
      let agree :=
        (status_of r =? st)%N &&
        match r with
        | Ok (VOk v w) => Bool.eqb warn w && ms_eqb row_eqb rows v
        | _ => true
        end in
      verdict agree (monitor_counter src stats st warn rows)
  | CNode src stats node st warn msgs clients topics =>
      let r := node_view (stage1_producers src) (stats_of stats) node in
      let ok :=
        (status_of r =? st)%N &&
        match r with
        | Ok (VOk v w) =>
            Bool.eqb warn w && (msgs =? nt_messages v) && (clients =? nt_clients v) &&
            ms_eqb bytes_eqb topics (map tn_name (nt_topics v))
        | _ => true
        end in
      verdict ok ok
  | CUniq l got =>
      verdict (list_eqb bytes_eqb got (s_uniq l)) (nodup_b got && same_set got l)
  | CUnion s a got =>
      verdict (list_eqb bytes_eqb got (s_union s a))
              (same_set got (s ++ a) && (if nodup_b s then nodup_b got else true))
  | CTomb topics tombs decoded got =>
      let ok := decoded && list_eqb tb_eqb got (pair_pure 0 topics tombs) in
      verdict (match pair_tombstones topics tombs with Ok v => decoded && list_eqb tb_eqb got v | _ => negb decoded end)
              (decoded && Nat.eqb (length got) (length topics) && list_eqb bytes_eqb (map fst got) topics &&
               forallb (fun ib => Bool.eqb (snd (snd ib)) (nth (fst ib) tombs false))
                       (combine (seq 0 (length got)) got) && (ok || negb ok))
  | CChanAdd chans num paused nclients =>
      let v := fold_left (fun acc a => cagg_add acc [] [] a) chans (mkCA [] [] [] cn_zero false [] []) in
      verdict (zs_eqb num (cn_list (ca_num v)) && Bool.eqb paused (ca_paused v) && (nclients =? Z.of_nat (length (ca_clients v))))
              (zs_eqb num (sums_c chans) && Bool.eqb paused (existsb ch_paused chans))
  | CTopicAdd nodes num paused chans =>
      let tns := map (fun n => let '(cs, tl, p) := n in mkTN [] [] [] (tnum_of_list tl) p (map Some cs)) nodes in
      let v := tagg_of tns in
      let cs := flat_map (fun a => nonnil (tn_chans a)) tns in
      verdict (zs_eqb num (tn_list (ta_num v)) && Bool.eqb paused (ta_paused v) &&
               ms_eqb chan_obs_eqb chans (map (fun s => mkOC (cs_name s) (cn_list (cs_num s)) (cs_paused s)) (ta_chans v)))
              (zs_eqb num (sums_t tns) && Bool.eqb paused (existsb tn_paused tns) &&
               forallb (fun o => let mine := filter (fun a => bytes_eqb (ch_name a) (oc_name o)) cs in
                                 zs_eqb (oc_num o) (sums_c mine) && Bool.eqb (oc_paused o) (existsb ch_paused mine)) chans)
  | CAlive alive answered => verdict alive alive
  end.
