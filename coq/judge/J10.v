(* Correspondence judge for C10 (nsqd HTTP API).  No proofs here.

   One case = what the REAL nsqd did with one request (status, error token, daemon
   state before and after; for publishes also what a TCP twin of the request did on a
   second daemon and what both enqueued), judged two ways:
     agree    the model (model/Http.v) predicts exactly that
     monitor  the property itself holds of the observation, written without the model's
              handlers: documented status set and table, never 500, 4xx => no effect,
              admin endpoints change exactly the named object, HTTP and TCP enqueue the
              same messages. *)
From Coq Require Import String Ascii List NArith ZArith Bool.
From NSQV Require Import model.Judge model.Names model.Num model.Http gen.NsqdRoutes.
Import ListNotations.
Open Scope bool_scope.
Open Scope Z_scope.

Definition default_cfg_names : list bytes := map str nsqd_cfg_names.

(* the configuration of a daemon the harness runs: limits, and whether it is the
   plaintext listener of a --tls-required daemon; the backend is healthy *)
Definition jcfg (mm mb mr : Z) (tls : bool) : cfg :=
  mkCfg mm mb mr tls true false true true default_cfg_names.

(* ------------------------------------------------------------------ comparisons *)
Definition chan_eqb (a b : chan_st) : bool :=
  Bool.eqb (cs_paused a) (cs_paused b) && (cs_depth a =? cs_depth b).
Definition assoc_eqb {A : Type} (eqb : A -> A -> bool) (l1 l2 : list (bytes * A)) : bool :=
  Nat.eqb (length l1) (length l2) &&
  forallb (fun kv => match lookup (fst kv) l2 with Some v => eqb (snd kv) v | None => false end) l1.
Definition topic_eqb (a b : topic_st) : bool :=
  Bool.eqb (ts_paused a) (ts_paused b) && (ts_depth a =? ts_depth b) && assoc_eqb chan_eqb (ts_chans a) (ts_chans b).
Definition state_eqb : state -> state -> bool := assoc_eqb topic_eqb.
Definition otopic_eqb (a b : option topic_st) : bool :=
  match a, b with
  | Some x, Some y => topic_eqb x y
  | None, None => true
  | _, _ => false
  end.

Fixpoint remove_one {A : Type} (eqb : A -> A -> bool) (x : A) (l : list A) : option (list A) :=
  match l with
  | [] => None
  | y :: r => if eqb x y then Some r
              else match remove_one eqb x r with Some r' => Some (y :: r') | None => None end
  end.
Fixpoint perm_eqb {A : Type} (eqb : A -> A -> bool) (l1 l2 : list A) : bool :=
  match l1 with
  | [] => is_nil l2
  | x :: r => match remove_one eqb x l2 with Some l2' => perm_eqb eqb r l2' | None => false end
  end.
Definition dmsg_eqb (a b : bytes * Z) : bool := bytes_eqb (fst a) (fst b) && (snd a =? snd b).

(* ------------------------------------------------------------------ the property, on observations *)
Definition is_4xx (s : Z) : bool := (400 <=? s) && (s <? 500).
Definition is_3xx (s : Z) : bool := (300 <=? s) && (s <? 400).

Definition pprof_path (p : bytes) : bool := is_prefix (str "/debug/pprof") (lower p).

(* status set + documented table + token class, for nsqd's own handlers *)
Definition status_ok (m : method) (path : bytes) (status : Z) (tok : bytes) : bool :=
  if pprof_path path then true
  else if method_eqb m MHead then allowed_status status      (* a HEAD answer has no body *)
  else allowed_status status && status_rule status tok &&
       match token_class_status tok with Some s => s =? status | None => true end.

(* the documented method of each endpoint (nsq HTTP API documentation): any other method on
   that exact path must be answered 405 (OPTIONS aside) - in particular nothing but POST
   may reach a state-changing endpoint *)
Definition post_only : list bytes :=
  map str ["/pub"; "/mpub"; "/topic/create"; "/topic/delete"; "/topic/empty"; "/topic/pause"; "/topic/unpause";
           "/channel/create"; "/channel/delete"; "/channel/empty"; "/channel/pause"; "/channel/unpause";
           "/debug/freememory"]%string.
Definition get_only : list bytes := map str ["/ping"; "/info"; "/stats"]%string.
Definition documented_methods (p : bytes) : option (list method) :=
  if existsb (bytes_eqb p) post_only then Some [MPost]
  else if existsb (bytes_eqb p) get_only then Some [MGet]
  else if bytes_eqb p (str "/debug/setblockrate") then Some [MPut]
  else if is_prefix (str "/config/") p && negb (is_nil (skipn 8 p)) && negb (has_slash (skipn 8 p)) then Some [MGet; MPut]
  else None.
Definition method_ok (m : method) (p : bytes) (status : Z) : bool :=
  match documented_methods p with
  | Some ms => existsb (method_eqb m) ms || method_eqb m MOptions || (status =? 405)
  | None => true
  end.

(* a state that differs from [pre] at most by brand-new empty topics *)
Definition only_new_empty_topics (pre post : state) : bool :=
  forallb (fun kt => otopic_eqb (lookup (fst kt) post) (Some (snd kt))) pre &&
  forallb (fun kt => match lookup (fst kt) pre with
                     | Some _ => true
                     | None => topic_eqb (snd kt) new_topic
                     end) post.

Definition admin_path (p : bytes) : bool :=
  is_prefix (str "/topic/") p || is_prefix (str "/channel/") p.

(* what the named topic must look like after a successful admin request *)
Definition with_chans (ts : topic_st) (cs : list (bytes * chan_st)) := mkTopic (ts_paused ts) (ts_depth ts) cs.
Definition admin_expected (path t ch : bytes) (pre_t : option topic_st) : option (option topic_st) :=
  let on (f : topic_st -> option topic_st) := match pre_t with Some ts => Some (f ts) | None => None end in
  if bytes_eqb path (str "/topic/create") then
    Some (Some (match pre_t with Some ts => ts | None => new_topic end))
  else if bytes_eqb path (str "/topic/delete") then on (fun _ => None)
  else if bytes_eqb path (str "/topic/empty") then on (fun ts => Some (mkTopic (ts_paused ts) 0 (ts_chans ts)))
  else if bytes_eqb path (str "/topic/pause") then on (fun ts => Some (mkTopic true (ts_depth ts) (ts_chans ts)))
  else if bytes_eqb path (str "/topic/unpause") then on (fun ts => Some (settle_topic (mkTopic false (ts_depth ts) (ts_chans ts))))
  else if bytes_eqb path (str "/channel/create") then
    on (fun ts => Some (settle_topic (with_chans ts
          (match lookup ch (ts_chans ts) with Some _ => ts_chans ts | None => (ts_chans ts ++ [(ch, new_chan)])%list end))))
  else if bytes_eqb path (str "/channel/delete") then
    match pre_t with
    | Some ts =>
        match lookup ch (ts_chans ts) with
        | None => None
        | Some _ =>
            let cs := remove_key ch (ts_chans ts) in
            Some (if is_nil cs && has_ephemeral_suffix t then None else Some (with_chans ts cs))
        end
    | None => None
    end
  else
    let chan_op (f : chan_st -> chan_st) :=
      match pre_t with
      | Some ts => match lookup ch (ts_chans ts) with
                   | Some _ => Some (Some (with_chans ts (update ch f (ts_chans ts))))
                   | None => None
                   end
      | None => None
      end in
    if bytes_eqb path (str "/channel/empty") then chan_op (fun cs => mkChan (cs_paused cs) 0)
    else if bytes_eqb path (str "/channel/pause") then chan_op (fun cs => mkChan true (cs_depth cs))
    else if bytes_eqb path (str "/channel/unpause") then chan_op (fun cs => mkChan false (cs_depth cs))
    else None.

Definition others_unchanged (t : bytes) (pre post : state) : bool :=
  forallb (fun kt => bytes_eqb (fst kt) t || otopic_eqb (lookup (fst kt) post) (Some (snd kt))) pre &&
  forallb (fun kt => bytes_eqb (fst kt) t || match lookup (fst kt) pre with Some _ => true | None => false end) post.

Definition admin_monitor (r : request) (status : Z) (pre post : state) : bool :=
  if status =? 200 then
    let ps := qpairs (r_query r) in
    match qget k_topic ps with
    | None => false
    | Some t =>
        let ch := match qget k_channel ps with Some c => c | None => [] end in
        match admin_expected (r_path r) t ch (lookup t pre) with
        | Some exp => otopic_eqb (lookup t post) exp && others_unchanged t pre post &&
                      (* nothing is ever created under an invalid name *)
                      implb (bytes_eqb (r_path r) (str "/topic/create")) (is_valid_name t) &&
                      implb (bytes_eqb (r_path r) (str "/channel/create")) (is_valid_name t && is_valid_name ch)
        | None => false
        end
    end
  else state_eqb pre post.

(* ------------------------------------------------------------------ cases *)
(* the TCP twin of a publish request *)
Inductive twin :=
| TwNone                                                   (* not expressible on the wire *)
| TwPub (name : bytes) (size : Z) (stream : bytes)
| TwDpub (name dparam : bytes) (size : Z) (stream : bytes)
| TwMpub (name : bytes) (size : Z) (stream : bytes).

Inductive pubkind := KPub | KMpubBinary | KMpubText.

(* "400 for bad or missing arguments, 404 for an unknown topic/channel" - and only for
   those: whatever error token the daemon answered must be true of the request and of the
   state it met (Http.token_justified: INVALID_TOPIC / INVALID_ARG_* => that argument is
   present and is NOT a valid name, MISSING_ARG_* => absent, *_NOT_FOUND => not in the
   state, INVALID_DEFER => not a number of ms in range, INVALID_REQUEST => unparsable query
   or unreadable body) ... *)
Definition args_monitor (c : cfg) (pre : state) (r : request) (status : Z) (tok : bytes) : bool :=
  tls_gate c || method_eqb (r_method r) MHead || (status =? 200) || is_3xx status || token_justified c pre r tok.

(* ... and a well-formed POST to an admin endpoint whose named object meets the endpoint's
   documented precondition (valid name(s); existing topic / channel where required) is
   answered 200; one that does not, is not *)
Definition admin_accept_monitor (c : cfg) (pre : state) (r : request) (status : Z) : bool :=
  if tls_gate c || negb (method_eqb (r_method r) MPost) then true
  else match r_query r with
  | QErr _ => negb (status =? 200) || negb (admin_path (r_path r))
  | QOk ps =>
      match admin_precondition (r_path r) pre (qget k_topic ps) (qget k_channel ps) with
      | Some true => r_body_err r || (status =? 200)
      | Some false => negb (status =? 200)
      | None => true
      end
  end.

(* the same for the TCP twin: E_BAD_TOPIC only for a name that is not valid *)
Definition twin_name (tw : twin) : option bytes :=
  match tw with
  | TwNone => None
  | TwPub n _ _ | TwDpub n _ _ _ | TwMpub n _ _ => Some n
  end.
Definition tcp_code_justified (tw : twin) (code : bytes) : bool :=
  match twin_name tw with
  | Some n => implb (bytes_eqb code E_BAD_TOPIC) (negb (is_valid_name n))
  | None => true
  end.

(* a complete, well-formed publish that meets every documented limit must be accepted:
   /pub with a valid topic, 1..max-msg-size bytes and no or an in-range defer; text /mpub
   with a valid topic, at most max-body-size bytes and no line above max-msg-size *)
Definition pub_must_accept (c : cfg) (kind : pubkind) (r : request) : bool :=
  match r_query r with
  | QErr _ => false
  | QOk ps =>
      method_eqb (r_method r) MPost && negb (r_body_err r) && negb (tls_gate c) &&
      (match r_framing r with Declared n => n =? blen (r_body r) | Chunked => true end) &&
      match qget k_topic ps with
      | None => false
      | Some t =>
          is_valid_name t &&
          match kind with
          | KPub =>
              bytes_eqb (r_path r) (str "/pub") &&
              (1 <=? blen (r_body r)) && (blen (r_body r) <=? max_msg c) &&
              match qget k_defer ps with Some ds => defer_documented c ds | None => true end
          | KMpubText =>
              bytes_eqb (r_path r) (str "/mpub") && negb (binary_mode ps) &&
              (blen (r_body r) <=? max_body c) &&
              forallb (fun l => blen l <=? max_msg c) (split_nl (r_body r))
          | KMpubBinary => false
          end
      end
  end.


Inductive case :=
  (* any request against a known daemon state *)
| Req (c : cfg) (pre : state) (r : request) (router_exact : bool)
      (status : Z) (token : bytes) (post : state)
  (* router probe: no state involved *)
| Route (m : method) (path : bytes) (router_exact : bool) (status : Z) (token : bytes)
  (* a publish over HTTP on daemon A and its TCP twin on daemon B, same topic name *)
| Pub (c : cfg) (kind : pubkind) (r : request) (status : Z) (token : bytes)
      (http_created : bool) (http_got : list bytes) (http_deferred : list (bytes * Z))
      (tw : twin) (tcp_code : bytes)
      (tcp_created : bool) (tcp_got : list bytes) (tcp_deferred : list (bytes * Z))
  (* hostile byte streams against a subprocess daemon *)
| Hostile (alive : bool) (statuses : list Z)
  (* strconv.ParseInt(s, 10, 64) as the real library computes it *)
| PInt (s : bytes) (ok : bool) (v : Z).

Definition resp_agrees (m : method) (resp : response) (status : Z) (token : bytes) : bool :=
  match resp with
  | Resp s t => (s =? status) && (method_eqb m MHead || bytes_eqb t token)
  | Pass => true
  end.

Definition created_of (effs : list effect) : bool :=
  existsb (fun e => match e with ECreateTopic _ => true | _ => false end) effs.
Definition enq_of (effs : list effect) : list (bytes * Z) :=
  flat_map (fun e => match e with EEnqueue _ bodies d => map (fun b => (b, d)) bodies | _ => [] end) effs.
Definition now_of (l : list (bytes * Z)) : list bytes :=
  map fst (filter (fun bd => snd bd =? 0) l).
Definition later_of (l : list (bytes * Z)) : list (bytes * Z) := filter (fun bd => negb (snd bd =? 0)) l.

Definition OK := str "OK".

Definition tcp_model (c : cfg) (tw : twin) : option tcp_res :=
  match tw with
  | TwNone => None
  | TwPub n s b => Some (tcp_pub c n s b)
  | TwDpub n d s b => Some (tcp_dpub c n d s b)
  | TwMpub n s b => Some (tcp_mpub c n s b)
  end.

Definition hostile_status_ok (s : Z) : bool :=
  negb (s =? 500) &&
  (allowed_status s || (s =? 0) || (s =? 408) || (s =? 431) || (s =? 501) || (s =? 505)).

Definition sum_sizes (l : list bytes) : Z := fold_left (fun a b => a + 4 + blen b) l 4.

Definition judge (k : case) : N :=
  match k with
  | Req c pre r exact status token post =>
      let '(resp, post_m) := run c pre r in
      let agree := negb exact || (resp_agrees (r_method r) resp status token &&
                                  match resp with Pass => true | _ => state_eqb post_m post end) in
      let monitor :=
        status_ok (r_method r) (r_path r) status token &&
        (if tls_gate c then (status =? 403) && state_eqb pre post else method_ok (r_method r) (r_path r) status) &&
        (if pprof_path (r_path r) then true
         else if admin_path (r_path r) && method_eqb (r_method r) MPost then admin_monitor r status pre post
         else if is_4xx status || is_3xx status then only_new_empty_topics pre post && implb (admin_path (r_path r)) (state_eqb pre post)
         else true) &&
        (pprof_path (r_path r) || (args_monitor c pre r status token && admin_accept_monitor c pre r status)) in
      verdict agree monitor
  | Route m path exact status token =>
      let agree := negb exact ||
        match route_request m path with
        | RHandle _ => negb (is_3xx status) && negb (status =? 405) &&
                       negb ((status =? 404) && bytes_eqb token (str "NOT_FOUND"))
        | RRedirect code => status =? code
        | ROptionsOk => status =? 200
        | RMethodNotAllowed => (status =? 405) && (method_eqb m MHead || bytes_eqb token (str "METHOD_NOT_ALLOWED"))
        | RNotFound => (status =? 404) && (method_eqb m MHead || bytes_eqb token (str "NOT_FOUND"))
        end in
      verdict agree (status_ok m path status token && method_ok m path status)
  | Pub c kind r status token hcreated hgot hdef tw tcode tcreated tgot tdef =>
      let '(resp, effs) := serve c [] r in
      let enq := enq_of effs in
      let http_agree :=
        resp_agrees (r_method r) resp status token && Bool.eqb (created_of effs) hcreated &&
        perm_eqb bytes_eqb (now_of enq) hgot && perm_eqb dmsg_eqb (later_of enq) hdef in
      let tcp_agree :=
        match tcp_model c tw with
        | None => true
        | Some (TcpOk effs') =>
            bytes_eqb tcode OK && Bool.eqb (created_of effs') tcreated &&
            perm_eqb bytes_eqb (now_of (enq_of effs')) tgot && perm_eqb dmsg_eqb (later_of (enq_of effs')) tdef
        | Some (TcpErr code effs') =>
            bytes_eqb tcode code && Bool.eqb (created_of effs') tcreated && is_nil tgot && is_nil tdef
        end in
      let http_ok := status =? 200 in
      let tcp_ok := bytes_eqb tcode OK in
      let all_http := (hgot ++ map fst hdef)%list in
      let sizes_ok := forallb (fun b => (1 <=? blen b) && (blen b <=? max_msg c)) all_http in
      let same_enqueued := perm_eqb bytes_eqb hgot tgot && perm_eqb dmsg_eqb hdef tdef in
      let body_len := blen (r_body r) in
      let complete := negb (r_body_err r) in
      let size_table :=
        implb (complete && bytes_eqb token (str "BODY_TOO_BIG")) (max_body c <? body_len) &&
        implb (complete && bytes_eqb token (str "MSG_EMPTY")) (body_len =? 0) &&
        implb (complete && bytes_eqb token (str "MSG_TOO_BIG"))
              (match kind with
               | KPub => max_msg c <? body_len
               | KMpubText => existsb (fun l => max_msg c <? blen l) (split_nl (r_body r))
               | KMpubBinary => false
               end) &&
        implb (complete && http_ok)
              (match kind with
               | KPub => (1 <=? body_len) && (body_len <=? max_msg c)
               | KMpubText => body_len <=? max_body c
               | KMpubBinary => match r_framing r with Declared _ => body_len <=? max_body c | Chunked => true end
               end) in
      let monitor :=
        status_ok (r_method r) (r_path r) status token && method_ok (r_method r) (r_path r) status && sizes_ok && size_table &&
        (http_ok || (is_nil hgot && is_nil hdef)) &&
        args_monitor c [] r status token && tcp_code_justified tw tcode &&
        implb (pub_must_accept c kind r) http_ok &&
        match tw with
        | TwNone => true
        | _ =>
            (tcp_ok || (is_nil tgot && is_nil tdef)) &&
            match kind with
            | KPub | KMpubBinary => Bool.eqb http_ok tcp_ok && same_enqueued
            | KMpubText =>
                (* text mode measures its own body: the acceptance may differ only where the
                   two framings differ in size or the batch is empty (HttpProofs.text_mpub_gap) *)
                if http_ok && tcp_ok then same_enqueued
                else if http_ok then
                  is_nil tgot && is_nil tdef &&
                  (is_nil all_http || (Z.quot (max_body c - 4) 5 <? blen_list all_http)
                   || (max_body c <? sum_sizes all_http))
                else if tcp_ok then max_body c <? blen (r_body r)
                else true
            end
        end in
      verdict (http_agree && tcp_agree) monitor
  | Hostile alive statuses =>
      let ok := alive && forallb hostile_status_ok statuses in
      verdict true ok
  | PInt s ok v =>
      verdict (match parse_int s with Some v' => ok && (v =? v') | None => negb ok end) true
  end.
