(* Correspondence judge for C19 (nsq_to_file).  Three kinds of cases:
     Run     one scripted in-process run of the real FileLogger.router() (verif init-driver
             binary under a syscall tracer): configuration, pre-existing files, the injected
             events with the clock readings observed around them, the system call of the
             router that an outside fault injector made fail (if any), and the observed trace
             of file operations, failed calls and FINs in syscall order;
     Fmt     one evaluation of the real computeFilenameFormat (through NewFileLogger);
     Black   one black-box run of the real nsq_to_file binary against a real nsqd, stopped by
             SIGTERM / SIGHUP+SIGTERM / SIGKILL: what the channel no longer owes vs the
             decompressible file contents.
   No proofs here. *)
From Coq Require Import List ZArith NArith Bool.
From NSQV Require Import model.Judge model.FileOS model.FileLogger model.Strftime.
Import ListNotations.
Open Scope bool_scope.
Open Scope N_scope.

(* ---------- comparing operation traces ---------- *)
Definition chunk_bytes_eqb (a b : chunk) : bool := bytes_eqb (snd a) (snd b).
Definition msg_eqb (a b : msg) : bool := N.eqb (fst a) (fst b) && bytes_eqb (snd a) (snd b).

Definition op_eqb (a b : op) : bool :=
  match a, b with
  | OCreate k e ap tr ok, OCreate k' e' ap' tr' ok' =>
      key_eqb k k' && Bool.eqb e e' && Bool.eqb ap ap' && Bool.eqb tr tr' && Bool.eqb ok ok'
  | OWrite k c, OWrite k' c' => key_eqb k k' && chunk_bytes_eqb c c'
  | OMember k cs, OMember k' cs' => key_eqb k k' && bytes_eqb (flat cs) (flat cs')
  | OFsync k, OFsync k' => key_eqb k k'
  | OClose k, OClose k' => key_eqb k k'
  | OLink s d ok, OLink s' d' ok' => key_eqb s s' && key_eqb d d' && Bool.eqb ok ok'
  | OUnlink k, OUnlink k' => key_eqb k k'
  | ORename s d, ORename s' d' => key_eqb s s' && key_eqb d d'
  | OFin m, OFin m' => msg_eqb m m'
  | OExit x, OExit y => N.eqb x y
  | OFail w k, OFail w' k' => fkind_eqb w w' && key_eqb k k'
  | _, _ => false
  end.

Fixpoint strip_prefix (p s : bytes) : option bytes :=
  match p, s with
  | [], _ => Some s
  | a :: p', b :: s' => if N.eqb a b then strip_prefix p' s' else None
  | _ :: _, [] => None
  end.

(* consume the model's operations from the front of the observed trace; an observed
   write may be the concatenation of several consecutive model writes to the same file
   (the tracer-side projection merges adjacent writes, e.g. body and newline) *)
Fixpoint consume (mops : list op) (obs : list op) : option (list op) :=
  match mops with
  | [] => Some obs
  | OWrite k c :: r =>
      match snd c with
      | [] => consume r obs
      | _ =>
        match obs with
        | OWrite k' c' :: obs' =>
            if key_eqb k k' then
              match strip_prefix (snd c) (snd c') with
              | Some [] => consume r obs'
              | Some rest => consume r (OWrite k' (None, rest) :: obs')
              | None => None
              end
            else None
        | _ => None
        end
      end
  | OClose _ :: r => consume r obs        (* close(2) is not observed (no effect on contents) *)
  | o :: r =>
      match obs with
      | o' :: obs' => if op_eqb o o' then consume r obs' else None
      | [] => None
      end
  end.

(* the observed trace ends inside the model's operations [mops] (the process exited while
   the router was still working): everything observed is a prefix of them *)
Fixpoint cut_ok (mops : list op) (obs : list op) : bool :=
  match obs with
  | [] => true
  | o' :: obs' =>
      match mops with
      | [] => false
      | OClose _ :: r => cut_ok r obs
      | OWrite k c :: r =>
          match snd c with
          | [] => cut_ok r obs
          | _ =>
            match o' with
            | OWrite k' c' =>
                if key_eqb k k' then
                  match strip_prefix (snd c) (snd c') with
                  | Some [] => cut_ok r obs'
                  | Some rest => cut_ok r (OWrite k' (None, rest) :: obs')
                  | None => prefixb (snd c') (snd c) && match obs' with [] => true | _ => false end
                  end
                else false
            | _ => false
            end
          end
      | o :: r => if op_eqb o o' then cut_ok r obs' else false
      end
  end.

Definition new_ops (s s' : st) : list op :=
  rev (firstn (length (rtrace s') - length (rtrace s)) (rtrace s')).

(* Explain the observed trace by the scripted events, allowing the sync ticker to fire
   (a Tick event with visible effect) before any of them and at the end. *)
Fixpoint explain (fuel : nat) (c : cfg) (ticks : bool) (s : st) (now : Z) (evs : list event) (obs : list op)
  : option st :=
  match fuel with
  | O => None
  | S f =>
      let direct :=
        match evs with
        | [] => match obs with [] => Some s | _ => None end
        | e :: r =>
            let s' := step c s e in
            let now' := match e with Msg _ t _ => t | Tick t => t | _ => now end in
            match consume (new_ops s s') obs with
            | Some obs' => explain f c ticks s' now' r obs'
            | None => None
            end
        end in
      match direct with
      | Some x => Some x
      | None =>
          if ticks then
            let s' := step c s (Tick now) in
            match new_ops s s' with
            | [] => None
            | ops => match consume ops obs with
                     | Some obs' => explain f c ticks s' now evs obs'
                     | None =>
                         (* at the very end the process may exit in the middle of a tick *)
                         match evs with
                         | [] => if cut_ok ops obs then Some s else None
                         | _ => None
                         end
                     end
            end
          else None
      end
  end.

(* ---------- cases ---------- *)
Inductive jev :=
| JMsg (id : N) (body : bytes) (t : Z)
| JHup
| JTouch (k : key) (b : bytes)            (* another process creates an output-dir file *)
| JTerm.                                  (* close(termChan), then the consumer's StopChan closes *)

Definition jev_events (e : jev) : list event :=
  match e with
  | JMsg id body t => [Msg (id, body) t false]     (* no connections in-process: IsStarved() = false *)
  | JHup => [Hup]
  | JTouch k b => [External k b]
  | JTerm => [Term; Stopped]
  end.

Fixpoint dt_lookup (tbl : list (Z * bytes)) (t : Z) : bytes :=
  match tbl with
  | [] => []
  | (t', d) :: r => if Z.eqb t t' then d else dt_lookup r t
  end.

Definition mk_fs (pre : list (key * bytes)) : fsT :=
  map (fun kb => (fst kb, mkFile [(None, snd kb)] [])) pre.

Record run_case := mkRun {
  r_gzip : bool; r_rsize : Z; r_rint : Z; r_work : bool; r_skip : bool; r_mif : nat;
  r_fmt : bytes;                          (* f.filenameFormat as computed by the real code *)
  r_dts : list (Z * bytes);               (* clock reading -> strftime rendering, as observed *)
  r_ticks : bool;                         (* the sync ticker may fire during this run *)
  r_faults : list (fkind * N * nat);      (* the injected failure in the model's terms: (kind, ordinal of the
                                             call among the logger's calls of that kind, bytes of the line
                                             written before a failing message write).  Empty: no call failed.
                                             Several candidates when the observation cannot tell them apart
                                             (gzip: a failing write(2) belongs to the Write of the current
                                             message or to the next gzipWriter.Close) *)
  r_pre : list (key * bytes);             (* pre-existing files *)
  r_events : list jev;
  r_obs : list op;                        (* observed file operations and FINs, in syscall order *)
  r_exit : N;                             (* process exit code *)
  r_final : option (bytes * N * Z)        (* f.filename, f.rev, f.filesize after the last event *)
}.

Definition status_code (x : status) : N :=
  match x with Running => 0 | Exited => 0 | Fatal => 1 | Panicked => 2 | Hung => 9 end.

Definition agree_with (r : run_case) (flt : option (fkind * N * nat)) : bool :=
  let c := mkCfg (r_gzip r) (r_rsize r) (r_rint r) (r_work r) (r_skip r) (r_mif r) (r_fmt r)
                 (dt_lookup (r_dts r))
                 (fun w n => match flt with
                             | Some (w', n', _) => fkind_eqb w w' && N.eqb n n'
                             | None => false
                             end)
                 (fun _ => match flt with Some (_, _, j) => j | None => O end) in
  let fs0 := mk_fs (r_pre r) in
  let evs := flat_map jev_events (r_events r) in
  let fuel := S (S (length evs + length (r_obs r))) in
    match explain fuel c (r_ticks r) (init fs0) 0%Z evs (r_obs r) with
    | Some s =>
        N.eqb (status_code (status_ s)) (r_exit r) &&
        match r_final r with
        | Some (fn, rv, sz) =>
            if running s then bytes_eqb (filename s) fn && N.eqb (rev_ s) rv && Z.eqb (size s) sz else true
        | None => true
        end
    | None => false
    end.

Definition judge_run (r : run_case) : N :=
  let agree :=
    match r_faults r with
    | [] => agree_with r None
    | l => existsb (fun f => agree_with r (Some f)) l
    end in
  (* the property itself on what the implementation did: every FIN of a message whose line is
     not in the durable (fsynced, gzip: completed-member) content of a file is a violation -- in
     particular a FIN after a failed fsync / write / gzip close of its batch *)
  let monitor := monitor_trace (mk_fs (r_pre r)) (r_obs r) in
  verdict agree monitor.

Record fmt_case := mkFmt {
  m_gzip : bool; m_rsize : Z; m_rint : Z; m_work : bool;
  m_fmt : bytes; m_topic : bytes; m_ident : bytes; m_pid : bytes;
  m_got : option bytes
}.

Definition opt_bytes_eqb (a b : option bytes) : bool :=
  match a, b with Some x, Some y => bytes_eqb x y | None, None => true | _, _ => false end.

Definition judge_fmt (m : fmt_case) : N :=
  let model := compute_fname_fmt (m_gzip m) (m_rsize m) (m_rint m) (m_work m) (m_fmt m) (m_topic m) (m_ident m) (m_pid m) in
  (* property side: whenever exclusive creation or a rev bump can be needed, the name has a <REV> slot *)
  let monitor :=
    match m_got m with
    | Some f => if m_gzip m || (0 <? m_rsize m)%Z || (0 <? m_rint m)%Z || m_work m then infixb REV f else true
    | None => true
    end in
  verdict (opt_bytes_eqb model (m_got m)) monitor.

(* black box: [b_done] = bodies of the messages the channel no longer owes (published minus
   what a drain of the channel still delivered), [b_files] = decompressible contents of all
   files found in the output and work directories after the stop, [b_pre] = the files that
   existed before, with their contents, [b_post] = the same names after the run. *)
Record black_case := mkBlack {
  b_done : list bytes;
  b_files : list bytes;
  b_pre : list (bytes * bytes);
  b_post : list (bytes * bytes)
}.

(* the complete (newline-terminated) lines of a file *)
Fixpoint lines_of (s : bytes) (cur : bytes) : list bytes :=
  match s with
  | [] => []
  | b :: r => if N.eqb b 10 then rev cur :: lines_of r [] else lines_of r (b :: cur)
  end.

Definition in_some_file (ls : list bytes) (body : bytes) : bool :=
  existsb (bytes_eqb body) ls.

Fixpoint assoc_bytes (l : list (bytes * bytes)) (k : bytes) : option bytes :=
  match l with
  | [] => None
  | (k', v) :: r => if bytes_eqb k k' then Some v else assoc_bytes r k
  end.

Definition judge_black (b : black_case) : N :=
  let ls := flat_map (fun f => lines_of f []) (b_files b) in
  let m1 := forallb (in_some_file ls) (b_done b) in
  let m2 := forallb (fun kv => match assoc_bytes (b_post b) (fst kv) with
                               | Some v => prefixb (snd kv) v
                               | None => false end) (b_pre b) in
  verdict true (m1 && m2).

(* one evaluation of the real strftime() in UTC; formats outside the modelled class
   (alphanumeric literal characters) are only recorded *)
Record strf_case := mkStrf { s_fmt : bytes; s_t : Z; s_got : bytes }.

Definition judge_strf (x : strf_case) : N :=
  verdict (match strftime (s_fmt x) (s_t x) with Some y => bytes_eqb y (s_got x) | None => true end) true.

Inductive case :=
| Strf (x : strf_case)
| Run (r : run_case)
| Fmt (m : fmt_case)
| Black (b : black_case).

Definition judge (c : case) : N :=
  match c with
  | Strf x => judge_strf x
  | Run r => judge_run r
  | Fmt m => judge_fmt m
  | Black b => judge_black b
  end.
