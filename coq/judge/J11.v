(* Correspondence judge for C11 (TLS-required and AUTH gates).  No proofs here.

   A [Conn] case is one real nsqd (fresh data directory, the recorded options), a stub
   auth server that serves [script] one answer per request, and a list of connections
   run one after the other.  A connection is a list of groups; a group is a short list of
   commands written together (a responding command alone, or a silent NOP/RDY followed
   by a barrier command), the frames read back, whether the server closed the connection,
   the requests the stub logged while the group ran, and the daemon's topics/channels as
   GetStats shows them afterwards.  All commands of a group execute at the clock reading
   [now] (milliseconds; the driver moves the daemon's view of the cached answer's expiry
   by the same amounts).

   agree   : the model, run on the same commands, oracle stream and clock, predicts exactly
             the recorded frames, closure, auth queries and daemon state.
   monitor : the property itself, on the recording alone. *)
From Coq Require Import List NArith ZArith Bool.
From NSQV Require Import model.Judge model.Names model.Gate model.GateRe model.GateHttp.
Import ListNotations.
Open Scope bool_scope.

Inductive oframe :=
| OOk | OCloseWait
| OIdent (tls_v1 auth_required : bool)
| OAuthOk (permission_count : N)
| OErr (c : ecode)
| OTlsFail          (* the TLS handshake did not complete; the connection is dead *)
| OOther.

Inductive group :=
  G (now : Z) (cmds : list cmd) (frames : list oframe) (closed : bool)
    (queries : list (str * bool * ccert))         (* (secret, tls, common_name) of each request the stub received;
                                                     the common name as the certificate that carries it *)
    (topics : list (str * N))                     (* topic, message_count *)
    (chans : list (str * str * N)).               (* topic, channel, client_count *)

(* how a probe reaches the daemon: one of its two HTTP listeners, or the in-process API
   (GetTopic / GetChannel / PutMessage: the driver's way to give a daemon some state when
   no listener would serve a request) *)
Inductive via := Via (l : listener) | Direct.
(* status 0: the daemon has no such listener (nothing was sent) *)
Inductive probe := Probe (v : via) (q : hreq) (status : N) (topics : list (str * N)) (chans : list (str * str * N)).

Inductive case :=
| Conn (raw : config) (script : list answer) (conns : list (list group))
| Http (raw : config) (ad : addrs) (has_plain has_https : bool) (probes : list probe)
       (* the listeners the daemon reports (RealHTTPAddr / RealHTTPSAddr have a port) *)
| Start (raw : config) (ad : addrs) (started : bool) (has_plain has_https : bool).

(* ------------------------------------------------------------------ comparison helpers *)
Definition ecode_b := ecode_eqb.
Definition oframe_eqb (a b : oframe) : bool :=
  match a, b with
  | OOk, OOk | OCloseWait, OCloseWait | OTlsFail, OTlsFail | OOther, OOther => true
  | OIdent a1 a2, OIdent b1 b2 => Bool.eqb a1 b1 && Bool.eqb a2 b2
  | OAuthOk n, OAuthOk m => N.eqb n m
  | OErr c, OErr d => ecode_b c d
  | _, _ => false
  end.

Definition of_resp (r : resp) : oframe :=
  match r with
  | ROk => OOk | RCloseWait => OCloseWait | RIdent a b => OIdent a b | RAuthOk n => OAuthOk n
  | RErr c _ => OErr c
  end.
(* a refused upgrade is written in the clear to a peer that is speaking TLS: the client
   sees a failed handshake, not a frame *)
Definition frames_of (rs : list resp) : list oframe :=
  match rs with
  | [RIdent true a; RErr E_IDENTIFY_FAILED true] => [OIdent true a; OTlsFail]
  | _ => map of_resp rs
  end.

Definition topic_eqb (a b : str * N) : bool := str_eqb (fst a) (fst b) && N.eqb (snd a) (snd b).
Definition chan_eqb (with_clients : bool) (a b : str * str * N) : bool :=
  match a, b with
  | (t, c, n), (t', c', n') => str_eqb t t' && str_eqb c c' && (negb with_clients || N.eqb n n')
  end.
Definition same_set {A : Type} (eqb : A -> A -> bool) (x y : list A) : bool :=
  Nat.eqb (length x) (length y) && forallb (fun a => existsb (eqb a) y) x && forallb (fun b => existsb (eqb b) x) y.

Definition world_agrees (with_clients : bool) (w : world) (topics : list (str * N)) (chans : list (str * str * N)) : bool :=
  same_set topic_eqb (w_topics w) topics && same_set (chan_eqb with_clients) (w_chans w) chans.

Definition query_eqb (a b : str * bool * ccert) : bool :=
  match a, b with (s, t, c), (s', t', c') => str_eqb s s' && Bool.eqb t t' && ccert_eqb c c' end.
Definition queries_of (fx : list effect) : list (str * bool * ccert) :=
  flat_map (fun f => match f with FxAuthQuery s t c => [(s, t, c)] | _ => [] end) fx.

(* ------------------------------------------------------------------ agree: the model on the same input *)
Definition mrun := Gate.run kp_match kp_ok.

Fixpoint agree_groups (cfg : config) (k : conn) (o : oracle) (w : world) (gs : list group) : bool * oracle * world :=
  match gs with
  | [] => (true, o, w)
  | G now cmds frames closed qs topics chans :: rest =>
      let '(es, k', o') := mrun cfg k o (map (fun c => (now, c)) cmds) in
      let fx := flat_map (e_fx) es in
      let w' := apply_fxs w fx in
      let m_frames := flat_map (fun e => frames_of (e_resps e)) es in
      let m_closed := existsb (fun e => closes (e_resps e)) es in
      let ok :=
        list_eqb oframe_eqb m_frames frames && Bool.eqb m_closed closed &&
        list_eqb query_eqb (queries_of fx) qs &&
        world_agrees (negb closed) w' topics chans &&
        (negb closed || is_nil rest) in
      if ok then
        (if closed then (true, o', w') else agree_groups cfg k' o' w' rest)
      else (false, o', w')
  end.

Fixpoint agree_conns (cfg : config) (o : oracle) (w : world) (cs : list (list group)) : bool :=
  match cs with
  | [] => true
  | gs :: rest =>
      let '(ok, o', w') := agree_groups cfg conn_init o (drop_clients w) gs in
      ok && agree_conns cfg o' w' rest
  end.

(* ------------------------------------------------------------------ monitor: the property on the recording *)
Definition is_ident_cmd := is_identify.

Definition last_frame (fs : list oframe) : option oframe := last (map Some fs) None.

Definition has_denial_frame (fs : list oframe) : bool :=
  existsb (fun f => match f with OErr c => is_denial c | _ => false end) fs.

Definition did_upgrade (fs : list oframe) : bool :=
  match fs with OIdent true _ :: OOk :: _ => true | _ => false end.

(* the daemon's visible state did not move, clients aside when the connection closed *)
Definition unchanged (with_clients : bool) (pt : list (str * N)) (pc : list (str * str * N))
                     (t : list (str * N)) (c : list (str * str * N)) : bool :=
  same_set topic_eqb pt t && same_set (chan_eqb with_clients) pc c.

(* what moved stays within topic [t] / channel [ch] (clients may leave any channel: a
   connection that closes is removed from the channel it consumed) *)
Definition confined (t ch : str) (pt : list (str * N)) (pc : list (str * str * N))
                    (nt : list (str * N)) (nc : list (str * str * N)) : bool :=
  forallb (fun x => existsb (topic_eqb x) pt || str_eqb (fst x) t) nt &&
  forallb (fun x => existsb (fun y => chan_eqb false x y && (snd x <=? snd y)%N) pc ||
                    match x with (t', c', _) => str_eqb t' t && str_eqb c' ch end) nc.

(* the answers the stub served for the [q] requests of a group, starting at stream position [o] *)
Fixpoint served (q : nat) (now : Z) (o : oracle) (acc : option auth_state) : option auth_state * oracle :=
  match q with
  | O => (acc, o)
  | S m => let (a, o') := next_answer o in
           served m now o' (match query_one kp_ok now a with Some s => Some s | None => acc end)
  end.

Record mstate := mkM {
  m_up : bool;                      (* this connection completed a TLS handshake *)
  m_authed : bool;                  (* this connection received the AUTH success document *)
  m_cached : option auth_state;     (* last valid answer the stub served to this connection *)
  m_oracle : oracle;
  m_topics : list (str * N);
  m_chans : list (str * str * N)
}.

Definition last_demand (cmds : list cmd) : option (str * str) :=
  fold_left (fun acc c => match demand c with Some d => Some d | None => acc end) cmds None.

Definition monitor_group (cfg : config) (m : mstate) (g : group) (is_last : bool) : bool * mstate :=
  match g with
  | G now cmds frames closed qs topics chans =>
      let same := unchanged (negb closed) (m_topics m) (m_chans m) topics chans in
      let q := length qs in
      let '(fresh, o') := served q now (m_oracle m) None in
      let tls_needed := negb (tls_req_eqb (c_tls_required cfg) TlsNotRequired) in
      (* TLS gate *)
      let r1 :=
        if tls_needed && negb (m_up m) && existsb (fun c => negb (is_ident_cmd c)) cmds then
          same && is_nil qs && closed &&
          match last_frame frames with Some (OErr E_INVALID) => true | _ => false end
        else true in
      (* a denial is final and leaves no trace *)
      let r2 :=
        if has_denial_frame frames then
          same && closed && is_last &&
          match last_frame frames with Some (OErr c) => is_denial c | _ => false end
        else true in
      (* AUTH gate *)
      let r3 :=
        if auth_enabled cfg && negb same then
          m_authed m &&
          match last_demand cmds with
          | None => false
          | Some (t, ch) =>
              confined t ch (m_topics m) (m_chans m) topics chans &&
              match fresh with
              | Some a => state_is_allowed kp_match a t ch         (* re-fetched by this very command *)
              | None =>
                  match m_cached m with
                  | Some a => negb (is_expired a now) && state_is_allowed kp_match a t ch
                  | None => false
                  end
              end
          end
        else true in
      (* every request the stub saw carries the connection's real TLS status *)
      let r4 := forallb (fun x => Bool.eqb (snd (fst x)) (m_up m)) qs in
      let m' := mkM (m_up m || did_upgrade frames)
                    (m_authed m || existsb (fun f => match f with OAuthOk _ => true | _ => false end) frames)
                    (match fresh with Some a => Some a | None => m_cached m end)
                    o' topics chans in
      (r1 && r2 && r3 && r4, m')
  end.

Fixpoint monitor_groups (cfg : config) (m : mstate) (gs : list group) : bool * mstate :=
  match gs with
  | [] => (true, m)
  | g :: rest =>
      let '(ok, m') := monitor_group cfg m g (is_nil rest) in
      let '(ok', m'') := monitor_groups cfg m' rest in
      (ok && ok', m'')
  end.

Fixpoint monitor_conns (cfg : config) (o : oracle) (t : list (str * N)) (c : list (str * str * N))
                       (cs : list (list group)) : bool :=
  match cs with
  | [] => true
  | gs :: rest =>
      let c0 := map (fun x => match x with (a, b, _) => (a, b, 0%N) end) c in
      let '(ok, m) := monitor_groups cfg (mkM false false None o t c0) gs in
      ok && monitor_conns cfg (m_oracle m) (m_topics m) (m_chans m) rest
  end.

(* ------------------------------------------------------------------ HTTP probes *)
(* the in-process calls: GetTopic(t) / GetTopic(t).PutMessage / GetTopic(t).GetChannel(c) *)
Definition direct_step (w : world) (q : hreq) : world :=
  match q with
  | HCreateTopic t => mkW (topic_touch t 0 (w_topics w)) (w_chans w)
  | HPub t => mkW (topic_touch t 1 (w_topics w)) (w_chans w)
  | HCreateChannel t c => mkW (topic_touch t 0 (w_topics w)) (chan_touch t c 0 (w_chans w))
  | _ => w
  end.

Definition probe_model (cfg : config) (ad : addrs) (w : world) (p : probe) : N * world :=
  match p with
  | Probe (Via l) q _ _ _ =>
      match http_exchange cfg ad l w q with
      | Some r => r
      | None => (0%N, w)
      end
  | Probe Direct q _ _ _ => (200%N, direct_step w q)
  end.

Fixpoint http_agree (cfg : config) (ad : addrs) (w : world) (ps : list probe) : bool :=
  match ps with
  | [] => true
  | (Probe _ _ status topics chans as p) :: rest =>
      let '(st, w') := probe_model cfg ad w p in
      N.eqb st status && world_agrees true w' topics chans && http_agree cfg ad w' rest
  end.

(* the property on the recording alone: with TLS required every plaintext request, of
   whatever endpoint, is answered 403 (or there is no plaintext listener at all) and the
   daemon's topics, message counts and channels are what they were before it; nothing else
   is ever answered 403 *)
Fixpoint http_monitor (cfg : config) (t : list (str * N)) (c : list (str * str * N)) (ps : list probe) : bool :=
  match ps with
  | [] => true
  | Probe v q status topics chans :: rest =>
      (match v, c_tls_required cfg with
       | Via Plain, TlsRequired => (N.eqb status 403 || N.eqb status 0) && unchanged true t c topics chans
       | Via _, _ => negb (N.eqb status 403) && (negb (N.eqb status 0) || unchanged true t c topics chans)
       | Direct, _ => true
       end) && http_monitor cfg topics chans rest
  end.

(* ------------------------------------------------------------------ *)
Definition judge (c : case) : N :=
  match c with
  | Conn raw script conns =>
      match startup raw with
      | None => verdict false true
      | Some cfg =>
          verdict (agree_conns cfg script world_empty conns)
                  (monitor_conns cfg script [] [] conns)
      end
  | Http raw ad hp hs probes =>
      match startup raw with
      | None => verdict false true
      | Some cfg => verdict (Bool.eqb hp (plain_listens cfg ad) && Bool.eqb hs (https_listens cfg ad) &&
                             http_agree cfg ad world_empty probes)
                            (http_monitor cfg [] [] probes)
      end
  | Start raw ad started hp hs =>
      let ok := match startup raw with
                | Some cfg => started && Bool.eqb hp (plain_listens cfg ad) && Bool.eqb hs (https_listens cfg ad)
                | None => negb started
                end in
      verdict ok ok
  end.
