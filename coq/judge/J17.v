(* Correspondence judge for C17: one case = one request sent to the real nsqadmin
   (in-process, real listener or the real router with a synthetic RemoteAddr; or the real
   apps/nsqadmin binary started with command-line flags and / or a --config file; or an
   in-process nsqadmin whose upstream addresses have been changed at run time by a history of
   /config requests) in front of recording stub nsqd / nsqlookupd upstreams.  No proofs here. *)
From Coq Require Import String List NArith Bool.
From NSQV Require Import model.Judge model.Names gen.AdminRoutes gen.AdminOptTable model.Admin model.AdminCfg model.AdminReconf.
Import ListNotations.
Open Scope list_scope.
Open Scope N_scope.

Record rcase := mk {
  c_admins : list bytes;        (* --admin-user *)
  c_header : bytes;             (* --acl-http-header *)
  c_cidr : option cidr;         (* --allow-config-from-cidr, None = "" *)
  c_world : world;              (* the stubs' configuration for the request's topic / node *)
  c_dead : list bytes;          (* upstream addresses where nothing listens: requests to them cannot be recorded *)
  c_method : string;
  c_path : string;              (* route pattern the concrete path instantiates *)
  c_wire : bool;                (* sent over a real connection (server canonicalises / trims) *)
  c_sent : headers;             (* header lines sent, resp. entries put into req.Header *)
  c_remote : option ipaddr;     (* client address as a number, None = unparsable RemoteAddr *)
  c_topic : bytes; c_channel : bytes; c_node : bytes;
  c_body : body; c_opt : optname; c_put : putbody;
  (* what the implementation did *)
  r_status : N;
  r_warn : bool;                (* the reply's "message" is non-empty *)
  r_calls : list ucall;         (* every request the stubs received while it was handled *)
  r_swapped : bool              (* the option's value read back differs from before *)
}.

Definition count_call (x : ucall) (l : list ucall) : nat := length (filter (ucall_eqb x) l).
Definition same_calls (a b : list ucall) : bool :=
  Nat.eqb (length a) (length b) && forallb (fun x => Nat.eqb (count_call x a) (count_call x b)) a.
Definition mem_call (x : ucall) (l : list ucall) : bool := existsb (ucall_eqb x) l.
Definition is_post_call (c : ucall) : bool := match uc_kind c with UPost => true | UGet => false end.

(* ---- the property, stated on the observation alone *)

(* the state-changing requests C17 names: create, delete, empty/pause/unpause, tombstone *)
Definition spec_state_changing (m p : string) : bool :=
  (String.eqb m "POST" && (String.eqb p "/api/topics" || String.eqb p "/api/topics/:topic" || String.eqb p "/api/topics/:topic/:channel"))
  || (String.eqb m "DELETE" && (String.eqb p "/api/topics/:topic" || String.eqb p "/api/topics/:topic/:channel" || String.eqb p "/api/nodes/:node")).

Definition is_config (p : string) : bool := String.eqb p "/config/:opt".

(* inside the CIDR, by comparing the addresses shifted down to their prefix *)
Definition norm_ip (x : ipaddr) : ipaddr :=
  match x with
  | IP6 a => if (a / 4294967296 =? 65535) then IP4 (a mod 4294967296) else x
  | _ => x
  end.
Definition spec_inside (c : cidr) (ip : ipaddr) : bool :=
  match c, norm_ip ip with
  | C4 a p, IP4 x => (a / 2 ^ (32 - p) =? x / 2 ^ (32 - p))
  | C6 a p, IP6 x =>
      (* a network that is itself IPv4-mapped after masking only holds IPv4 clients *)
      negb (a / 2 ^ (128 - p) * 2 ^ (128 - p) / 4294967296 =? 65535) && (a / 2 ^ (128 - p) =? x / 2 ^ (128 - p))
  | C6 a p, IP4 x =>
      (a / 2 ^ (128 - p) * 2 ^ (128 - p) / 4294967296 =? 65535) &&
      (if 96 <=? p then (a mod 4294967296) / 2 ^ (128 - p) =? x / 2 ^ (128 - p) else true)
  | _, _ => false
  end.

(* POSTs the action must reach: the relevant nsqlookupds and every producer listed by an
   answering nsqlookupd (resp. every configured nsqd that has the topic) *)
Definition spec_producers (w : world) : list bytes :=
  match w_lookupds w with
  | [] => flat_map nsqd_producer (w_nsqds w)
  | ups => flat_map (fun x => match snd x with LProducers ps => ps | LFail => [] end) ups
  end.
Definition spec_lookupds (w : world) : list bytes := map fst (w_lookupds w).

Definition bytes_pause : bytes := [112;97;117;115;101].
Definition bytes_unpause : bytes := [117;110;112;97;117;115;101].
Definition bytes_empty : bytes := [101;109;112;116;121].

Definition required_posts (c : rcase) : list ucall :=
  let w := c_world c in
  let t := c_topic c in let ch := c_channel c in
  let on (addrs : list bytes) (uri : string) (tp chn nd : bytes) := map (fun ad => mkCall UPost ad uri tp chn nd) addrs in
  let m := c_method c in let p := c_path c in
  if String.eqb m "DELETE" && String.eqb p "/api/topics/:topic" then
    on (spec_lookupds w) "topic/delete" t [] [] ++ on (spec_producers w) "topic/delete" t [] []
  else if String.eqb m "DELETE" && String.eqb p "/api/topics/:topic/:channel" then
    on (spec_lookupds w) "channel/delete" t ch [] ++ on (spec_producers w) "channel/delete" t ch []
  else if String.eqb m "DELETE" && String.eqb p "/api/nodes/:node" then
    on (spec_lookupds w) "topic/tombstone" (body_topic (c_body c)) [] (c_node c) ++
    match w_node w with NodeOk b pt => [mkCall UPost (join_host_port b pt) "topic/delete" (body_topic (c_body c)) [] []] | _ => [] end
  else if String.eqb m "POST" && String.eqb p "/api/topics" then
    let bt := body_topic (c_body c) in let bc := body_channel (c_body c) in
    on (spec_lookupds w) "topic/create" bt [] [] ++
    match bc with
    | [] => []
    | _ => on (spec_lookupds w) "channel/create" bt bc [] ++
           on (flat_map (fun x => match snd x with LProducers ps => ps | LFail => [] end) (w_lookupds w)) "channel/create" bt bc []
    end
  else if String.eqb m "POST" && (String.eqb p "/api/topics/:topic" || String.eqb p "/api/topics/:topic/:channel") then
    let act := body_action (c_body c) in
    let what := match ch with [] => "topic/"%string | _ => "channel/"%string end in
    let verb := if bytes_eqb act bytes_pause then "pause"%string else if bytes_eqb act bytes_unpause then "unpause"%string
                else if bytes_eqb act bytes_empty then "empty"%string else "?"%string in
    on (spec_producers w) (what ++ verb)%string t ch []
  else [].

Definition stored_headers (c : rcase) : headers := if c_wire c then wire_headers (c_sent c) else c_sent c.

(* the identity the request carries: first value under the ACL header's canonical name *)
Definition case_identity (c : rcase) : bytes := header_get (stored_headers c) (c_header c).
Definition has_admin_identity (c : rcase) : bool :=
  match c_admins c with [] => true | l => existsb (bytes_eqb (case_identity c)) l end.

Definition alive (c : rcase) (x : ucall) : bool := negb (existsb (bytes_eqb (uc_addr x)) (c_dead c)).

Definition monitor_r (c : rcase) : bool :=
  let sc := spec_state_changing (c_method c) (c_path c) in
  let posts := filter is_post_call (r_calls c) in
  (* the request was answered at all (status 0 = no nsqadmin there to answer) *)
  negb (r_status c =? 0) &&
  (* without an admin identity: 403 and no upstream request at all; never a POST, on any route *)
  (if negb (has_admin_identity c) then
     (if sc then (r_status c =? 403) && match r_calls c with [] => true | _ => false end else true) &&
     match posts with [] => true | _ => false end
   else true) &&
  (* with an admin identity, or with no admin list, the action is not refused for the identity *)
  (if has_admin_identity c && sc then negb (r_status c =? 403) else true) &&
  (* read-only views stay available *)
  (if String.eqb (c_method c) "GET" && negb (is_config (c_path c)) then negb (r_status c =? 403) else true) &&
  (* /config only from the allowed CIDR *)
  (if is_config (c_path c) && (String.eqb (c_method c) "GET" || String.eqb (c_method c) "PUT") then
     match c_cidr c, c_remote c with
     | None, _ => negb (r_status c =? 403)
     | Some cd, Some ip => if spec_inside cd ip then negb (r_status c =? 403)
                           else (r_status c =? 403) && negb (r_swapped c)
     | Some _, None => negb (r_status c =? 200) && negb (r_swapped c)
     end
   else true) &&
  (* with an admin identity (or no list) a successful action reached every relevant upstream,
     and nothing else was POSTed to *)
  (if has_admin_identity c && sc && (r_status c =? 200) then
     let req := filter (alive c) (required_posts c) in
     forallb (fun x => mem_call x posts) req && forallb (fun x => mem_call x req) posts
   else true).

(* ---- agreement with the model *)
Definition agree_r (c : rcase) : bool :=
  let cfg := mkCfg (c_admins c) (c_header c) (c_cidr c) in
  let rq := mkReq (c_method c) (stored_headers c) (c_remote c) (c_topic c) (c_channel c) (c_node c)
                  (c_body c) (c_opt c) (c_put c) in
  let o := handle cfg (c_world c) plain_routes (c_path c) rq in
  match find_route plain_routes (c_method c) (c_path c) with
  | RHandler r =>
      if state_changing r then
        (o_status o =? r_status c) && Bool.eqb (o_warn o) (r_warn c) &&
        same_calls (filter (alive c) (o_calls o)) (r_calls c) && Bool.eqb (o_swapped o) (r_swapped c)
      else
        (* read-only handlers: their views are C18's; here only that the model's "never 403,
           never a POST" holds of the implementation *)
        negb (r_status c =? 403) && negb (existsb is_post_call (r_calls c)) && negb (r_swapped c)
  | _ => (o_status o =? r_status c) && match r_calls c with [] => true | _ => false end
  end.

(* ---- requests to an nsqadmin started from a launch (flags and / or config file) *)

(* one /config request of a history, with what the implementation did: its status, and the
   nsqlookupd list read back (GET /config/nsqlookupd_http_addresses from an allowed address)
   after it *)
Record ostep := mkOStep { os_req : cfgreq; os_status : N; os_after : list bytes }.

Inductive case :=
| CReq (r : rcase)
  (* [r]'s c_admins / c_header / c_cidr are placeholders; its c_world lists EVERY stub with its
     answer: the configuration is what the launch says *)
| CLaunch (l : launch) (cp : cidr_table) (r : rcase)
  (* nsqadmin started with the nsqlookupd list [l0] and the nsqd list [n0] (admin list, header
     name and CIDR as [r] states them); then the /config requests [steps], in order; then the
     request [r], whose c_world lists EVERY stub with its answer: which of them are in force
     when [r] arrives is worked out from the history *)
| CReconf (l0 n0 : list bytes) (steps : list ostep) (r : rcase).

Definition with_cfg (r : rcase) (admins : list bytes) (header : bytes) (cd : option cidr)
                    (lookupds nsqds : list bytes) : rcase :=
  let w := c_world r in
  mk admins header cd
     (mkWorld (pick LFail (w_lookupds w) lookupds) (pick NFail (w_nsqds w) nsqds) (w_node w) (w_post_fail w))
     (c_dead r) (c_method r) (c_path r) (c_wire r) (c_sent r) (c_remote r)
     (c_topic r) (c_channel r) (c_node r) (c_body r) (c_opt r) (c_put r)
     (r_status r) (r_warn r) (r_calls r) (r_swapped r).

(* the property, for the configuration the operator wrote with the DOCUMENTED flags and keys
   (AdminCfg.spec_config: command line over config file over default; it does not look at the
   tables regenerated from the source).  A launch that is not a valid configuration (no
   address list, both, unparsable CIDR) promises nothing *)
(* ---- a history of /config requests, on the observation alone.  "/config can be written only
   from the allowed CIDR": a request from outside is answered 403 (400 for an address that is no
   address) and leaves the list as it was; what an operator inside has written with a PUT that
   was answered 200 is what /config holds from then on -- and is the list of nsqlookupds the
   actions that follow are about ("every relevant nsqd and nsqlookupd") *)
Definition spec_allowed (cd : option cidr) (remote : option ipaddr) : bool :=
  match cd, remote with
  | None, _ => true
  | Some c, Some ip => spec_inside c ip
  | Some _, None => false
  end.

Definition is_lookupd_opt (o : optname) : bool := match o with OptLookupdAddrs => true | _ => false end.

Fixpoint monitor_steps (cd : option cidr) (lk : list bytes) (steps : list ostep) : bool * list bytes :=
  match steps with
  | [] => (true, lk)
  | s :: rest =>
      let q := os_req s in
      let allowed := spec_allowed cd (q_remote q) in
      let written := q_put q && is_lookupd_opt (q_opt q) && (os_status s =? 200) in
      let lk' := if written then (match q_body q with PutValid => q_value q | _ => os_after s end) else lk in
      let ok :=
        (if allowed then negb (os_status s =? 403)
         else negb (os_status s =? 200) &&
              match cd, q_remote q with Some _, Some _ => os_status s =? 403 | _, _ => true end) &&
        list_eqb bytes_eqb (os_after s) lk' in
      let '(b, l) := monitor_steps cd lk' rest in
      (ok && b, l)
  end.

Definition monitor (c : case) : bool :=
  match c with
  | CReq r => monitor_r r
  | CLaunch l cp r =>
      let s := spec_config l in
      match startup cp s with
      | Some cfg => monitor_r (with_cfg r (cf_admins cfg) (cf_header cfg) (cf_cidr cfg) (rc_lookupds s) (rc_nsqds s))
      | None => true
      end
  | CReconf l0 n0 steps r =>
      let '(ok, lk) := monitor_steps (c_cidr r) l0 steps in
      ok && monitor_r (with_cfg r (c_admins r) (c_header r) (c_cidr r) lk n0)
  end.

(* the model of the history: doConfig's steps on every request, AdminReconf.apply_cfgreq *)
Fixpoint agree_steps (cfg : acfg) (ad : addrs) (steps : list ostep) : bool * addrs :=
  match steps with
  | [] => (true, ad)
  | s :: rest =>
      let o := cfgreq_outcome cfg plain_routes (os_req s) in
      let ad' := apply_cfgreq cfg plain_routes ad (os_req s) in
      let ok := (o_status o =? os_status s) && list_eqb bytes_eqb (os_after s) (ad_lookupds ad') in
      let '(b, a) := agree_steps cfg ad' rest in
      (ok && b, a)
  end.

(* the model: options.Resolve over the regenerated struct tags / flag set / defaults *)
Definition agree (c : case) : bool :=
  match c with
  | CReq r => agree_r r
  | CLaunch l cp r =>
      match launch_cfg admin_tables cp l with
      | Some (cfg, rc) => agree_r (with_cfg r (cf_admins cfg) (cf_header cfg) (cf_cidr cfg) (rc_lookupds rc) (rc_nsqds rc))
      | None => (r_status r =? 0) && match r_calls r with [] => true | _ => false end
      end
  | CReconf l0 n0 steps r =>
      let '(ok, ad) := agree_steps (mkCfg (c_admins r) (c_header r) (c_cidr r)) (mkAddrs l0 n0) steps in
      ok && agree_r (with_cfg r (c_admins r) (c_header r) (c_cidr r) (ad_lookupds ad) (ad_nsqds ad))
  end.

Definition judge (c : case) : N := verdict (agree c) (monitor c).
