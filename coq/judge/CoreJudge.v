(* Correspondence judge shared by the nsqd-core properties (C01, C02, C03, C05, C08,
   C13).  A case is a recorded trace of one real nsqd: external operations with the
   observed class of answer, the deliveries each consumer connection received, the
   ids each driven timeout scan re-queued, and /stats snapshots taken at quiescent
   points.

   [agree]   replays the trace through model/Core.v: every answer, every delivery
             (must be enabled, attempts must match), every scan's expired set and
             every snapshot must be what the model predicts, and the model must be
             quiescent where the implementation was.
   [monitor] evaluates the properties on the implementation's own trace with a
             ledger that does not use the model: one flag per property.
   No proofs here. *)
From Coq Require Import List NArith ZArith Bool.
From RecordUpdate Require Import RecordUpdate.
From NSQV Require Import model.Judge model.Core.
Import ListNotations.
Open Scope bool_scope.
Open Scope N_scope.

(* observed snapshot rows *)
Record csnap := mkCS { cs_id : N; cs_depth : N; cs_ifl : N; cs_dfr : N; cs_msgcount : N;
                       cs_requeue : N; cs_timeout : N; cs_paused : bool; cs_nclients : N }.
Record tsnap := mkTS { ts_id : N; ts_depth : N; ts_msgcount : N; ts_bytes : N; ts_paused : bool;
                       ts_chans : list csnap }.
Record ksnap := mkKS { ks_id : N; ks_rdy : Z; ks_ifl : Z; ks_fin : N; ks_req : N; ks_msgs : N }.

(* another rendering of /stats taken at the same quiescent moment: text form or JSON, with
   an optional topic filter and an optional channel filter; what a text line carries *)
Record lcs := mkLC { lc_id : N; lc_depth : N; lc_ifl : N; lc_dfr : N; lc_requeue : N; lc_timeout : N;
                     lc_msgcount : N; lc_paused : bool }.
Record lts := mkLT { lt_id : N; lt_depth : N; lt_msgcount : N; lt_paused : bool; lt_chans : list lcs }.

Inductive event :=
| EOp (o : op) (r : resp)
| EExpired (t c : N) (inflight : bool) (ids : list N)   (* what the preceding scan re-queued *)
| EClosed (k : N)                                       (* the server closed connection k *)
| ESnap (ts : list tsnap) (ks : list ksnap)
| EMeta (topics : list (N * list N))                    (* contents of nsqd.dat *)
| EView (tf cf : option N) (v : list lts)               (* /stats under filters / in text form, right after a snapshot *)
| EFiles (owners : list (N * list N))                   (* disk-queue files in the data path: topic id, and per topic 0 = the topic's own queue, c = channel c *)
| ERestart                                              (* graceful Exit, new daemon on the same data path *)
| EAcked (o : op) (r : resp)                            (* an operation answered while the daemon was already closing for the ERestart that follows *)
| EHung.                                                (* the daemon (or a request to it) stopped answering: the case was abandoned here *)

(* [hidden]: consumers whose counters are not compared (used by the forced-interleaving
   scenarios to look BEYOND a known finding that corrupts exactly those counters);
   [ignore]: ledger checks not evaluated for this case (same purpose) *)
Record case := mkCaseX { cfg : config; events : list event; hidden : list N; ignore : list N }.
Definition mkCase (cf : config) (evs : list event) : case := mkCaseX cf evs [] [].

(* ------------------------------------------------------------------ sorting helpers *)
Fixpoint insert_n (x : N) (l : list N) : list N :=
  match l with [] => [x] | y :: r => if x <=? y then x :: l else y :: insert_n x r end.
Definition sort_n (l : list N) : list N := fold_right insert_n [] l.
Definition nlist_eqb := list_eqb N.eqb.
Definition same_set (a b : list N) : bool := nlist_eqb (sort_n a) (sort_n b).
Definition mem_n (x : N) (l : list N) : bool := existsb (N.eqb x) l.

(* ------------------------------------------------------------------ agree: model replay *)
Definition resp_eqb (a b : resp) : bool :=
  match a, b with
  | ROk, ROk | RFailed, RFailed | RInvalid, RInvalid | RNotFound, RNotFound
  | RNotEnabled, RNotEnabled => true
  | RDelivered x, RDelivered y => x =? y
  | _, _ => false
  end.

Definition cs_of_chan (ch : chan) : csnap :=
  mkCS (c_id ch) (depth ch) (inflight_count ch) (deferred_count ch) (c_msgcount ch)
       (c_requeue ch) (c_timeout ch) (c_paused ch) (N.of_nat (length (c_clients ch))).

Definition cs_eqb (a b : csnap) : bool :=
  (cs_id a =? cs_id b) && (cs_depth a =? cs_depth b) && (cs_ifl a =? cs_ifl b) && (cs_dfr a =? cs_dfr b)
  && (cs_msgcount a =? cs_msgcount b) && (cs_requeue a =? cs_requeue b) && (cs_timeout a =? cs_timeout b)
  && Bool.eqb (cs_paused a) (cs_paused b) && (cs_nclients a =? cs_nclients b).

Fixpoint insert_by {A} (key : A -> N) (x : A) (l : list A) : list A :=
  match l with [] => [x] | y :: r => if key x <=? key y then x :: l else y :: insert_by key x r end.
Definition sort_by {A} (key : A -> N) (l : list A) : list A := fold_right (insert_by key) [] l.

Fixpoint list_eqb2 {A B : Type} (eqb : A -> B -> bool) (x : list A) (y : list B) : bool :=
  match x, y with
  | [], [] => true
  | a :: x', b :: y' => eqb a b && list_eqb2 eqb x' y'
  | _, _ => false
  end.

Definition ts_eqb (mt : topic) (o : tsnap) : bool :=
  (t_id mt =? ts_id o) && (N.of_nat (length (t_queue mt)) =? ts_depth o)
  && (t_msgcount mt =? ts_msgcount o) && (t_bytes mt =? ts_bytes o)
  && Bool.eqb (t_paused mt) (ts_paused o)
  && list_eqb cs_eqb (sort_by cs_id (map cs_of_chan (t_chans mt))) (sort_by cs_id (ts_chans o)).

Definition ks_eqb (mk : client) (o : ksnap) : bool :=
  (k_id mk =? ks_id o) && (k_rdy mk =? ks_rdy o)%Z && (k_ifl mk =? ks_ifl o)%Z
  && (k_fincount mk =? ks_fin o) && (k_reqcount mk =? ks_req o) && (k_msgcount mk =? ks_msgs o).

(* consumers that /stats lists: connected and member of an existing channel *)
Definition visible (s : state) (k : client) : bool :=
  k_alive k && match k_sub k with
               | Some (t, c) => match get_chan s t c with
                                | Some ch => existsb (N.eqb (k_id k)) (c_clients ch)
                                | None => false
                                end
               | None => false
               end.

Definition snap_agrees_h (hid : list N) (s : state) (ts : list tsnap) (ks : list ksnap) : bool :=
  list_eqb2 ts_eqb (sort_by t_id (s_topics s)) (sort_by ts_id ts)
  && list_eqb2 ks_eqb (sort_by k_id (filter (fun k => visible s k && negb (existsb (N.eqb (k_id k)) hid)) (s_clients s)))
                      (sort_by ks_id (filter (fun k => negb (existsb (N.eqb (ks_id k)) hid)) ks))
  && (match hid with [] => quiescent s | _ => true end).
Definition snap_agrees := snap_agrees_h [].

(* ids the model's scan would re-queue *)
Definition model_expired (s : state) (t c : N) (inflight : bool) (now : Z) : list N :=
  match get_chan s t c with
  | Some ch => if inflight then map (fun e => m_id (i_msg e)) (fst (expired_ifl now (c_ifl ch)))
               else map (fun e => m_id (d_msg e)) (fst (expired_dfr now (c_dfr ch)))
  | None => []
  end.

Definition meta_agrees (s : state) (m : list (N * list N)) : bool :=
  let want := map (fun tp => (t_id tp, sort_n (map c_id (filter (fun ch => negb (c_eph ch)) (t_chans tp)))))
                  (filter (fun tp => negb (t_eph tp)) (s_topics s)) in
  list_eqb (fun a b => (fst a =? fst b) && nlist_eqb (snd a) (snd b))
           (sort_by fst want) (sort_by fst (map (fun x => (fst x, sort_n (snd x))) m)).

(* one event of the replay: None = the model and the recording disagree here.
   [pend] = the expired set the model predicts for the scan just issued; the EExpired
   event that follows carries the observation *)
Definition replay_step_h (hid : list N) (cf : config) (s : state) (pend : option (N * N * bool * list N)) (e : event)
  : option (state * option (N * N * bool * list N)) :=
  match e with
  | EOp o r =>
      match pend with
      | Some _ => None
      | None =>
          let pend' := match o with
                       | OScanInFlight t c now =>
                           match get_chan s t c with Some _ => Some (t, c, true, model_expired s t c true now) | None => None end
                       | OScanDeferred t c now =>
                           match get_chan s t c with Some _ => Some (t, c, false, model_expired s t c false now) | None => None end
                       | _ => None
                       end in
          let '(s', r') := step cf s o in
          if resp_eqb r r' then Some (s', pend') else None
      end
  | EExpired t c infl ids =>
      match pend with
      | Some (t', c', infl', want) =>
          if (t =? t') && (c =? c') && Bool.eqb infl infl' && same_set ids want then Some (s, None) else None
      | None => None
      end
  | EClosed _ => Some (s, pend)
  | ESnap ts ks => if snap_agrees_h hid s ts ks then Some (s, pend) else None
  | EMeta m => if meta_agrees s m then Some (s, pend) else None
  | EView _ _ _ => Some (s, pend)
  | EFiles _ => Some (s, pend)
  | EHung => Some (s, None)
  | EAcked _ _ => None   (* rewritten by linearize before the replay *)
  | ERestart => Some (restart s, pend)
  end.
Definition replay_step := replay_step_h [].

Fixpoint replay_h (hid : list N) (cf : config) (s : state) (pend : option (N * N * bool * list N)) (evs : list event) : bool :=
  match evs with
  | [] => match pend with None => true | Some _ => false end
  | e :: rest =>
      match replay_step_h hid cf s pend e with
      | Some (s', pend') => replay_h hid cf s' pend' rest
      | None => false
      end
  end.
Definition replay := replay_h [].

(* diagnostics: 0 = the whole trace replays; otherwise 1 + index of the first event that does not *)
Fixpoint replay_diag_h (hid : list N) (cf : config) (s : state) (pend : option (N * N * bool * list N)) (evs : list event) (i : N) : N :=
  match evs with
  | [] => match pend with None => 0 | Some _ => i + 1 end
  | e :: rest =>
      match replay_step_h hid cf s pend e with
      | Some (s', pend') => replay_diag_h hid cf s' pend' rest (i + 1)
      | None => i + 1
      end
  end.
Definition replay_diag := replay_diag_h [].

(* the model state just before event i (for debugging a disagreement) *)
Fixpoint state_before (cf : config) (s : state) (pend : option (N * N * bool * list N)) (evs : list event) (i : nat) : state :=
  match i, evs with
  | O, _ => s
  | _, [] => s
  | S j, e :: rest =>
      match replay_step cf s pend e with
      | Some (s', pend') => state_before cf s' pend' rest j
      | None => s
      end
  end.

(* A publish accepted by a topic whose pump has already stopped for a graceful Exit stays in
   the topic's queue, is flushed with it, and reaches the channels when the new daemon's pump
   starts.  "The pump has stopped" is what a paused topic is in the model, so the replay reads
   such a publish (EAcked; the harness uses it for an unpaused topic only) as
   pause; publish; ... restart; unpause.  The monitor reads it as the publish it is, answered
   before the restart. *)
Fixpoint linearize (held : list event) (evs : list event) : list event :=
  match evs with
  | [] => held
  | EAcked (OPub t teph ids b d now) r :: rest =>
      EOp (OPauseTopic t true now) ROk :: EOp (OPub t teph ids b d now) r
      :: linearize (held ++ [EOp (OPauseTopic t false now) ROk]) rest
  | EAcked o r :: rest => EOp o r :: linearize held rest
  | ERestart :: rest => ERestart :: held ++ linearize [] rest
  | e :: rest => e :: linearize held rest
  end.

Definition agree (c : case) : bool := replay_h (hidden c) (cfg c) init None (linearize [] (events c)).

(* ------------------------------------------------------------------ monitor: trace-only ledger *)
Record mstat := mkMS { ms_holder : option N; ms_att : N; ms_fin : bool; ms_dead : bool;
                       ms_release : option Z; (* deferred until a scan whose clock has reached this time *)
                       ms_dl : Z;             (* while held: when the hold times out (delivery or last TOUCH + the
                                                 holder's negotiated msg_timeout, capped at delivery + max-msg-timeout) *)
                       ms_dts : Z             (* while held: when it was delivered *) }.
#[export] Instance eta_ms : Settable _ := settable! mkMS <ms_holder; ms_att; ms_fin; ms_dead; ms_release; ms_dl; ms_dts>.

Record chled := mkCL {
  l_t : N; l_c : N; l_eph : bool; l_paused : bool;
  l_msgs : list (N * mstat);      (* per message id: holder, attempts of the last delivery, finished, discarded *)
  l_owed : list N;                (* ids acknowledged to a publisher while this channel existed (and not excused) *)
  l_fincount : N; l_emptied : N;
  l_clients : list N;
  l_fin_since : N;                (* FINs accepted since the last snapshot *)
  l_recv_since : N;               (* messages published to the (un-paused) topic since the last snapshot *)
  l_base : N                      (* messages carried over from before a restart (not "received" in this lifetime) *)
}.
#[export] Instance eta_cl : Settable _ :=
  settable! mkCL <l_t; l_c; l_eph; l_paused; l_msgs; l_owed; l_fincount; l_emptied; l_clients; l_fin_since; l_recv_since; l_base>.

Record tled := mkTL { tl_id : N; tl_eph : bool; tl_paused : bool; tl_pubcount : N; tl_pubbytes : N;
                      tl_pending : list N (* published while the topic was paused, not yet handed to channels *) }.
#[export] Instance eta_tl : Settable _ := settable! mkTL <tl_id; tl_eph; tl_paused; tl_pubcount; tl_pubbytes; tl_pending>.

Record kled := mkKL { kl_id : N; kl_alive : bool; kl_sub : option (N * N); kl_rdy : Z; kl_closing : bool;
                      kl_fin : N; kl_req : N; kl_msgs : N; kl_tmo : Z (* negotiated msg_timeout, ns *) }.
#[export] Instance eta_kl : Settable _ :=
  settable! mkKL <kl_id; kl_alive; kl_sub; kl_rdy; kl_closing; kl_fin; kl_req; kl_msgs; kl_tmo>.

Record ledger := mkL {
  g_ch : list chled; g_tp : list tled; g_kl : list kled;
  g_last : option (list tsnap * list ksnap);
  g_prev_failed : bool;            (* the previous op was a refused FIN/REQ/TOUCH: next snapshot must equal g_last *)
  g_flags : list N;                (* violated property numbers *)
  g_hidden : list N;               (* consumers whose counters are not judged in this case *)
  g_prerestart : option (list tsnap);   (* the last snapshot before a restart *)
  g_gone : list (N * N);           (* ephemeral channels whose last consumer left: must be absent from the next snapshot *)
  g_idx : N;                       (* index of the event being processed (diagnostics) *)
  g_where : list (N * N);          (* (event index, property) of each violation (diagnostics) *)
  g_clk : Z;                       (* clock of the scan just issued *)
  g_maxmsg : Z                     (* --max-msg-timeout *)
}.
#[export] Instance eta_l : Settable _ := settable! mkL <g_ch; g_tp; g_kl; g_last; g_prev_failed; g_flags; g_hidden; g_prerestart; g_gone; g_idx; g_where; g_clk; g_maxmsg>.

(* tolerance between the harness's clock readings and the daemon's (a frame is read after it
   was registered, a TOUCH is executed after it was written): one second, against scan
   clocks that the generator keeps tens of seconds away from every deadline *)
Definition dl_slack : Z := 1000000000.

Definition flag (p : N) (ok : bool) (g : ledger) : ledger :=
  if ok then g else g <| g_flags ::= cons p |> <| g_where ::= cons (g_idx g, p) |>.

Definition find_cl (g : ledger) (t c : N) : option chled :=
  find (fun x => (l_t x =? t) && (l_c x =? c)) (g_ch g).
Definition upd_cl (g : ledger) (t c : N) (f : chled -> chled) : ledger :=
  g <| g_ch ::= map (fun x => if (l_t x =? t) && (l_c x =? c) then f x else x) |>.
Definition find_kl (g : ledger) (k : N) : option kled := find (fun x => kl_id x =? k) (g_kl g).
Definition upd_kl (g : ledger) (k : N) (f : kled -> kled) : ledger :=
  g <| g_kl ::= map (fun x => if kl_id x =? k then f x else x) |>.
Definition find_tl (g : ledger) (t : N) : option tled := find (fun x => tl_id x =? t) (g_tp g).
Definition upd_tl (g : ledger) (t : N) (f : tled -> tled) : ledger :=
  g <| g_tp ::= map (fun x => if tl_id x =? t then f x else x) |>.

Definition ms_get (l : list (N * mstat)) (id : N) : mstat :=
  match find (fun x => fst x =? id) l with Some (_, m) => m | None => mkMS None 0 false false None 0%Z 0%Z end.
Definition ms_set (l : list (N * mstat)) (id : N) (m : mstat) : list (N * mstat) :=
  (id, m) :: filter (fun x => negb (fst x =? id)) l.

Definition outstanding (cl : chled) (k : N) : Z :=
  Z.of_nat (length (filter (fun x => match ms_holder (snd x) with Some h => h =? k | None => false end) (l_msgs cl))).

Definition ens_tl (g : ledger) (t : N) (eph : bool) : ledger :=
  match find_tl g t with Some _ => g | None => g <| g_tp ::= cons (mkTL t eph false 0 0 []) |> end.
Definition ens_cl (g : ledger) (t c : N) (teph ceph : bool) : ledger :=
  let g := ens_tl g t teph in
  match find_cl g t c with Some _ => g | None => g <| g_ch ::= cons (mkCL t c ceph false [] [] 0 0 [] 0 0 0) |> end.

Definition snap_chan (ts : list tsnap) (t c : N) : option csnap :=
  match find (fun x => ts_id x =? t) ts with
  | Some tsn => find (fun x => cs_id x =? c) (ts_chans tsn)
  | None => None
  end.

(* release every message held on a channel by consumer-independent discard *)
Definition discard_all (cl : chled) : chled :=
  cl <| l_msgs ::= map (fun x => (fst x, (snd x) <| ms_holder := None |> <| ms_dead := true |> <| ms_release := None |>)) |>
     <| l_owed := [] |>.

Definition mon_op (g : ledger) (o : op) (r : resp) : ledger :=
  let g := g <| g_prev_failed := false |> in
  match o, r with
  | OCreateTopic t eph, ROk => ens_tl g t eph
  | OCreateChan t c teph ceph _, ROk => ens_cl g t c teph ceph
  | OPub t teph ids bytes defer now, ROk =>
      let g := ens_tl g t teph in
      let g := upd_tl g t (fun x => (x <| tl_pubcount ::= N.add (N.of_nat (length ids)) |> <| tl_pubbytes ::= N.add bytes |>)
                                     <| tl_pending ::= fun l => if tl_paused x then ids ++ l else l |>) in
      (* owed to every channel that exists on the topic now *)
      let paused := match find_tl g t with Some tl => tl_paused tl | None => false end in
      g <| g_ch ::= map (fun cl => if l_t cl =? t
                                   then (cl <| l_owed ::= app ids |>
                                            <| l_recv_since ::= N.add (if paused then 0 else N.of_nat (length ids)) |>)
                                        <| l_msgs ::= fun ms =>
                                             (* a deferred publish handed over by a running pump is held back on
                                                every channel until its delay has elapsed *)
                                             if (negb paused) && negb (defer =? 0)%Z
                                             then fold_left (fun ms id => ms_set ms id ((ms_get ms id) <| ms_release := Some (now + defer)%Z |>)) ids ms
                                             else ms |>
                                   else cl) |>
  | OConnect k tmo, ROk => g <| g_kl ::= cons (mkKL k true None 0%Z false 0 0 0 tmo) |>
  | OSub k t c teph ceph _, ROk =>
      let g := ens_cl g t c teph ceph in
      let g := upd_cl g t c (fun cl => cl <| l_clients ::= cons k |>) in
      upd_kl g k (fun x => x <| kl_sub := Some (t, c) |>)
  | ORdy k n, ROk =>
      match find_kl g k with
      | Some kl => if kl_closing kl then g else upd_kl g k (fun x => x <| kl_rdy := n |>)
      | None => g
      end
  | ODeliver k id now, RDelivered att =>
      match find_kl g k with
      | Some kl =>
          match kl_sub kl with
          | Some (t, c) =>
              match find_cl g t c with
              | Some cl =>
                  let st := ms_get (l_msgs cl) id in
                  (* C02: not held by anyone, not finished; attempts = previous + 1 *)
                  let g := flag 2 (match ms_holder st with None => true | Some _ => false end
                                   && negb (ms_fin st) && (att =? ms_att st + 1)) g in
                  (* C08: a discarded message is never delivered afterwards *)
                  let g := flag 8 (negb (ms_dead st)) g in
                  (* C04: a deferred message is not delivered before a scan whose clock reached its release time *)
                  let g := flag 4 (match ms_release st with None => true | Some _ => false end) g in
                  (* C03: RDY window, CLS, pause *)
                  let g := flag 3 (kl_alive kl && negb (kl_closing kl) && negb (l_paused cl)
                                   && (outstanding cl k <? kl_rdy kl)%Z) g in
                  let g := upd_cl g t c (fun cl => cl <| l_msgs := ms_set (l_msgs cl) id (st <| ms_holder := Some k |> <| ms_att := att |>
                                                                                                        <| ms_dl := (now + kl_tmo kl)%Z |> <| ms_dts := now |>) |>) in
                  upd_kl g k (fun x => x <| kl_msgs ::= N.succ |>)
              | None => flag 2 false g
              end
          | None => flag 3 false g
          end
      | None => flag 3 false g
      end
  | OFin k id, _ =>
      match find_kl g k with
      | Some kl =>
          match kl_sub kl with
          | Some (t, c) =>
              match find_cl g t c with
              | Some cl =>
                  let st := ms_get (l_msgs cl) id in
                  let holds := match ms_holder st with Some h => h =? k | None => false end in
                  match r with
                  | ROk =>
                      let g := flag 2 holds g in
                      let g := upd_cl g t c (fun cl => cl <| l_msgs := ms_set (l_msgs cl) id (st <| ms_holder := None |> <| ms_fin := true |>) |>
                                                           <| l_fincount ::= N.succ |> <| l_fin_since ::= N.succ |>
                                                           <| l_owed ::= filter (fun x => negb (x =? id)) |>) in
                      upd_kl g k (fun x => x <| kl_fin ::= N.succ |>)
                  | RFailed => (flag 2 (negb holds) g) <| g_prev_failed := true |>
                  | _ => g
                  end
              | None => g
              end
          | None => g
          end
      | None => g
      end
  | OReq k id delay now, _ =>
      match find_kl g k with
      | Some kl =>
          match kl_sub kl with
          | Some (t, c) =>
              match find_cl g t c with
              | Some cl =>
                  let st := ms_get (l_msgs cl) id in
                  let holds := match ms_holder st with Some h => h =? k | None => false end in
                  match r with
                  | ROk =>
                      let g := flag 2 holds g in
                      let g := upd_cl g t c (fun cl => cl <| l_msgs := ms_set (l_msgs cl) id
                                               ((st <| ms_holder := None |>) <| ms_release := if (delay =? 0)%Z then None else Some (now + delay)%Z |>) |>) in
                      upd_kl g k (fun x => x <| kl_req ::= N.succ |>)
                  | RFailed => (flag 2 (negb holds) g) <| g_prev_failed := true |>
                  | _ => g
                  end
              | None => g
              end
          | None => g
          end
      | None => g
      end
  | OTouch k id now, _ =>
      match find_kl g k with
      | Some kl =>
          match kl_sub kl with
          | Some (t, c) =>
              match find_cl g t c with
              | Some cl =>
                  let st := ms_get (l_msgs cl) id in
                  let holds := match ms_holder st with Some h => h =? k | None => false end in
                  match r with
                  | ROk =>
                      (* the hold now lasts the consumer's negotiated msg_timeout from this TOUCH,
                         but no longer than max-msg-timeout after the delivery *)
                      let nd := (now + kl_tmo kl)%Z in
                      let nd := if (nd - ms_dts st >=? g_maxmsg g)%Z then (ms_dts st + g_maxmsg g)%Z else nd in
                      upd_cl (flag 2 holds g) t c (fun cl => cl <| l_msgs := ms_set (l_msgs cl) id (st <| ms_dl := nd |>) |>)
                  | RFailed => (flag 2 (negb holds) g) <| g_prev_failed := true |>
                  | _ => g
                  end
              | None => g
              end
          | None => g
          end
      | None => g
      end
  | OCls k, ROk => upd_kl g k (fun x => x <| kl_closing := true |> <| kl_rdy := 0%Z |>)
  | ODisconnect k, _ =>
      let g := match find_kl g k with
               | Some kl =>
                   match kl_sub kl with
                   | Some (t, c) =>
                       let g := upd_cl g t c (fun cl => cl <| l_clients ::= filter (fun x => negb (x =? k)) |>) in
                       (* C08: an ephemeral channel goes away with its last consumer, an
                          ephemeral topic with its last channel *)
                       match find_cl g t c with
                       | Some cl =>
                           if l_eph cl && kl_alive kl && match l_clients cl with [] => true | _ => false end then
                             let g := g <| g_ch ::= filter (fun x => negb ((l_t x =? t) && (l_c x =? c))) |>
                                        <| g_gone ::= cons (t, c) |> in
                             match find_tl g t with
                             | Some tl => if tl_eph tl && negb (existsb (fun x => l_t x =? t) (g_ch g))
                                          then g <| g_tp ::= filter (fun x => negb (tl_id x =? t)) |> else g
                             | None => g
                             end
                           else g
                       | None => g
                       end
                   | None => g
                   end
               | None => g
               end in
      upd_kl g k (fun x => x <| kl_alive := false |>)
  | OScanInFlight t c now, ROk => g <| g_clk := now |>
  | OScanDeferred t c now, ROk =>
      (* the releases are settled by the EExpired event that follows (what the scan really
         re-queued is compared there with what was due) *)
      g <| g_clk := now |>
  | OPauseChan t c p, ROk => upd_cl g t c (fun cl => cl <| l_paused := p |>)
  | OPauseTopic t p _, ROk => upd_tl g t (fun x => (x <| tl_paused := p |>) <| tl_pending ::= fun l => if p then l else [] |>)
  | OEmptyTopic t, ROk =>
      (* an explicit empty of the topic discards what it has not yet handed to its channels *)
      match find_tl g t with
      | Some tl =>
          let g := g <| g_ch ::= map (fun cl => if l_t cl =? t
                                                then cl <| l_owed ::= filter (fun x => negb (mem_n x (tl_pending tl))) |>
                                                else cl) |> in
          upd_tl g t (fun x => x <| tl_pending := [] |>)
      | None => g
      end
  | OEmptyChan t c, ROk =>
      (* discarded = everything the channel held at the last snapshot *)
      let n := match g_last g with
               | Some (ts, _) => match snap_chan ts t c with
                                 | Some cs => cs_depth cs + cs_ifl cs + cs_dfr cs
                                 | None => 0
                                 end
               | None => 0
               end in
      upd_cl g t c (fun cl => (discard_all cl) <| l_emptied ::= N.add (n + l_recv_since cl - l_fin_since cl) |>)
  | ODeleteChan t c, ROk =>
      let g := g <| g_ch ::= filter (fun x => negb ((l_t x =? t) && (l_c x =? c))) |> in
      match find_tl g t with
      | Some tl => if tl_eph tl && negb (existsb (fun x => l_t x =? t) (g_ch g))
                   then g <| g_tp ::= filter (fun x => negb (tl_id x =? t)) |> else g
      | None => g
      end
  | ODeleteTopic t, ROk =>
      (g <| g_ch ::= filter (fun x => negb (l_t x =? t)) |>) <| g_tp ::= filter (fun x => negb (tl_id x =? t)) |>
  | _, _ => g
  end.

(* a scan re-queued these ids: their holders lose them *)
Definition mon_expired (g : ledger) (t c : N) (infl : bool) (ids : list N) : ledger :=
  if infl then
    match find_cl g t c with
    | Some cl =>
        (* C02: only held messages can time out *)
        let g := flag 2 (forallb (fun id => match ms_holder (ms_get (l_msgs cl) id) with Some _ => true | None => false end) ids) g in
        (* C02 / C04: never early — a hold that has not run out (delivery or last TOUCH + the
           negotiated msg_timeout) is not taken away *)
        let early := existsb (fun id => let st := ms_get (l_msgs cl) id in
                                        match ms_holder st with Some _ => (g_clk g + dl_slack <? ms_dl st)%Z | None => false end) ids in
        let g := flag 4 (negb early) (flag 2 (negb early) g) in
        (* C04: boundedly late — a scan whose clock has passed a hold's end re-queues it *)
        let g := flag 4 (forallb (fun x => match ms_holder (snd x) with
                                           | Some _ => mem_n (fst x) ids || (g_clk g <? ms_dl (snd x) + dl_slack)%Z
                                           | None => true
                                           end) (l_msgs cl)) g in
        upd_cl g t c (fun cl => cl <| l_msgs ::= map (fun x => if mem_n (fst x) ids then (fst x, (snd x) <| ms_holder := None |>) else x) |>)
    | None => g
    end
  else
    match find_cl g t c with
    | Some cl =>
        (* C04: a deferred message (REQ with a delay, clamped to max-req-timeout; DPUB) is
           released by the first scan whose clock has reached its release time, not before *)
        let early := existsb (fun id => match ms_release (ms_get (l_msgs cl) id) with
                                        | Some rel => (g_clk g + dl_slack <? rel)%Z
                                        | None => false
                                        end) ids in
        let late := existsb (fun x => match ms_release (snd x) with
                                      | Some rel => (rel + dl_slack <=? g_clk g)%Z && negb (mem_n (fst x) ids)
                                      | None => false
                                      end) (l_msgs cl) in
        let g := flag 4 (negb early && negb late) g in
        upd_cl g t c (fun cl => cl <| l_msgs ::= map (fun x => match ms_release (snd x) with
                                                               | Some rel => if mem_n (fst x) ids || (rel <=? g_clk g)%Z
                                                                             then (fst x, (snd x) <| ms_release := None |>) else x
                                                               | None => x
                                                               end) |>)
    | None => g
    end.

(* C13: /stats reports the same numbers in text and JSON form and under topic / channel
   filters: a view equals the last snapshot restricted as NSQD.GetStats documents (topic
   filter: that topic only; channel filter: the topics that have it, with that channel only) *)
Definition light_of_cs (c : csnap) : lcs :=
  mkLC (cs_id c) (cs_depth c) (cs_ifl c) (cs_dfr c) (cs_requeue c) (cs_timeout c) (cs_msgcount c) (cs_paused c).
Definition light_of_ts (t : tsnap) : lts :=
  mkLT (ts_id t) (ts_depth t) (ts_msgcount t) (ts_paused t) (map light_of_cs (ts_chans t)).
Definition lcs_eqb (a b : lcs) : bool :=
  (lc_id a =? lc_id b) && (lc_depth a =? lc_depth b) && (lc_ifl a =? lc_ifl b) && (lc_dfr a =? lc_dfr b)
  && (lc_requeue a =? lc_requeue b) && (lc_timeout a =? lc_timeout b) && (lc_msgcount a =? lc_msgcount b)
  && Bool.eqb (lc_paused a) (lc_paused b).
Definition sort_lcs := sort_by lc_id.
Definition lts_eqb (a b : lts) : bool :=
  (lt_id a =? lt_id b) && (lt_depth a =? lt_depth b) && (lt_msgcount a =? lt_msgcount b)
  && Bool.eqb (lt_paused a) (lt_paused b) && list_eqb lcs_eqb (sort_lcs (lt_chans a)) (sort_lcs (lt_chans b)).
Definition expected_view (tf cf : option N) (ts : list tsnap) : list lts :=
  let l := map light_of_ts ts in
  let l := match tf with Some t => filter (fun x => lt_id x =? t) l | None => l end in
  match cf with
  | None => l
  | Some c => flat_map (fun x => match filter (fun ch => lc_id ch =? c) (lt_chans x) with
                                 | [] => []
                                 | chs => [mkLT (lt_id x) (lt_depth x) (lt_msgcount x) (lt_paused x) chs]
                                 end) l
  end.
Definition mon_view (g : ledger) (tf cf : option N) (v : list lts) : ledger :=
  match g_last g with
  | Some (ts, _) => flag 13 (list_eqb lts_eqb (sort_by lt_id v) (sort_by lt_id (expected_view tf cf ts))) g
  | None => g
  end.

(* C08: a deleted topic or channel leaves no disk-queue file behind, an ephemeral one never
   has any: every file in the data path belongs to a durable topic / channel that exists *)
Definition mon_files (g : ledger) (owners : list (N * list N)) : ledger :=
  flag 8 (forallb (fun tc =>
            match find_tl g (fst tc) with
            | Some tl => negb (tl_eph tl) &&
                         forallb (fun c => (c =? 0) || match find_cl g (fst tc) c with
                                                       | Some cl => negb (l_eph cl)
                                                       | None => false
                                                       end) (snd tc)
            | None => false
            end) owners) g.

Definition mon_snap (g : ledger) (ts : list tsnap) (ks : list ksnap) : ledger :=
  (* C13 per channel: received = depth + in-flight + deferred + finished + emptied
     (ephemeral channels may additionally have dropped on overflow) *)
  let chan_ok (tsn : tsnap) (cs : csnap) : bool :=
    match find_cl g (ts_id tsn) (cs_id cs) with
    | Some cl =>
        let sum := cs_depth cs + cs_ifl cs + cs_dfr cs + l_fincount cl + l_emptied cl in
        (if l_eph cl then sum <=? cs_msgcount cs + l_base cl else cs_msgcount cs + l_base cl =? sum)
        && Bool.eqb (cs_paused cs) (l_paused cl)
    | None => true
    end in
  let topic_ok (tsn : tsnap) : bool :=
    match find_tl g (ts_id tsn) with
    | Some tl => (ts_msgcount tsn =? tl_pubcount tl) && (ts_bytes tsn =? tl_pubbytes tl)
                 && Bool.eqb (ts_paused tsn) (tl_paused tl)
    | None => true
    end && forallb (chan_ok tsn) (ts_chans tsn) in
  let client_ok (k : ksnap) : bool :=
    if mem_n (ks_id k) (g_hidden g) then true else
    match find_kl g (ks_id k) with
    | Some kl =>
        (ks_rdy k =? kl_rdy kl)%Z && (ks_fin k =? kl_fin kl) && (ks_req k =? kl_req kl) && (ks_msgs k =? kl_msgs kl)
        && (0 <=? ks_ifl k)%Z
        && match kl_sub kl with
           | Some (t, c) => match find_cl g t c with
                            | Some cl => (ks_ifl k =? outstanding cl (ks_id k))%Z
                            | None => true
                            end
           | None => (ks_ifl k =? 0)%Z
           end
    | None => true
    end in
  let g := flag 13 (forallb topic_ok ts && forallb client_ok ks) g in
  (* C03 resume: nobody who is ready is left waiting behind a non-empty queue *)
  let starving (k : ksnap) : bool :=
    if mem_n (ks_id k) (g_hidden g) then false else
    match find_kl g (ks_id k) with
    | Some kl =>
        match kl_sub kl with
        | Some (t, c) =>
            match find_cl g t c, snap_chan ts t c with
            | Some cl, Some cs =>
                kl_alive kl && negb (kl_closing kl) && negb (l_paused cl) && (0 <? cs_depth cs)
                && (outstanding cl (ks_id k) <? kl_rdy kl)%Z
            | _, _ => false
            end
        | None => false
        end
    | None => false
    end in
  let g := flag 3 (negb (existsb starving ks)) g in
  (* C03: while a topic stays paused its channels receive nothing *)
  let paused_quiet (tsn : tsnap) : bool :=
    match find_tl g (ts_id tsn), g_last g with
    | Some tl, Some (ts0, _) =>
        match find (fun x => ts_id x =? ts_id tsn) ts0 with
        | Some t0 =>
            if tl_paused tl && ts_paused t0 && ts_paused tsn then
              forallb (fun cs => match find (fun x => cs_id x =? cs_id cs) (ts_chans t0) with
                                 | Some c0 => cs_msgcount cs =? cs_msgcount c0
                                 | None => true
                                 end) (ts_chans tsn)
            else true
        | None => true
        end
    | _, _ => true
    end in
  let g := flag 3 (forallb paused_quiet ts) g in
  (* C02: a refused FIN/REQ/TOUCH changed nothing *)
  let g := if g_prev_failed g then
             match g_last g with
             | Some (ts0, ks0) =>
                 flag 2 (list_eqb (fun a b => (ts_id a =? ts_id b) && (ts_depth a =? ts_depth b) && (ts_msgcount a =? ts_msgcount b)
                                              && list_eqb cs_eqb (ts_chans a) (ts_chans b)) ts0 ts
                         && list_eqb (fun a b => (ks_id a =? ks_id b) && (ks_rdy a =? ks_rdy b)%Z && (ks_ifl a =? ks_ifl b)%Z
                                                 && (ks_fin a =? ks_fin b) && (ks_req a =? ks_req b) && (ks_msgs a =? ks_msgs b)) ks0 ks) g
             | None => g
             end
           else g in
  (* C08: after an empty the channel holds nothing; after a delete it is gone
     (checked where the op happened: see mon_after) *)
  (* C08: ephemeral channels that lost their last consumer are gone *)
  let g := flag 8 (forallb (fun tc => match snap_chan ts (fst tc) (snd tc) with None => true | Some _ => false end) (g_gone g)) g in
  (* C08: nothing that was deleted, or that was ephemeral and has lost its last consumer /
     channel, is still listed: every topic and channel of the snapshot is one the history
     created and has not removed since *)
  let g := flag 8 (forallb (fun tsn => match find_tl g (ts_id tsn) with
                                       | Some _ => forallb (fun cs => match find_cl g (ts_id tsn) (cs_id cs) with
                                                                      | Some _ => true | None => false end) (ts_chans tsn)
                                       | None => false
                                       end) ts) g in
  let g := g <| g_ch ::= map (fun cl => cl <| l_fin_since := 0 |> <| l_recv_since := 0 |>) |> in
  ((g <| g_last := Some (ts, ks) |>) <| g_prev_failed := false |>) <| g_gone := [] |>.

(* checks that need the snapshot FOLLOWING an op *)
Definition mon_after (prev : option event) (g : ledger) (ts : list tsnap) (ks : list ksnap) : ledger :=
  match prev with
  | Some (EOp (OEmptyChan t c) ROk) =>
      match snap_chan ts t c, find_cl g t c with
      | Some cs, Some cl =>
          flag 8 ((cs_depth cs =? 0) && (cs_ifl cs =? 0) && (cs_dfr cs =? 0)
                  && (cs_nclients cs =? N.of_nat (length (l_clients cl)))
                  && forallb (fun k => if mem_n (ks_id k) (l_clients cl) && negb (mem_n (ks_id k) (g_hidden g))
                                       then (ks_ifl k =? 0)%Z else true) ks) g
      | None, _ => flag 8 false g
      | _, None => g
      end
  | Some (EOp (ODeleteChan t c) ROk) =>
      flag 8 (match snap_chan ts t c with None => true | Some _ => false end) g
  | Some (EOp (ODeleteTopic t) ROk) =>
      flag 8 (match find (fun x => ts_id x =? t) ts with None => true | Some _ => false end) g
  | Some (EOp (OSub k t c _ _ _) ROk) =>
      (* a SUB answered OK means the consumer is attached to the live channel *)
      flag 8 (match snap_chan ts t c with Some _ => true | None => false end
              && existsb (fun x => ks_id x =? k) ks) g
  | _ => g
  end.

(* restart: consumers are gone; nothing is held; per-lifetime counters restart; attempts
   and finished status persist *)
Definition mon_restart (g : ledger) : ledger :=
  let g := g <| g_ch ::= map (fun cl => cl <| l_msgs ::= map (fun x => (fst x, (snd x) <| ms_holder := None |> <| ms_release := None |>)) |>
                                           <| l_fincount := 0 |> <| l_emptied := 0 |> <| l_clients := [] |>)
                         |> in
  let g := g <| g_ch ::= filter (fun cl => negb (l_eph cl)) |> in
  let g := g <| g_ch ::= filter (fun cl => match find_tl g (l_t cl) with Some tl => negb (tl_eph tl) | None => true end) |> in
  let g := g <| g_tp ::= map (fun tl => tl <| tl_pubcount := 0 |> <| tl_pubbytes := 0 |>) |> in
  let g := g <| g_tp ::= filter (fun tl => negb (tl_eph tl)) |> in
  ((g <| g_kl := [] |>) <| g_prerestart := match g_last g with Some (ts, _) => Some ts | None => None end |>) <| g_last := None |>.

(* C05 structure + C08 ephemeral: after a restart exactly the non-ephemeral topics and
   channels exist, with their paused flags (checked at the first snapshot after it) *)
Definition mon_restart_snap (g : ledger) (ts : list tsnap) : ledger :=
  let want_t := sort_n (map tl_id (g_tp g)) in
  let got_t := sort_n (map ts_id ts) in
  let chans_ok := forallb (fun tsn =>
       same_set (map cs_id (ts_chans tsn)) (map l_c (filter (fun cl => l_t cl =? ts_id tsn) (g_ch g)))) ts in
  let g := g <| g_ch ::= map (fun cl => match snap_chan ts (l_t cl) (l_c cl) with
                                         | Some cs => cl <| l_base := cs_depth cs |>
                                         | None => cl
                                         end) |> in
  (* paused flags survive; every message a durable channel held (queued, in flight,
     deferred) and every message waiting in a durable topic's queue is waiting again *)
  let flags_ok := forallb (fun tsn =>
       match find_tl g (ts_id tsn) with
       | Some tl => Bool.eqb (ts_paused tsn) (tl_paused tl)
       | None => true
       end
       && forallb (fun cs => match find_cl g (ts_id tsn) (cs_id cs) with
                             | Some cl => Bool.eqb (cs_paused cs) (l_paused cl)
                             | None => true
                             end) (ts_chans tsn)) ts in
  let carried_ok := match g_prerestart g with
                    | Some ts0 =>
                        forallb (fun tsn =>
                          match find (fun x => ts_id x =? ts_id tsn) ts0 with
                          | Some t0 =>
                              (ts_depth tsn =? ts_depth t0)
                              && forallb (fun cs => match find (fun x => cs_id x =? cs_id cs) (ts_chans t0) with
                                                    | Some c0 => (cs_depth cs =? cs_depth c0 + cs_ifl c0 + cs_dfr c0)
                                                                 && (cs_ifl cs =? 0) && (cs_dfr cs =? 0)
                                                    | None => true
                                                    end) (ts_chans tsn)
                          | None => true
                          end) ts
                    | None => true
                    end in
  flag 5 (nlist_eqb want_t got_t && chans_ok && flags_ok && carried_ok) g.

Definition mon_meta (g : ledger) (m : list (N * list N)) : ledger :=
  (* C08: ephemeral topics/channels never reach the persisted metadata *)
  let eph_t (t : N) := match find_tl g t with Some tl => tl_eph tl | None => false end in
  let eph_c (t c : N) := match find_cl g t c with Some cl => l_eph cl | None => false end in
  flag 8 (forallb (fun x => negb (eph_t (fst x)) && forallb (fun c => negb (eph_c (fst x) c)) (snd x)) m) g.

Fixpoint mon_run (g : ledger) (prev : option event) (after_restart : bool) (evs : list event) : ledger :=
  match evs with
  | [] => g
  | e :: rest =>
      let g := g <| g_idx ::= N.succ |> in
      match e with
      | EOp o r | EAcked o r => mon_run (mon_op g o r) (Some e) after_restart rest
      | EExpired t c infl ids => mon_run (mon_expired g t c infl ids) prev after_restart rest
      | EClosed _ => mon_run g prev after_restart rest
      | ESnap ts ks =>
          let g := mon_after prev g ts ks in
          let g := if after_restart then mon_restart_snap g ts else g in
          mon_run (mon_snap g ts ks) None false rest
      | EMeta m => mon_run (mon_meta g m) prev after_restart rest
      | EView tf cf v => mon_run (mon_view g tf cf v) prev after_restart rest
      | EFiles owners => mon_run (mon_files g owners) prev after_restart rest
      | EHung =>
          (* a daemon that stops answering delivers nothing more (C01, C03), cannot be shut
             down gracefully (C05) and has deadlocked on whatever was in progress (C08) *)
          mon_run (flag 1 false (flag 3 false (flag 5 false (flag 8 false g)))) prev after_restart rest
      | ERestart =>
          (* an operation answered after the last snapshot (a publish acknowledged while the
             daemon was shutting down): that snapshot no longer says what must be carried *)
          let g := match prev with Some _ => g <| g_last := None |> | None => g end in
          mon_run (mon_restart g) None true rest
      end
  end.

(* C01: at the end of the trace (the harness has drained every channel) nothing that
   is owed to a durable channel is left unfinished *)
Definition mon_final (g : ledger) : ledger :=
  flag 1 (forallb (fun cl => l_eph cl ||
                             match find_tl g (l_t cl) with Some tl => tl_eph tl | None => false end ||
                             match l_owed cl with [] => true | _ => false end) (g_ch g)) g.

Definition flags_of (c : case) : list N :=
  g_flags (mon_final (mon_run (mkL [] [] [] None false [] (hidden c) None [] 0 [] 0%Z (max_msg_timeout (cfg c))) None false (events c))).

(* which ledger checks belong to which property: C05 also demands redelivery with
   continuing attempts and no reappearance of finished messages (checks 1 and 2 across
   the restart); C08 also demands that counters stay right (check 13) and that consumers
   keep their subscriptions in a usable state: nobody who is ready is left waiting behind a
   non-empty queue after an empty or a deletion nearby (check 3's starvation clause) *)
Definition concerns (p : N) : list N :=
  if p =? 5 then [5; 1; 2] else if p =? 8 then [8; 13; 3] else [p].
Definition monitor (p : N) (c : case) : bool :=
  negb (existsb (fun f => mem_n f (concerns p) && negb (mem_n f (ignore c))) (flags_of c)).

Definition judge_for (p : N) (c : case) : N := verdict (agree c) (monitor p c).

Definition diag (c : case) : N * list N := (replay_diag_h (hidden c) (cfg c) init None (linearize [] (events c)) 0, flags_of c).
Definition mon_where (c : case) : list (N * N) :=
  g_where (mon_final (mon_run (mkL [] [] [] None false [] (hidden c) None [] 0 [] 0%Z (max_msg_timeout (cfg c))) None false (events c))).
