(* Correspondence judge for C04 (timeouts and delays).  No proofs here.
   Every numeric field is a Z; bytes are given as list Z. *)
From Coq Require Import List ZArith NArith Bool.
From NSQV Require Import model.Judge model.Num model.Heap model.Deadline.
From NSQV Require judge.CoreJudge.
Import ListNotations.
Open Scope Z_scope.

(* ------------------------------------------------------------------ heap runs *)
Inductive pqop :=
| OpPush (p v : Z)
| OpPop
| OpRemove (i : Z)
| OpPeek (max : Z)
| OpSetPri (slot p : Z).   (* harness writes pq[slot].pri directly: arbitrary (ill-ordered) content *)

(* what the real queue did: code 0 = no item returned, 1 = item returned (its handle and
   its index field afterwards), 2 = panic; diff = PeekAndShift's second result;
   then the whole array (pri, index, handle) and the capacity *)
Record pqobs := mkObs { o_code : Z; o_val : Z; o_idx : Z; o_diff : Z;
                        o_arr : list (Z * Z * Z); o_cap : Z }.

Definition arr_of (l : list (Z * Z * Z)) : list item :=
  map (fun '(p, i, v) => mkItem p i v) l.
Definition trip (x : item) : Z * Z * Z := (pri x, idx x, val x).

Definition trip_eqb (a b : Z * Z * Z) : bool :=
  let '(a1, a2, a3) := a in let '(b1, b2, b3) := b in (a1 =? b1) && (a2 =? b2) && (a3 =? b3).

Definition set_pri (l : list item) (slot p : Z) : list item :=
  let k := Z.to_nat slot in upd l k (mkItem p (idx (get l k)) (val (get l k))).

(* model step: None = panic; otherwise (code, val, idx, diff, queue') *)
Definition mstep (container : bool) (q : pq) (o : pqop) : option (Z * Z * Z * Z * pq) :=
  match o with
  | OpPush p v =>
      match (if container then ch_push q p v else if_push q p v) with
      | None => None | Some q' => Some (0, 0, 0, 0, q') end
  | OpPop =>
      match (if container then ch_pop q else if_pop q) with
      | None => None | Some (x, q') => Some (1, val x, idx x, 0, q') end
  | OpRemove i =>
      match (if container then ch_remove q i else if_remove q i) with
      | None => None | Some (x, q') => Some (1, val x, idx x, 0, q') end
  | OpPeek t =>
      match (if container then ch_peek q t else if_peek q t) with
      | (PeekNone d, q') => Some (0, 0, 0, d, q')
      | (PeekSome x, q') => Some (1, val x, idx x, 0, q')
      end
  | OpSetPri slot p => Some (0, 0, 0, 0, mkPq (set_pri (arr q) slot p) (cap q))
  end.

(* the property evaluated on the implementation's own arrays *)
Fixpoint heap_ordered_from (l : list (Z * Z * Z)) (all : list (Z * Z * Z)) (k : nat) : bool :=
  match l with
  | [] => true
  | (p, _, _) :: r =>
      let '(pp, _, _) := nth (parent k) all (0, 0, 0) in
      ((k =? 0)%nat || (pp <=? p)) && heap_ordered_from r all (S k)
  end.
Fixpoint idx_ok_from (l : list (Z * Z * Z)) (k : Z) : bool :=
  match l with [] => true | (_, i, _) :: r => (i =? k) && idx_ok_from r (k + 1) end.
Definition obs_wf (l : list (Z * Z * Z)) : bool := heap_ordered_from l l 0 && idx_ok_from l 0.

Fixpoint insert_pv (x : Z * Z) (l : list (Z * Z)) : list (Z * Z) :=
  match l with
  | [] => [x]
  | y :: r => if (fst x <? fst y) || ((fst x =? fst y) && (snd x <=? snd y)) then x :: l
              else y :: insert_pv x r
  end.
Definition sort_pv (l : list (Z * Z)) : list (Z * Z) := fold_right insert_pv [] l.
Definition pv (l : list (Z * Z * Z)) : list (Z * Z) := map (fun '(p, _, v) => (p, v)) l.
Definition pv_eqb (a b : list (Z * Z)) : bool :=
  list_eqb (fun x y => (fst x =? fst y) && (snd x =? snd y)) (sort_pv a) (sort_pv b).

Definition pri_of_val (l : list (Z * Z * Z)) (v : Z) : option Z :=
  match find (fun '(_, _, v') => v' =? v) l with Some (p, _, _) => Some p | None => None end.

(* monitor of one observed step: [before] and [after] are the real arrays *)
Definition mon_step (o : pqop) (before : list (Z * Z * Z)) (ob : pqobs) : bool :=
  let after := o_arr ob in
  let wfb := obs_wf before in
  match o with
  | OpPush p v =>
      (* a Push that panics (a queue created with capacity 0) is outside the property *)
      (o_code ob =? 2) ||
      ((o_code ob =? 0) && pv_eqb (pv after) ((p, v) :: pv before) && (negb wfb || obs_wf after))
  | OpPop =>
      match before with
      | [] => o_code ob =? 2
      | (p0, _, v0) :: _ =>
          (o_code ob =? 1) && (o_val ob =? v0) && (o_idx ob =? -1)
          && pv_eqb ((p0, v0) :: pv after) (pv before) && (negb wfb || obs_wf after)
      end
  | OpRemove i =>
      if (i <? 0) || (Z.of_nat (length before) <=? i) then o_code ob =? 2
      else
        let '(pi, _, vi) := nth (Z.to_nat i) before (0, 0, 0) in
        (o_code ob =? 1) && (o_val ob =? vi) && (o_idx ob =? -1)
        && pv_eqb ((pi, vi) :: pv after) (pv before) && (negb wfb || obs_wf after)
  | OpPeek t =>
      if o_code ob =? 1 then
        (* never early, for any content; and the right entry left *)
        match pri_of_val before (o_val ob) with
        | Some p => (p <=? t) && (o_idx ob =? -1) && pv_eqb ((p, o_val ob) :: pv after) (pv before)
                    && (negb wfb || (obs_wf after && forallb (fun '(p', _, _) => p <=? p') before))
        | None => false
        end
      else
        (o_code ob =? 0) && list_eqb trip_eqb after before
        (* on a well-formed heap nothing due may be left behind *)
        && (negb wfb || forallb (fun '(p', _, _) => t <? p') before)
  | OpSetPri _ _ => true
  end.

Fixpoint run_pq (container : bool) (q : pq) (before : list (Z * Z * Z))
                (steps : list (pqop * pqobs)) : bool * bool :=
  match steps with
  | [] => (true, true)
  | (o, ob) :: r =>
      let mon := match o with OpSetPri _ _ => true | _ => mon_step o before ob end in
      match mstep container q o with
      | None => ((o_code ob =? 2) && match r with [] => true | _ => false end, mon)
      | Some (code, v, i, d, q') =>
          let agree :=
            (o_code ob =? code) && (o_val ob =? v) && (o_idx ob =? i) && (o_diff ob =? d)
            && list_eqb trip_eqb (o_arr ob) (map trip (arr q')) && (o_cap ob =? Z.of_nat (cap q')) in
          let '(a, m) := run_pq container q' (o_arr ob) r in
          (agree && a, mon && m)
      end
  end.

(* ------------------------------------------------------------------ real channel runs *)
Inductive cop :=
| CStart (now id client timeout : Z)               (* now = the deliveryTS the call recorded *)
| CTouch (t0 t1 now id client mt : Z)              (* now = the clock reading the call must have made, *)
| CFinish (id client : Z)                          (*       recovered from its result; t0 <= now <= t1 *)
| CRequeue (t0 t1 now id client delay : Z)
| CPutDef (t0 t1 now id delay : Z)
| CScanIF (t : Z)
| CScanDef (t : Z).

(* code 0 = nil error, 1 = error, 3 = a scan; ready = handles found on the channel's memory
   queue afterwards; heaps in array order; maps sorted by id *)
Record cobs := mkCobs { co_code : Z; co_ready : list Z;
                        co_if : list (Z * Z * Z); co_ifmap : list (Z * Z * Z); co_ifcap : Z;
                        co_df : list (Z * Z * Z); co_dfmap : list Z; co_dfcap : Z }.

Fixpoint insert_z (x : Z) (l : list Z) : list Z :=
  match l with [] => [x] | y :: r => if x <=? y then x :: l else y :: insert_z x r end.
Definition sort_z (l : list Z) : list Z := fold_right insert_z [] l.
Fixpoint insert_t (x : Z * Z * Z) (l : list (Z * Z * Z)) : list (Z * Z * Z) :=
  match l with
  | [] => [x]
  | y :: r => if fst (fst x) <=? fst (fst y) then x :: l else y :: insert_t x r
  end.
Definition sort_t (l : list (Z * Z * Z)) : list (Z * Z * Z) := fold_right insert_t [] l.

Definition cop_step (max_msg : Z) (c : chan) (o : cop) : bool * chan * out :=
  let win t0 now t1 := (t0 <=? now) && (now <=? t1) in
  match o with
  | CStart now id client timeout => let '(c', x) := step max_msg c (StartInFlight now id client timeout) in (true, c', x)
  | CTouch t0 t1 now id client mt => let '(c', x) := step max_msg c (Touch now id client mt) in (win t0 now t1, c', x)
  | CFinish id client => let '(c', x) := step max_msg c (Finish id client) in (true, c', x)
  | CRequeue t0 t1 now id client delay => let '(c', x) := step max_msg c (Requeue now id client delay) in (win t0 now t1, c', x)
  | CPutDef t0 t1 now id delay => let '(c', x) := step max_msg c (PutDeferred now id delay) in (win t0 now t1, c', x)
  | CScanIF t => let '(c', x) := step max_msg c (ScanInFlight t) in (true, c', x)
  | CScanDef t => let '(c', x) := step max_msg c (ScanDeferred t) in (true, c', x)
  end.

Definition zlist_eqb := list_eqb Z.eqb.

Definition out_matches (x : out) (ob : cobs) : bool :=
  match x with
  | Ok => (co_code ob =? 0) && zlist_eqb (co_ready ob) []
  | Err => (co_code ob =? 1) && zlist_eqb (co_ready ob) []
  | Ready ids => ((co_code ob =? 3) || (co_code ob =? 0)) && zlist_eqb (co_ready ob) ids
  | Broken => false
  end.

Definition chan_matches (c : chan) (ob : cobs) : bool :=
  list_eqb trip_eqb (co_if ob) (map trip (arr (c_ifq c)))
  && list_eqb trip_eqb (co_df ob) (map trip (arr (c_dfq c)))
  && list_eqb trip_eqb (co_ifmap ob)
       (sort_t (map (fun m => (m_id m, m_client m, m_delivery m)) (c_inflight c)))
  && zlist_eqb (co_dfmap ob) (sort_z (c_deferred c))
  && (co_ifcap ob =? Z.of_nat (cap (c_ifq c))) && (co_dfcap ob =? Z.of_nat (cap (c_dfq c))).

(* the scan property on the real arrays: never early, complete, the rest untouched *)
Definition scan_monitor (before : list (Z * Z * Z)) (t : Z) (drained : list Z)
                        (after : list (Z * Z * Z)) : bool :=
  let due := filter (fun '(p, _, _) => p <=? t) before in
  let rest := filter (fun '(p, _, _) => negb (p <=? t)) before in
  forallb (fun v => match pri_of_val before v with Some p => p <=? t | None => false end) drained
  && zlist_eqb (sort_z (map (fun '(_, _, v) => v) due)) (sort_z drained)
  && pv_eqb (pv after) (pv rest)
  && (negb (obs_wf before) || obs_wf after).

Definition delivery_of (mp : list (Z * Z * Z)) (id : Z) : option Z :=
  match find (fun '(i, _, _) => i =? id) mp with Some (_, _, d) => Some d | None => None end.

Definition cop_monitor (max_msg : Z) (o : cop) (before after : cobs) : bool :=
  match o with
  | CStart now id client timeout =>
      negb (co_code after =? 0) ||
      match pri_of_val (co_if after) id, delivery_of (co_ifmap after) id with
      | Some p, Some d => p =? d + timeout
      | _, _ => false
      end
  | CTouch t0 t1 _ id client mt =>
      negb (co_code after =? 0) ||
      match pri_of_val (co_if after) id, delivery_of (co_ifmap before) id with
      | Some p, Some d =>
          (p <=? d + max_msg) && (Z.min (t0 + mt) (d + max_msg) <=? p) && (p <=? Z.min (t1 + mt) (d + max_msg))
      | _, _ => false
      end
  | CRequeue t0 t1 _ id _ delay =>
      negb (co_code after =? 0) ||
      (if delay =? 0 then zlist_eqb (co_ready after) [id]
       else match pri_of_val (co_df after) id with
            | Some p => (t0 + delay <=? p) && (p <=? t1 + delay)
            | None => false
            end)
  | CPutDef t0 t1 _ id delay =>
      negb (co_code after =? 0) ||
      match pri_of_val (co_df after) id with
      | Some p => (t0 + delay <=? p) && (p <=? t1 + delay)
      | None => false
      end
  | CScanIF t =>
      scan_monitor (co_if before) t (co_ready after) (co_if after)
      && zlist_eqb (sort_z (map (fun '(i, _, _) => i) (co_ifmap after)))
                   (sort_z (map (fun '(_, _, v) => v) (co_if after)))
  | CScanDef t =>
      scan_monitor (co_df before) t (co_ready after) (co_df after)
      && zlist_eqb (co_dfmap after) (sort_z (map (fun '(_, _, v) => v) (co_df after)))
  | CFinish _ _ => true
  end.

Fixpoint run_chan (max_msg : Z) (c : chan) (before : cobs) (steps : list (cop * cobs)) : bool * bool :=
  match steps with
  | [] => (true, true)
  | (o, ob) :: r =>
      let '(w, c', x) := cop_step max_msg c o in
      let agree := w && out_matches x ob && chan_matches c' ob in
      let mon := cop_monitor max_msg o before ob in
      let '(a, m) := run_chan max_msg c' ob r in
      (agree && a, mon && m)
  end.

(* ------------------------------------------------------------------ cases *)
Inductive case :=
  (* a recorded trace of a real nsqd, judged by the shared core judge with ledger check 4
     (a deferred message is not delivered before a scan whose clock reached its release time) *)
| CoreTrace (c : CoreJudge.case)
  (* real protocol.ByteToBase10: res = -1 for an error, the value otherwise (a uint64 as Z) *)
| B10 (p : list Z) (res : Z)
  (* the same for a batch of strings *)
| B10s (l : list (list Z * Z))
  (* real msToDuration *)
| MsDur (ms : Z) (ns : Z)
  (* live RDY: the token the server saw, accepted?, the client's ReadyCount afterwards *)
| Rdy (max_rdy : Z) (p : list Z) (accepted : bool) (count : Z)
  (* live REQ: outcome 0 = E_INVALID, 1 = deferred (deadline pri, REQ sent after t0 and seen
     deferred before t1), 2 = put back on the queue at once *)
| Req (max_req : Z) (p : list Z) (outcome t0 t1 pri : Z)
  (* live DPUB / HTTP defer: outcome 0 = refused, 1 = deferred (deadline), 2 = queued at once *)
| Dpub (max_req : Z) (p : list Z) (outcome t0 t1 pri : Z)
| HttpDefer (max_req : Z) (s : list Z) (outcome t0 t1 pri : Z)
  (* live IDENTIFY msg_timeout: accepted?, then (first delivery) pri - deliveryTS *)
| MsgTimeout (max_msg default v : Z) (accepted : bool) (effective : Z)
  (* real StartInFlightTimeout on a real channel *)
| StartIF (timeout delivery pri : Z)
  (* real StartDeferredTimeout, called between clock readings t0 and t1 *)
| StartDef (delay t0 t1 pri : Z)
  (* real TouchMessage, called between clock readings t0 and t1 *)
| TouchC (msg_timeout max_msg delivery t0 t1 pri_after : Z)
  (* a run of operations on a real inFlightPqueue (container = false) or on a real
     pqueue.PriorityQueue through container/heap (true), from an empty queue of capacity cap0 *)
| PqRun (container : bool) (cap0 : Z) (steps : list (pqop * pqobs))
  (* a real channel's processInFlightQueue(t) / processDeferredQueue(t): the real heap array
     before, t, the message handles that came out (in order), the real array after *)
| ChanScan (container : bool) (capq : Z) (before : list (Z * Z * Z)) (t : Z)
           (drained : list Z) (after : list (Z * Z * Z))
  (* a run of operations on one real channel (real nsqd, periodic scan parked), from its
     creation with heap capacity capq: after every operation both heaps, both maps *)
| ChanRun (max_msg capq : Z) (steps : list (cop * cobs))
  (* end to end with the real ticker (scan interval 100 ms): something that must wait [delay]
     was started no earlier than client time t_start and arrived at client time t_recv *)
| Wall (delay t_start t_recv : Z)
  (* one real util.UniqRands(quantity, maxval) call (queueScanLoop's channel selection) *)
| Uniq (quantity maxval : Z) (res : list Z).

Definition to_bytes (l : list Z) : bytes := map Z.to_N l.

Definition in_window (d t0 t1 pri : Z) : bool := (t0 + d <=? pri) && (pri <=? t1 + d).
(* model/implementation agreement only: time.Now().Add(d).UnixNano() wraps around int64 when
   now + d >= 2^63 (known finding K9: only reachable with max-req-timeout above ~236 years).
   The property monitors below use the exact [in_window]: a wrapped deadline is a failure. *)
Definition in_window_wrap (d t0 t1 pri : Z) : bool :=
  in_window d t0 t1 pri || in_window d t0 t1 (pri + 18446744073709551616).

(* the specification value of a delay parameter, from the mathematical value *)
Definition spec_ns (p : bytes) : Z := Z.of_N (dec_value p) * 1000000.

Definition b10_agree (p : list Z) (res : Z) : bool :=
  let b := to_bytes p in
  (match byte_to_base10 b with None => -1 | Some n => Z.of_N n end) =? res.
Definition b10_spec (p : list Z) (res : Z) : bool :=
  let b := to_bytes p in
  (if all_digits b then Z.min (Z.of_N (dec_value b)) 18446744073709551615 else -1) =? res.

Definition judge (c : case) : N :=
  match c with
  | CoreTrace cc => CoreJudge.judge_for 4 cc
  | B10 p res => verdict (b10_agree p res) (b10_spec p res)
  | B10s l =>
      verdict (forallb (fun '(p, res) => b10_agree p res) l) (forallb (fun '(p, res) => b10_spec p res) l)
  | MsDur ms ns =>
      verdict (ms_to_duration (Z.to_N ms) =? ns) (Z.min (ms * 1000000) 9223372036854775807 =? ns)
  | Rdy max_rdy p accepted count =>
      let b := to_bytes p in
      let agree := match rdy_param max_rdy b with
                   | RdyInvalid => negb accepted
                   | RdyOk c => accepted && (c =? count)
                   end in
      let ok := all_digits b && (Z.of_N (dec_value b) <=? max_rdy) in
      verdict agree (Bool.eqb ok accepted && (negb accepted || (count =? Z.of_N (dec_value b))))
  | Req max_req p outcome t0 t1 pri =>
      let b := to_bytes p in
      let agree := match req_param max_req b with
                   | ReqInvalid => outcome =? 0
                   | ReqDelay d => if d =? 0 then outcome =? 2
                                   else (outcome =? 1) && in_window_wrap d t0 t1 pri
                   end in
      let mon :=
        if all_digits b then
          let d := Z.min (spec_ns b) max_req in
          if d =? 0 then outcome =? 2 else (outcome =? 1) && in_window d t0 t1 pri
        else outcome =? 0 in
      verdict agree mon
  | Dpub max_req p outcome t0 t1 pri =>
      let b := to_bytes p in
      let agree := match dpub_param max_req b with
                   | DpubInvalid => outcome =? 0
                   | DpubDelay d => if d =? 0 then outcome =? 2
                                    else (outcome =? 1) && in_window_wrap d t0 t1 pri
                   end in
      let mon :=
        if all_digits b && (spec_ns b <=? max_req) then
          let d := spec_ns b in
          if d =? 0 then outcome =? 2 else (outcome =? 1) && in_window d t0 t1 pri
        else outcome =? 0 in
      verdict agree mon
  | HttpDefer max_req s outcome t0 t1 pri =>
      let b := to_bytes s in
      let agree := match http_defer_raw max_req b with
                   | DpubInvalid => outcome =? 0
                   | DpubDelay d => if d =? 0 then outcome =? 2
                                    else (outcome =? 1) && in_window_wrap d t0 t1 pri
                   end in
      (* spec: an optionally signed decimal integer whose value v satisfies 0 <= v*10^6 <= max *)
      let '(neg, body) := match b with
                          | 43%N :: r => (false, r)
                          | 45%N :: r => (true, r)
                          | _ => (false, b)
                          end in
      let wellformed := negb (match body with [] => true | _ => false end) && all_digits body in
      let v := if neg then - Z.of_N (dec_value body) else Z.of_N (dec_value body) in
      let mon :=
        if wellformed && (0 <=? v) && (v * 1000000 <=? max_req) then
          let d := v * 1000000 in
          if d =? 0 then outcome =? 2 else (outcome =? 1) && in_window d t0 t1 pri
        else outcome =? 0 in
      verdict agree mon
  | MsgTimeout max_msg default v accepted effective =>
      let agree := match set_msg_timeout max_msg default v with
                   | None => negb accepted
                   | Some t => accepted && (t =? effective)
                   end in
      let ok := (v =? 0) || ((1000 <=? v) && (v * 1000000 <=? max_msg)) in
      let want := if v =? 0 then default else v * 1000000 in
      verdict agree (Bool.eqb ok accepted && (negb accepted || (effective =? want)))
  | StartIF timeout delivery pri =>
      verdict (start_deadline delivery timeout =? pri) (delivery + timeout =? pri)
  | StartDef delay t0 t1 pri =>
      verdict ((start_deadline t0 delay <=? pri) && (pri <=? start_deadline t1 delay))
              ((t0 + delay <=? pri) && (pri <=? t1 + delay))
  | TouchC mt max_msg delivery t0 t1 pri_after =>
      verdict ((touch_deadline t0 mt delivery max_msg <=? pri_after)
               && (pri_after <=? touch_deadline t1 mt delivery max_msg))
              ((pri_after <=? delivery + max_msg)
               && (Z.min (t0 + mt) (delivery + max_msg) <=? pri_after)
               && (pri_after <=? Z.min (t1 + mt) (delivery + max_msg)))
  | PqRun container cap0 steps =>
      let '(a, m) := run_pq container (mkPq [] (Z.to_nat cap0)) [] steps in
      verdict a m
  | ChanScan container capq before t drained after =>
      let q := mkPq (arr_of before) (Z.to_nat capq) in
      let '(outs, q') := if container then ch_scan q t else if_scan q t in
      let agree := zlist_eqb (map val outs) drained
                   && list_eqb trip_eqb after (map trip (arr q')) in
      verdict agree (scan_monitor before t drained after)
  | ChanRun max_msg capq steps =>
      let '(a, m) := run_chan max_msg (empty_chan (Z.to_nat capq))
                              (mkCobs 0 [] [] [] capq [] [] capq) steps in
      verdict a m
  | Wall delay t_start t_recv =>
      (* never early (exact); late by at most a scan interval plus a 10 s guard band *)
      let ok := (delay <=? t_recv - t_start) && (t_recv - t_start <=? delay + 10000000000) in
      verdict ok ok
  | Uniq quantity maxval res =>
      let ok := (Z.of_nat (length res) =? Z.min quantity maxval)
                && forallb (fun x => (0 <=? x) && (x <? maxval)) res
                && zlist_eqb (sort_z res) (sort_z (nodup Z.eq_dec res)) in
      (* the model cannot predict the random picks; it predicts their shape, and all of
         them when quantity >= maxval *)
      let all := negb (maxval <=? quantity) || zlist_eqb (sort_z res) (map Z.of_nat (seq 0 (Z.to_nat maxval))) in
      verdict (ok && all) (ok && all)
  end.
