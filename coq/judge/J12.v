(* Correspondence judge for C12 (message ids). No proofs here. *)
From Coq Require Import List ZArith Bool NArith.
From NSQV Require Import model.Judge model.Guid.
Import ListNotations.
Open Scope Z_scope.

Inductive case :=
  (* one real NewGUID call from a given factory state, clock reading known exactly *)
| Call (node seq lastts lastid ts : Z) (code : Z) (id seq' lastts' lastid' : Z)
  (* guid.Hex of a value *)
| HexOf (id : Z) (rendered : list Z)
  (* ids handed out by one real topic to concurrent publishers (one list per goroutine, in
     the order that goroutine received them) *)
| Burst (per_goroutine : list (list Z))
  (* the node-id start-up test: did a daemon with this id start? *)
| NodeId (id : Z) (started : bool).

Definition code_of (r : gres) : Z :=
  match r with GId _ => 0 | GTimeBackwards => 1 | GSequenceExpired => 2 | GIDBackwards => 3 end.

Fixpoint strict_inc (lo : Z) (l : list Z) : bool :=
  match l with [] => true | x :: r => (lo <? x) && strict_inc x r end.

(* merge of two sorted lists, used to check global uniqueness *)
Fixpoint merge (fuel : nat) (a b : list Z) : list Z :=
  match fuel with
  | O => a ++ b
  | S f => match a, b with
           | [], _ => b
           | _, [] => a
           | x :: a', y :: b' => if x <=? y then x :: merge f a' b else y :: merge f a b'
           end
  end.

Definition merge_all (ls : list (list Z)) : list Z :=
  fold_left (fun acc l => merge (length acc + length l) acc l) ls [].

Definition is_hex_char (c : Z) : bool := ((48 <=? c) && (c <=? 57)) || ((97 <=? c) && (c <=? 102)).

Definition zlist_eqb := list_eqb Z.eqb.

Definition judge (c : case) : N :=
  match c with
  | Call node seq lastts lastid ts code id seq' lastts' lastid' =>
      let '(s', r) := new_guid (mkG node seq lastts lastid) ts in
      let agree :=
        (code_of r =? code) && (g_seq s' =? seq') && (g_lastts s' =? lastts') && (g_lastid s' =? lastid')
        && (match r with GId i => i =? id | _ => true end) in
      let monitor :=
        if code =? 0 then (lastid <? id) && (lastid' =? id) else (lastid' =? lastid) in
      verdict agree monitor
  | HexOf id rendered =>
      verdict (zlist_eqb (hex id) rendered)
              ((Nat.eqb (length rendered) 16) && forallb is_hex_char rendered)
  | Burst per =>
      let each := forallb (fun l => match l with [] => true | x :: r => strict_inc x r end) per in
      let all := merge_all per in
      let uniq := match all with [] => true | x :: r => strict_inc x r end in
      verdict (each && uniq) (each && uniq)
  | NodeId id started =>
      verdict (Bool.eqb (node_id_ok id) started) (Bool.eqb (negb ((id <? 0) || (1023 <? id))) started)
  end.
