(* Correspondence judge for C16.  One case is
     - a scenario: a real nsqd against real nsqlookupds behind fault-injecting proxies,
       observed after every step (phase) once it had settled or the deadline had passed;
     - one call of the real readResponseBounded on a byte string;
     - one topic creation with lookupd-known channels and the first message(s).
   No proofs here. *)
From Coq Require Import List NArith ZArith Bool.
From RecordUpdate Require Import RecordUpdate.
From NSQV Require Import model.Judge model.Sync.
Import ListNotations.
Open Scope bool_scope.
Open Scope N_scope.

Record phase := mkPhase {
  p_ops : list op;            (* what was done, as model operations *)
  p_up : list bool;           (* per link: a real nsqlookupd is up there and was read *)
  p_conf : list bool;         (* per link: it is in nsqd's lookupd list (harness bookkeeping) *)
  p_regs : list (list key);   (* per link: this producer's registrations (from /debug) *)
  p_live : list key;          (* nsqd's topics and channels (from /stats) *)
  p_alive : bool;             (* nsqd answers /ping and its process has not exited *)
  p_ok : bool                 (* publish+consume round trips succeeded; /nodes, /lookup, /channels agree with /debug *)
}.

Inductive case :=
| Scenario (phases : list phase)
| Rrb (limit : Z) (buf : list N) (code : N) (body : list N) (unread : nat)
| Precreate (t : N) (known : list N)
            (bmode : N)            (* second nsqlookupd: 0 none, 1 healthy, 2 its HTTP /channels query fails,
                                      3 removed from nsqd's list before the creation, 4 added to it at run time,
                                      5 restarted (new process, new ports) and then told known_b *)
            (known_b : list N)     (* what the second one knows *)
            (tcp_a tcp_b : N)      (* the nsqd -> nsqlookupd TCP connection at the creation (HTTP interface healthy):
                                      0 connected, 1 cut + reconnects refused, 2 cut + reconnects accepted then closed,
                                      3 replies withheld, 4 replies replaced by a negative length prefix *)
            (concurrent : bool) (created : list N)
            (queues : list (N * list N)) (first : N) (ok : bool).

(* ---------------------------------------------------------------- scenarios *)
Fixpoint links_agree (ls : list link) (a : nat) (up : list bool) (regs : list (list key)) : bool :=
  match up, regs with
  | u :: up', r :: regs' =>
      (if u then keys_eqb (l_regs (nth a ls fresh_link)) r else true) && links_agree ls (S a) up' regs'
  | _, _ => true
  end.

(* the property on the implementation's own observation: every observable nsqlookupd
   lists exactly nsqd's current topics and channels if it is configured, nothing otherwise *)
Fixpoint regs_ok (up conf : list bool) (regs : list (list key)) (live : list key) : bool :=
  match up, conf, regs with
  | u :: up', c :: conf', r :: regs' =>
      (if u then keys_eqb r (if c then live else []) else true) && regs_ok up' conf' regs' live
  | _, _, _ => true
  end.

Fixpoint judge_phases (x : state) (ps : list phase) : bool * bool :=
  match ps with
  | [] => (true, true)
  | p :: r =>
      let x' := run repo_cfg x (p_ops p) in
      let agree :=
        match x' with
        | Run s => links_agree (links s) 0%nat (p_up p) (p_regs p)
                   && keys_eqb (live_keys (objs s)) (p_live p) && p_alive p
        | Crashed => negb (p_alive p)
        end in
      let monitor := p_alive p && p_ok p && regs_ok (p_up p) (p_conf p) (p_regs p) (p_live p) in
      let '(a, m) := judge_phases x' r in
      (agree && a, monitor && m)
  end.

(* ---------------------------------------------------------------- the reader *)
Definition rrb_cfg (limit : Z) : cfg := repo_cfg <| g_max := limit |>.

Definition judge_rrb (limit : Z) (buf : list N) (code : N) (body : list N) (unread : nat) : bool * bool :=
  let agree :=
    match read_response_bounded (rrb_cfg limit) buf with
    | RROk b rest => (code =? 0) && bytes_eqb b body && Nat.eqb (length rest) unread
    | RRErr => code =? 1
    | RRPanic => code =? 2
    end in
  (agree, negb (code =? 2)).

(* ---------------------------------------------------------------- pre-creation *)
Definition n_mem (x : N) (l : list N) : bool := existsb (N.eqb x) l.
Definition n_sub (a b : list N) : bool := forallb (fun x => n_mem x b) a.

Definition neg_prefix : list N := [255; 255; 255; 255].

(* the fault on link a (a script long enough to outlast every later heartbeat of the case),
   followed by enough heartbeats for nsqd to have noticed *)
Definition tcp_ops (a : nat) (m : N) : list op :=
  if m =? 1 then [FReply a [RClose]; Tick; FAccept a (AClose :: repeat ARefuse 12); Tick; Tick]
  else if m =? 2 then [FReply a [RClose]; Tick; FAccept a (repeat AClose 12); Tick; Tick]
  else if m =? 3 then [FReply a (repeat RStall 12); Tick]
  else if m =? 4 then [FReply a (repeat (RBytes neg_prefix) 12); Tick; Tick]
  else [].

Definition pre_ops (t : N) (known : list N) (bmode : N) (known_b : list N) (tcp_a tcp_b : N) (concurrent : bool) : list op :=
  let ka := map (fun c => (t, c)) known in
  let kb := map (fun c => (t, c)) known_b in
  (if bmode =? 0 then [Reconfigure [0%nat]; FKnown 0%nat ka]
   else if bmode =? 4 then [Reconfigure [0%nat]; Reconfigure [0%nat; 1%nat]; FKnown 0%nat ka; FKnown 1%nat kb]
   else if bmode =? 5 then [Reconfigure [0%nat; 1%nat]; FDown 1%nat; FUp 1%nat; Tick; Tick; FKnown 0%nat ka; FKnown 1%nat kb]
   else [Reconfigure [0%nat; 1%nat]; FKnown 0%nat ka; FKnown 1%nat kb]
        ++ (if bmode =? 2 then [FHttp 1%nat false] else if bmode =? 3 then [Reconfigure [0%nat]] else []))
  ++ tcp_ops 0%nat tcp_a ++ (if bmode =? 0 then [] else tcp_ops 1%nat tcp_b)
  ++ [TopicCreate t]
  ++ (if concurrent then [Put t 2; Pump t] else [])
  ++ repeat (TopicAdvance t) (2 + length known + length known_b)
  ++ [Put t 1; Pump t; Pump t].

Definition model_queues (s : st) (t : N) : list (N * list N) :=
  match find_topic (objs s) t with
  | Some i => map (fun j => (o_c (getO (objs s) j), d_q (getD (dats s) j))) (chans_of (objs s) i)
  | None => []
  end.

Fixpoint assoc_q (c : N) (l : list (N * list N)) : option (list N) :=
  match l with
  | [] => None
  | (k, q) :: r => if N.eqb k c then Some q else assoc_q c r
  end.

Definition judge_pre (t : N) (known : list N) (bmode : N) (known_b : list N) (tcp_a tcp_b : N) (concurrent : bool)
                     (created : list N) (queues : list (N * list N)) (first : N) (ok : bool) : bool * bool :=
  let agree :=
    match run repo_cfg (Run init) (pre_ops t known bmode known_b tcp_a tcp_b concurrent) with
    | Run s =>
        let mq := model_queues s t in
        let mc := map fst mq in
        n_sub mc created && n_sub created mc &&
        forallb (fun cq => match assoc_q (fst cq) mq with Some q => list_eqb N.eqb q (snd cq) | None => false end) queues &&
        Nat.eqb (length queues) (length created)
    | Crashed => false
    end in
  (* the property on the observation alone: every non-ephemeral channel known to a nsqlookupd of
     nsqd's list whose HTTP interface ANSWERS exists and got the first message first — whatever the
     state of the TCP connection to it (tcp_a, tcp_b do not occur here); nothing else was created *)
  let answering := known ++ (if (bmode =? 1) || (bmode =? 4) || (bmode =? 5) then known_b else []) in
  let monitor :=
    ok &&
    forallb (fun c => if eph c then negb (n_mem c created)
                      else n_mem c created &&
                           match assoc_q c queues with Some (m :: _) => N.eqb m first | _ => false end) answering &&
    forallb (fun c => n_mem c answering && negb (eph c)) created in
  (agree, monitor).

Definition judge (c : case) : N :=
  let '(a, m) :=
    match c with
    | Scenario ps => judge_phases (Run init) ps
    | Rrb limit buf code body unread => judge_rrb limit buf code body unread
    | Precreate t known bmode known_b tcp_a tcp_b conc created queues first ok =>
        judge_pre t known bmode known_b tcp_a tcp_b conc created queues first ok
    end in
  verdict a m.
