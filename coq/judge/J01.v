(* Correspondence judge for C01: the shared core trace judge with this property's monitor. *)
From Coq Require Import NArith.
From NSQV Require Import judge.CoreJudge.
Definition case := CoreJudge.case.
Definition judge (c : case) : N := judge_for 1 c.
