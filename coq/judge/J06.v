(* Correspondence judge for C06 (hard-kill consistency of nsqd.dat).  No proofs here.

   A [Churn] case is what one sequential HTTP client did to a real nsqd subprocess over
   several start/kill cycles on one data path.  The model is driven along the canonical
   schedule of that history (each request runs to its answer, pending Notify persists
   run only where the driver established exact idleness); because persists never change
   the live state, the live history of a sequential client does not depend on the
   schedule, and the set of documents nsqd.dat may hold at the kill is
       { snapshot h | h in the live history since the last persist known to have begun }.
   agree   = statuses, /stats views, idle file contents, rename counts, the file found
             after each kill (member of that set) and the syscall projection are what the
             model allows; after checking, the model continues from the OBSERVED file.
   monitor = the property on the implementation's own observations only. *)
From Coq Require Import List NArith Bool Arith.
From NSQV Require Import model.Judge model.Names model.Meta model.PathLock.
Import ListNotations.
Open Scope nat_scope.
Open Scope bool_scope.

(* ---------------------------------------------------------------- documents modulo order *)
Definition dchan_eqb (a b : dchan) : bool := name_eqb (dc_name a) (dc_name b) && Bool.eqb (dc_paused a) (dc_paused b).
Definition sub {A} (eqb : A -> A -> bool) (x y : list A) : bool := forallb (fun a => existsb (eqb a) y) x.
Definition set_eq {A} (eqb : A -> A -> bool) (x y : list A) : bool :=
  Nat.eqb (length x) (length y) && sub eqb x y && sub eqb y x.
Definition dtopic_eqb (a b : dtopic) : bool :=
  name_eqb (dt_name a) (dt_name b) && Bool.eqb (dt_paused a) (dt_paused b) && set_eq dchan_eqb (dt_chans a) (dt_chans b).
Definition doc_equiv (a b : doc) : bool := set_eq dtopic_eqb a b.
Definition odoc_equiv (a b : option doc) : bool :=
  match a, b with None, None => true | Some x, Some y => doc_equiv x y | _, _ => false end.

(* /stats shows every topic and channel of the maps, ephemeral ones included *)
Definition view_topic (t : topic) : dtopic := mkDT (t_name t) (t_paused t) (map snap_chan (t_chans t)).
Definition view (l : live) : doc := map view_topic l.
(* what GetMetadata(false) keeps of a view *)
Definition persistable (d : doc) : doc :=
  map (fun e => mkDT (dt_name e) (dt_paused e) (filter (fun c => negb (eph (dc_name c))) (dt_chans e)))
      (filter (fun e => negb (eph (dt_name e))) d).

(* ---------------------------------------------------------------- canonical schedules *)
Definition K : N := 4096%N.
Fixpoint settle (fuel : nat) (s : st) : st :=
  match fuel with
  | O => s
  | S f =>
      match lock s with
      | Some _ => settle f (step s (EPersist K))
      | None => match pending s with O => s | S _ => settle f (step s ETask) end
      end
  end.
Fixpoint drive (fuel : nat) (i : N) (s : st) : st :=
  match fuel with
  | O => s
  | S f =>
      match get_thread i (threads s) with
      | None => s
      | Some _ => match lock s with
                  | Some _ => drive f i (step s (EPersist K))
                  | None => drive f i (step s (EStep i))
                  end
      end
  end.
Definition fuel_for (s : st) : nat := 64 + 16 * (length (live_ s) + pending s).
Definition run_op (s : st) (i : N) (o : op) : st := drive (fuel_for s) i (step s (EStart i o)).
Definition settled (s : st) : st := settle (fuel_for s + 8 * pending s * (8 + length (live_ s))) s.
Definition quiet (s : st) : bool :=
  match lock s, pending s, threads s with None, O, [] => true | _, _, _ => false end.

(* the live states nsqd.dat may reflect: those since the job that wrote it began *)
Definition window (s : st) (lo : nat) : list live := firstn (S (length (hist s) - lo)) (hist s).
Definition in_window (s : st) (lo : nat) (f : option doc) : bool :=
  match f with
  | None => Nat.eqb lo 0
  | Some d => existsb (fun h => doc_equiv d (snapshot h)) (window s lo)
  end.
(* continue from the observed file: position of the newest history entry it equals *)
Fixpoint newest_pos (d : doc) (hs : list live) (n : nat) : nat :=
  match hs with
  | [] => n
  | h :: r => if doc_equiv d (snapshot h) then n else newest_pos d r (pred n)
  end.
Definition adopt (s : st) (f : option doc) : st :=
  match f with
  | None =>
      mkS (up s) (broken s) (live_ s) (next_id s) (threads s) (pending s) (lock s)
          (mkFS None (tmps (fs s))) (hist s) (acks s) 0 (commits s)
  | Some d =>
      let c := mkF d (doc_size d) true in
      mkS (up s) (broken s) (live_ s) (next_id s) (threads s) (pending s) (lock s)
          (mkFS (Some c) (tmps (fs s))) (hist s) (acks s) (newest_pos d (hist s) (length (hist s))) (commits s)
  end.

(* ---------------------------------------------------------------- recorded history *)
Inductive hop :=
| HOp (o : op) (status : N) (seen : option doc)   (* answered request, then GET /stats (None: the daemon died first) *)
| HIdle (file : option doc) (renames : N).    (* exact idleness reached: nsqd.dat content, persist:after-rename hits *)

Inductive boot_res :=
| BootOK (seen : doc)        (* the daemon served /stats *)
| BootKilled                 (* an armed kill point fired before it served anything *)
| BootFailed.                (* it exited by itself *)

Inductive sysop := SOpen (tmp : N) | SWrite (tmp : N) | SFsync (tmp : N) | SClose (tmp : N) | SRename (tmp : N)
                 | SBadDat.  (* nsqd.dat opened for writing / written / unlinked *)

Record cycle := mkCy {
  cy_boot : boot_res;
  cy_ops : list hop;
  cy_unacked : option op;        (* the request in flight when the daemon died *)
  cy_idle_kill : bool;           (* exact idleness was established immediately before the kill *)
  cy_samples : list doc;         (* distinct complete documents the concurrent reader saw *)
  cy_bad_samples : N;            (* reads of nsqd.dat that were not a complete document *)
  cy_file_ok : bool;             (* after the kill nsqd.dat is absent or a complete document *)
  cy_file : option doc;          (* ... and this is it *)
  cy_sys : list sysop            (* strace projection on nsqd.dat*, [] when not traced *)
}.

(* what the first daemon is doing when a second one is started on its data path *)
Inductive lphase :=
| LBoot               (* inside the start-up PersistMetadata, not serving yet *)
| LServing            (* idle *)
| LPersisting         (* a Notify goroutine inside PersistMetadata *)
| LExitTopicsClosed   (* SIGTERM: Exit() has closed the topics (parked at the verif hook there) *)
| LExitSubsystems     (* SIGTERM: Exit() waits for the background goroutines, one still pending *)
| LExited             (* SIGTERM: the process has ended by itself *)
| LKilled.            (* SIGKILL *)
(* the property's reading of "in use": until the daemon's Exit has returned / the process is gone *)
Definition phase_in_use (ph : lphase) : bool :=
  match ph with LExited | LKilled => false | _ => true end.
(* the model (model/PathLock.v, life program built from the source) brought to that phase *)
Definition first_at (ph : lphase) : world :=
  match ph with
  | LBoot => first_until lbl_boot_persist
  | LServing => first_until lbl_signal
  | LPersisting => lstep_src (first_until lbl_signal) (EvBg 0)
  | LExitTopicsClosed => first_until lbl_topics_closed
  | LExitSubsystems => first_until lbl_wait
  | LExited => first_gone
  | LKilled => lstep_src (first_until lbl_signal) (EvKill 0)
  end.

Inductive case :=
| Churn (cycles : list cycle)
| LoadCase (present : bool) (d : doc) (full : bool) (started : bool) (seen : doc)
  (* data-path lock: a second daemon is started on the data path while the first one is at phase
     [ph] of its life.  second_started: it came to serve; second_refused: it exited non-zero by
     itself without serving; dat_same: nsqd.dat is the same file with the same bytes after the
     attempt; first_still: the first daemon is still where it was; then everything is killed and a
     third daemon is started: third_started, nsqd.dat before it, what it shows *)
| PathLock (ph : lphase) (second_started second_refused dat_same first_still third_started : bool)
           (file : option doc) (seen : doc)
  (* two concurrent deleters parked between lookup and map removal, a persist parked between
     two topic reads of GetMetadata, SIGKILL right after its rename (known finding K8):
     the live states the daemon passed through, nsqd.dat after the kill, /stats after restart *)
| Mix (passed : list doc) (file : option doc) (restarted : bool) (seen : doc)
  (* write fault: requests [pre] (idle after each), then from the next persist on every write
     of the temp file fails (RLIMIT_FSIZE); requests [post] (idle after each); SIGKILL; restart.
     before/after: nsqd.dat when the fault was armed / after the kill (after_ok: absent or complete) *)
| Fault (pre post : list op) (before : option doc) (after_ok : bool) (after : option doc)
        (restarted : bool) (seen : doc).

(* ---------------------------------------------------------------- syscall projection *)
(* model side: the trace is a sequence of complete persist_ops runs (writes may repeat)
   followed by a prefix of one *)
Definition fop_matches (f : fop) (x : sysop) : bool :=
  match f, x with
  | FOpen a, SOpen b | FWrite a, SWrite b | FFsync a, SFsync b | FClose a, SClose b | FRename a, SRename b => N.eqb a b
  | _, _ => false
  end.
Fixpoint proto (todo : list fop) (wrote : bool) (tr : list sysop) : bool :=
  match tr with
  | [] => true                                   (* killed anywhere *)
  | x :: r =>
      match todo with
      | [] => match x with SOpen a => proto (tl (persist_ops a)) false r | _ => false end
      | FWrite a :: rest =>
          if fop_matches (FWrite a) x then proto todo true r          (* a write call; more may follow *)
          else if wrote then
            match rest with
            | y :: rest' => if fop_matches y x then proto rest' false r else false
            | [] => false
            end
          else false
      | y :: rest => if fop_matches y x then proto rest false r else false
      end
  end.
Definition proto_ok (tr : list sysop) : bool := proto [] false tr.

(* property side: nsqd.dat is only ever produced by renaming a temp file that was
   written and then fsynced *)
Fixpoint synced_renames (tr : list sysop) (synced : list N) : bool :=
  match tr with
  | [] => true
  | SOpen a :: r | SWrite a :: r => synced_renames r (filter (fun b => negb (N.eqb a b)) synced)
  | SFsync a :: r => synced_renames r (a :: synced)
  | SClose _ :: r => synced_renames r synced
  | SRename a :: r => existsb (N.eqb a) synced && synced_renames r (filter (fun b => negb (N.eqb a b)) synced)
  | SBadDat :: _ => false
  end.

(* ---------------------------------------------------------------- monitor helpers (no model) *)
Definition is_sync_op (o : op) : bool :=
  match o with
  | OPauseTopic _ _ | OPauseChan _ _ _ | OSync => true
  | ODeleteTopic t => negb (eph t)
  | ODeleteChan t c => negb (eph t) && negb (eph c)
  | _ => false
  end.

(* what a view may look like while a request is being carried out (its specification) *)
Definition d_without (t : name) (v : doc) : doc := filter (fun e => negb (name_eqb (dt_name e) t)) v.
Definition d_upd (t : name) (f : dtopic -> dtopic) (v : doc) : doc :=
  map (fun e => if name_eqb (dt_name e) t then f e else e) v.
Definition d_has (t : name) (v : doc) : bool := existsb (fun e => name_eqb (dt_name e) t) v.
Definition dc_has (c : name) (cs : list dchan) : bool := existsb (fun x => name_eqb (dc_name x) c) cs.
Definition spec_post (o : op) (v : doc) : list doc :=
  match o with
  | OCreateTopic t => if d_has t v then [v] else [v; v ++ [mkDT t false []]]
  | ODeleteTopic t => [v; d_upd t (fun e => mkDT (dt_name e) (dt_paused e) []) v; d_without t v]
  | OPauseTopic t b => [v; d_upd t (fun e => mkDT (dt_name e) b (dt_chans e)) v]
  | OCreateChan t c =>
      [v; d_upd t (fun e => if dc_has c (dt_chans e) then e else mkDT (dt_name e) (dt_paused e) (dt_chans e ++ [mkDC c false])) v]
  | ODeleteChan t c =>
      [v; d_upd t (fun e => mkDT (dt_name e) (dt_paused e) (filter (fun x => negb (name_eqb (dc_name x) c)) (dt_chans e))) v]
  | OPauseChan t c b =>
      [v; d_upd t (fun e => mkDT (dt_name e) (dt_paused e)
                              (map (fun x => if name_eqb (dc_name x) c then mkDC c b else x) (dt_chans e))) v]
  | OSync => [v]
  end.

(* the views the daemon itself reported since the last persist it acknowledged *)
Definition last_of (acc : list doc) : list doc := match rev acc with x :: _ => [x] | [] => [] end.
(* the view after an answered request that could not be followed by /stats: its specified effect *)
Definition view_after (o : op) (st : N) (seen : option doc) (acc : list doc) : list doc :=
  match seen with
  | Some v => [v]
  | None => match rev acc with
            | p :: _ => if N.eqb st 200 then last_of (spec_post o p) else [p]
            | [] => [] end
  end.
Fixpoint views_since_sync (ops : list hop) (acc : list doc) : list doc :=
  match ops with
  | [] => acc
  | HOp o st seen :: r =>
      if is_sync_op o && N.eqb st 200 then views_since_sync r (view_after o st seen acc)
      else views_since_sync r (acc ++ view_after o st seen acc)
  | HIdle _ _ :: r => views_since_sync r (last_of acc)
  end.
Definition last_view (c : cycle) : option doc :=
  match rev (flat_map (fun h => match h with HOp _ _ (Some v) => [v] | _ => [] end) (cy_ops c)) with
  | v :: _ => Some v
  | [] => match cy_boot c with BootOK v => Some v | _ => None end
  end.

(* flags acknowledged in this cycle and not touched afterwards *)
Definition touches_topic (o : op) (t : name) : bool :=
  match o with
  | OCreateTopic x | ODeleteTopic x | OPauseTopic x _ => name_eqb x t
  | _ => false
  end.
Definition touches_chan (o : op) (t c : name) : bool :=
  match o with
  | ODeleteTopic x => name_eqb x t
  | OCreateChan x y | ODeleteChan x y | OPauseChan x y _ => name_eqb x t && name_eqb y c
  | _ => false
  end.
Definition hop_op (h : hop) : list op := match h with HOp o _ _ => [o] | _ => [] end.
Fixpoint acked_flags_ok (ops : list hop) (unacked : list op) (f : doc) : bool :=
  match ops with
  | [] => true
  | HOp (OPauseTopic t b) 200%N _ :: r =>
      let later := flat_map hop_op r ++ unacked in
      (existsb (fun o => touches_topic o t) later || eph t ||
       existsb (fun e => name_eqb (dt_name e) t && Bool.eqb (dt_paused e) b) f)
      && acked_flags_ok r unacked f
  | HOp (OPauseChan t c b) 200%N _ :: r =>
      let later := flat_map hop_op r ++ unacked in
      (existsb (fun o => touches_chan o t c) later || eph t || eph c ||
       existsb (fun e => name_eqb (dt_name e) t &&
                         existsb (fun x => name_eqb (dc_name x) c && Bool.eqb (dc_paused x) b) (dt_chans e)) f)
      && acked_flags_ok r unacked f
  | _ :: r => acked_flags_ok r unacked f
  end.

Definition monitor_cycle (c : cycle) (next_boot : option boot_res) : bool :=
  let boot_views := match cy_boot c with BootOK v => [v] | _ => [] end in
  let cand0 := views_since_sync (cy_ops c) boot_views in
  let cand := match cy_unacked c, rev cand0 with
              | Some o, v :: _ => cand0 ++ spec_post o v
              | _, _ => cand0 end in
  (* the metadata is absent or a complete document, at every sampled instant and after the kill *)
  cy_file_ok c && N.eqb (cy_bad_samples c) 0
  && match cy_boot c with BootFailed => false | _ => true end
  (* ... written only by rename of a written-then-fsynced temp file *)
  && synced_renames (cy_sys c) []
  (* the file after the kill is a state the daemon reported since its last acknowledged persist
     (when the boot itself was killed there is no report to compare with) *)
  && match cy_boot c, cy_file c with
     | BootOK _, Some f => existsb (fun v => doc_equiv f (persistable v)) cand
     | BootOK _, None => false
     | _, _ => true
     end
  (* acknowledged pause/unpause are in the file *)
  && match cy_file c with Some f => acked_flags_ok (cy_ops c) (match cy_unacked c with Some o => [o] | None => [] end) f
                        | None => true end
  (* daemon idle => the file is exactly the live state *)
  && (if cy_idle_kill c then
        match cy_file c, last_view c with
        | Some f, Some v => doc_equiv f (persistable v)
        | _, _ => false
        end
      else true)
  (* every idle point inside the cycle too *)
  && (fix idle_ok (ops : list hop) (last : option doc) : bool :=
        match ops with
        | [] => true
        | HOp _ _ (Some v) :: r => idle_ok r (Some v)
        | HOp _ _ None :: r => idle_ok r last
        | HIdle f _ :: r => match f, last with
                            | Some d, Some v => doc_equiv d (persistable v)
                            | _, _ => false end && idle_ok r last
        end) (cy_ops c) (match cy_boot c with BootOK v => Some v | _ => None end)
  (* the restart shows what the file holds *)
  && match next_boot, cy_file c with
     | Some (BootOK v), Some f => doc_equiv v f
     | Some (BootOK v), None => doc_equiv v []
     | Some BootFailed, _ => false
     | _, _ => true
     end.

Fixpoint monitor_cycles (cs : list cycle) : bool :=
  match cs with
  | [] => true
  | c :: r => monitor_cycle c (match r with n :: _ => Some (cy_boot n) | [] => None end) && monitor_cycles r
  end.

(* ---------------------------------------------------------------- agreement with the model *)
Definition status_of (i : N) (s : st) : N :=
  match find (fun a => N.eqb (fst a) i) (acks s) with Some (_, x) => x | None => 0%N end.

(* Topic.DeleteExistingChannel: when the last channel of an EPHEMERAL topic is gone the topic
   deletes itself (go deleter.Do(DeleteExistingTopic)); the driver waits until /stats shows it *)
Definition auto_delete (o : op) (status : N) (s : st) (i : N) : st :=
  match o with
  | ODeleteChan t _ =>
      if N.eqb status 200 && eph t then
        match find_topic t (live_ s) with
        | Some tp => match t_chans tp with [] => run_op s i (ODeleteTopic t) | _ => s end
        | None => s
        end
      else s
  | _ => s
  end.

(* returns (state, agree so far, next thread id) *)
Fixpoint agree_ops (ops : list hop) (s : st) (i : N) : st * bool :=
  match ops with
  | [] => (s, true)
  | HOp o status seen :: r =>
      let s1 := auto_delete o status (run_op s i o) (i + 500000)%N in
      let ok := N.eqb (status_of i s1) status
                && match seen with Some v => doc_equiv v (view (live_ s1)) | None => true end
                && match get_thread i (threads s1) with None => true | Some _ => false end in
      let '(s2, ok2) := agree_ops r s1 (N.succ i) in (s2, ok && ok2)
  | HIdle f renames :: r =>
      let s1 := settled s in
      let ok := quiet s1 && odoc_equiv f (option_map f_doc (dat (fs s1)))
                && odoc_equiv f (Some (snapshot (live_ s1)))
                && N.eqb renames (N.of_nat (commits s1)) in
      let '(s2, ok2) := agree_ops r s1 i in (s2, ok && ok2)
  end.

Definition agree_cycle (s : st) (c : cycle) : st * bool :=
  let s1 := step s ERestart in
  let lo0 := dat_lo s1 in
  match cy_boot c with
  | BootFailed => (s1, broken s1)
  | BootKilled =>
      let s2 := settled s1 in
      let ok := up s1 && in_window s2 lo0 (cy_file c)
                && forallb (fun d => in_window s2 lo0 (Some d)) (cy_samples c)
                && proto_ok (cy_sys c) in
      (step (adopt s2 (cy_file c)) EKill, ok)
  | BootOK seen =>
      let s2 := settled s1 in
      let ok0 := up s1 && doc_equiv seen (view (live_ s2)) in
      let '(s3, ok1) := agree_ops (cy_ops c) s2 (N.of_nat (length (acks s2)) + 1)%N in
      let lo := dat_lo s3 in
      let s4 := match cy_unacked c with
                | Some o => run_op s3 (N.of_nat (length (acks s3)) + 1000)%N o
                | None => s3 end in
      let s5 := if cy_idle_kill c then settled s4 else s4 in
      let lo' := if cy_idle_kill c then dat_lo s5 else lo in
      let ok2 := in_window s5 lo' (cy_file c)
                 && forallb (fun d => in_window s5 lo0 (Some d)) (cy_samples c)
                 && proto_ok (cy_sys c) in
      (step (adopt s5 (cy_file c)) EKill, ok0 && ok1 && ok2)
  end.

Fixpoint agree_cycles (cs : list cycle) (s : st) : bool :=
  match cs with
  | [] => true
  | c :: r => let '(s', ok) := agree_cycle s c in ok && agree_cycles r s'
  end.

(* run one request to its answer, then let every pending persist either complete or fail *)
Fixpoint settle_failing (fuel : nat) (s : st) : st :=
  match fuel with
  | O => s
  | S f =>
      match lock s with
      | Some j => match j_phase j with
                  | PWrite => settle_failing f (step s (EFault 10))
                  | _ => settle_failing f (step s (EPersist K))
                  end
      | None => match pending s with O => s | S _ => settle_failing f (step s ETask) end
      end
  end.
Fixpoint drive_failing (fuel : nat) (i : N) (s : st) : st :=
  match fuel with
  | O => s
  | S f =>
      match get_thread i (threads s) with
      | None => s
      | Some _ => match lock s with
                  | Some j => match j_phase j with
                              | PWrite => drive_failing f i (step s (EFault 10))
                              | _ => drive_failing f i (step s (EPersist K))
                              end
                  | None => drive_failing f i (step s (EStep i))
                  end
      end
  end.
Fixpoint run_ops (failing : bool) (ops : list op) (s : st) (i : N) : st :=
  match ops with
  | [] => s
  | o :: r =>
      let s0 := step s (EStart i o) in
      let s1 := if failing then settle_failing (4 * fuel_for s0 + 64) (drive_failing (fuel_for s0) i s0)
                else settled (drive (fuel_for s0) i s0) in
      run_ops failing r s1 (N.succ i)
  end.

Definition judge (c : case) : N :=
  match c with
  | Churn cycles => verdict (agree_cycles cycles init) (monitor_cycles cycles)
  | LoadCase present d full started seen =>
      let c0 := mkF d (if full then doc_size d else 0) true in
      let s0 := mkS false false [] 1%N [] 0 None (mkFS (if present then Some c0 else None) []) [] [] 0 0 in
      let s1 := step s0 ERestart in
      let model_started := up s1 in
      let model_view := view (live_ (settled s1)) in
      let agree := Bool.eqb model_started started && (negb started || doc_equiv seen model_view) in
      (* property: a complete document (or none) is loadable, invalid names are skipped *)
      let monitor :=
        if present && negb full then true
        else started && forallb (fun e => valid (dt_name e) && forallb (fun x => valid (dc_name x)) (dt_chans e)) seen in
      verdict agree monitor
  | PathLock ph second_started second_refused dat_same first_still third_started file seen =>
      (* model: the first daemon at that phase; the second one runs as far as it gets *)
      let w := first_at ph in
      let serves := second_serves w in
      let agree :=
        Bool.eqb (path_in_use w) (phase_in_use ph)
        && Bool.eqb second_started serves && Bool.eqb second_refused (negb serves)
        && negb (clash w) in
      (* property: while the path is in use the second daemon refuses to start (and leaves the
         first daemon and its metadata alone); once the first one is gone the path can be taken
         over; what is then served is what nsqd.dat holds *)
      let monitor :=
        (if phase_in_use ph then negb second_started && second_refused && dat_same && first_still
         else second_started && negb second_refused)
        && third_started && doc_equiv seen (match file with Some f => f | None => [] end) in
      verdict agree monitor
  | Mix passed file restarted seen =>
      (* model (C06_atomic): the topic set is that of one passed-through state and every entry
         is that topic's entry in some passed-through state; the restart shows the file *)
      let names d := map dt_name d in
      let agree :=
        match file with
        | None => false
        | Some f =>
            existsb (fun p => set_eq name_eqb (names f) (names p)) passed
            && forallb (fun e => existsb (fun p => existsb (dtopic_eqb e) p) passed) f
            && restarted && doc_equiv seen f
        end in
      (* property: the restart state is ONE state the daemon passed through *)
      let monitor :=
        match file with
        | None => false
        | Some f => restarted && existsb (fun p => doc_equiv seen p) passed && existsb (fun p => doc_equiv f p) passed
        end in
      verdict agree monitor
  | Fault pre post before after_ok after restarted seen =>
      let s0 := settled (step init ERestart) in
      let s1 := run_ops false pre s0 1%N in
      let s2 := run_ops true post s1 1000%N in
      let model_file := option_map f_doc (dat (fs s2)) in
      let s3 := settled (step (step s2 EKill) ERestart) in
      let agree :=
        odoc_equiv before (option_map f_doc (dat (fs s1))) && after_ok && odoc_equiv after model_file
        && Bool.eqb restarted (up s3) && doc_equiv seen (view (live_ s3)) in
      (* property: the metadata is still the previous complete document (or absent), loadable,
         and the daemon starts again showing it *)
      let monitor :=
        after_ok && odoc_equiv after before && restarted
        && doc_equiv seen (match after with Some f => f | None => [] end) in
      verdict agree monitor
  end.
