(* Correspondence judge for C09 (nsqd TCP protocol).  One case = one real TCP connection
   to a real nsqd: the bytes the client wrote (magic included), what it read back until
   EOF, the change of the daemon's message counters, and the liveness of the daemon and of
   a concurrent well-behaved client.
     agree   : the model (Proto.handle_conn on the same bytes) predicts the same sequence
               of (frame kind, code / response) and the same number of enqueued messages;
               when the client kept its write side open ([eof] = false) and the daemon was
               still holding the connection at the end of the observation window (last frame
               OOpen), the model must have stopped because its input ran out at a line read
               or inside the magic ([model_waits]), not by a decision of its own;
     monitor : the property evaluated on the recording alone (no model): daemon alive,
               bystander unaffected; the generator's command list is walked together with
               the recorded frames against the protocol TABLE (ProtoSpec.in_state /
               next_kind / ok_frame / may_return): a command that is valid in the state
               the connection is in must SUCCEED (its response frame, or silence for
               RDY/FIN/REQ/TOUCH/NOP; FIN/REQ/TOUCH of a message held by this connection
               succeed in the subscribed AND the closing state), any other one must get
               its documented error (the non-fatal E_FIN/REQ/TOUCH_FAILED for a message
               not in flight, else a fatal refusal code of its row), the first fatal error
               is followed by the close and nothing else; a command line longer than the
               connection's read buffer (terminated or not, whatever follows it, EOF or not)
               is answered by the close alone - no frame, nothing executed, and the daemon
               does not go on holding the connection waiting for its end; a wrong magic gets
               E_BAD_PROTOCOL and the close; when everything was answered the connection is
               closed exactly when the client closed its side; the messages that appeared in
               the daemon are exactly those of the publishes answered OK (a rejected
               PUB/DPUB/MPUB left nothing, an MPUB is all-or-nothing); and the consumed
               channel's /stats afterwards show exactly the effect of the accepted
               FIN/REQ commands (messages left, deferred, requeue_count, in flight).
   A second kind of case (Accept) is one run of the accept loop, protocol.TCPServer, on a
   listener whose Accept results are scripted (see accept_monitor below): agree compares the
   run with model/AcceptLoop.v run_accept on the same script, the monitor says that
   connections and temporary errors never end the loop and cost nobody his service.
   No proofs here. *)
From Coq Require Import List NArith ZArith Bool.
From NSQV Require Import gen.Consts model.Judge model.Names model.Num model.Proto model.ProtoSpec model.AcceptLoop.
Import ListNotations.
Open Scope Z_scope.

Inductive oresp :=
| OOk | OCloseWait
| OJson (msgto_ms sample obsize obt_ms : Z) (tls deflate : bool) (level : Z) (snappy : bool)
| OOther.
(* OClosed: the daemon closed the connection (EOF / reset seen by the client);
   OOpen: the client did not close its write side and the daemon was still holding the
   connection when the observation window ended *)
Inductive oframe := OResp (r : oresp) | OErr (code : N) | OClosed | OOpen.

Inductive case :=
| Conn (cf : cfg)
       (stream : bytes)                       (* everything the client wrote *)
       (jsons : list (bytes * jres))          (* encoding/json's result for each IDENTIFY body candidate *)
       (delivered : list bytes)               (* message ids this connection was sent *)
       (full : list (bytes * bytes))          (* (topic, channel) that refuse one more consumer *)
       (frames : list oframe)                 (* response/error frames in order (message frames and
                                                 heartbeats dropped), then OClosed at EOF *)
       (enq : Z)                              (* sum of topic message_count, after minus before *)
       (alive bystander : bool)
       (intent : option (list (N * Z * bool * Z)))  (* generator's commands: (index in all_cmds, n, within limits, slot), see [icmd] *)
       (chan : option (Z * Z * Z * Z))        (* the consumed channel in /stats after the case: messages left (topic +
                                                 channel depth + in flight + deferred), in flight, deferred, requeue_count *)
       (eof : bool)                           (* the client half-closed after its last byte (false: it kept the connection
                                                 open and watched whether the daemon closes it) *)
(* One run of the accept loop (protocol.TCPServer: alone, or inside an nsqd / nsqlookupd whose
   TCP listener was wrapped, or inside a subprocess nsqd that really runs out of descriptors)
   on a listener that returns the scripted results: *)
| Accept (script : list ares)                 (* the results of the successive Accept calls; of an error: what its
                                                 Temporary() / Timeout() methods answer and errors.Is(err, net.ErrClosed),
                                                 asked of the very error value by the driver *)
         (consumed : option N)                (* Accept calls that returned (None: not observable from outside the process) *)
         (served : list N)                    (* connections that were handed to the handler / answered by the daemon, ascending *)
         (again : option (list N))            (* daemons: the connections that were answered once more, after all the rest
                                                 and before the result that ends the script was let out *)
         (ret : N)                            (* 0 the loop (Main) has not returned, 1 it returned nil, 2 it returned an
                                                 error that names the last result consumed, 3 another error *)
         (waited : option bool)               (* TCPServer alone: every handler had returned when the loop returned; a daemon
                                                 stopped by a scripted "listener closed": Main had not returned while the
                                                 clients it was serving were still connected *)
         (alive : bool).                      (* the loop (Main, the process) had not returned when everything before the
                                                 first permanent result had been played *)

Definition mk_cfg (max_msg max_body max_rdy : Z) (deflate_on snappy_on tls_on tls_required : bool) : cfg :=
  let d := default_cfg max_msg max_body max_rdy in
  mkCfg max_msg max_body max_rdy (c_max_req d) (c_max_hb d) (c_min_obt d) (c_max_obt d) (c_max_obsize d)
        (c_max_msgto d) (c_def_hb d) (c_def_obt d) (c_def_msgto d) (c_max_deflate d)
        deflate_on snappy_on tls_on tls_required.

Definition mk_ident (hb obsize obt : Z) (fn tls deflate : bool) (level : Z) (snappy : bool) (sample msgto : Z) : jres :=
  Json (mkIdent hb obsize obt fn tls deflate level snappy sample msgto).

(* ------------------------------------------------------------------ the inputs of the model *)
Definition json_of (tbl : list (bytes * jres)) : bytes -> jres :=
  fun b => match find (fun e => bytes_eqb (fst e) b) tbl with
           | Some (_, r) => r
           | None => BadJSON
           end.

Definition mem_bytes (b : bytes) (l : list bytes) : bool := existsb (bytes_eqb b) l.

(* has this id already been finished or requeued successfully on this connection? *)
Definition gone (h : history) (id : bytes) : bool :=
  existsb (fun e => snd e && match fst e with
                             | KFin i | KReq i _ => bytes_eqb i id
                             | _ => false
                             end) h.

(* the core's answers in the driver's controlled scenario: publishes succeed, a SUB fails
   exactly on a full channel, FIN/REQ/TOUCH succeed exactly on a delivered message that is
   still in flight (the driver never touches an id again after a REQ) *)
Definition ledger (delivered : list bytes) (full : list (bytes * bytes)) : oracle :=
  fun h k =>
    match k with
    | KPut _ _ _ | KPutMulti _ _ => true
    | KSub t c => negb (existsb (fun e => bytes_eqb (fst e) t && bytes_eqb (snd e) c) full)
    | KFin id | KReq id _ | KTouch id => mem_bytes id delivered && negb (gone h id)
    end.

(* ------------------------------------------------------------------ projections *)
Fixpoint index_of {A} (eqb : A -> A -> bool) (x : A) (l : list A) (i : N) : N :=
  match l with
  | [] => 99%N
  | y :: r => if eqb x y then i else index_of eqb x r (N.succ i)
  end.
Definition code_eqb (a b : code) : bool :=
  match a, b with
  | E_INVALID, E_INVALID | E_BAD_BODY, E_BAD_BODY | E_BAD_TOPIC, E_BAD_TOPIC
  | E_BAD_CHANNEL, E_BAD_CHANNEL | E_BAD_MESSAGE, E_BAD_MESSAGE | E_PUB_FAILED, E_PUB_FAILED
  | E_MPUB_FAILED, E_MPUB_FAILED | E_DPUB_FAILED, E_DPUB_FAILED | E_FIN_FAILED, E_FIN_FAILED
  | E_REQ_FAILED, E_REQ_FAILED | E_TOUCH_FAILED, E_TOUCH_FAILED | E_SUB_FAILED, E_SUB_FAILED
  | E_IDENTIFY_FAILED, E_IDENTIFY_FAILED | E_AUTH_DISABLED, E_AUTH_DISABLED
  | E_AUTH_FAILED, E_AUTH_FAILED | E_UNAUTHORIZED, E_UNAUTHORIZED | E_AUTH_ERROR, E_AUTH_ERROR
  | E_AUTH_FIRST, E_AUTH_FIRST | E_BAD_PROTOCOL, E_BAD_PROTOCOL => true
  | _, _ => false
  end.
Definition code_idx (c : code) : N := index_of code_eqb c all_codes 0%N.
Definition code_at (i : N) : option code := nth_error all_codes (N.to_nat i).
Definition cmd_at (i : N) : cmd := nth (N.to_nat i) all_cmds CUnknown.

Definition proj (o : out) : list oframe :=
  match o with
  | Resp ROk => [OResp OOk]
  | Resp RCloseWait => [OResp OCloseWait]
  | Resp (RJson a b c d e f g h) => [OResp (OJson a b c d e f g h)]
  | Err c => [OErr (code_idx c)]
  | Close => [OClosed]
  | Panic | OutOfFuel => [OErr 98%N]
  | _ => []
  end.

Definition oresp_eqb (a b : oresp) : bool :=
  match a, b with
  | OOk, OOk | OCloseWait, OCloseWait | OOther, OOther => true
  | OJson a1 a2 a3 a4 a5 a6 a7 a8, OJson b1 b2 b3 b4 b5 b6 b7 b8 =>
      (a1 =? b1) && (a2 =? b2) && (a3 =? b3) && (a4 =? b4) && Bool.eqb a5 b5 && Bool.eqb a6 b6
      && (a7 =? b7) && Bool.eqb a8 b8
  | _, _ => false
  end.
Definition oframe_eqb (a b : oframe) : bool :=
  match a, b with
  | OResp x, OResp y => oresp_eqb x y
  | OErr x, OErr y => (x =? y)%N
  | OClosed, OClosed | OOpen, OOpen => true
  | _, _ => false
  end.

(* ------------------------------------------------------------------ where the model stopped *)
(* The model reads a finite byte list: its loop ends at a failed line read, be it the end
   of the bytes or a full buffer.  [model_waits]: the run ended because the bytes ran out
   (inside the magic, or at a line read with less than a buffer of pending bytes and no
   delimiter) - a daemon whose client keeps the connection open is then waiting for more
   input; in every other case it has closed the connection by its own decision. *)
Definition starved (bs : bytes) : bool :=
  (length bs <? buffer_size)%nat && negb (existsb (N.eqb NL) bs).
Fixpoint last_read (bs : bytes) (evs : list ev) : option bytes :=
  match evs with
  | [EvReadFail] => Some bs
  | EvCmd _ _ _ _ r :: tl => match next_of r with Some (_, b) => last_read b tl | None => None end
  | _ => None
  end.
Definition model_waits (cf : cfg) (orc : oracle) (json : bytes -> jres) (stream : bytes) : bool :=
  match read_full 4 stream with
  | None => true
  | Some (m, rest) =>
    bytes_eqb m magic_v2 &&
    match last_read rest (steps cf orc json (length rest) (init_state cf) rest) with
    | Some b => starved b
    | None => false
    end
  end.

Fixpoint split_last {A} (l : list A) : option (list A * A) :=
  match l with
  | [] => None
  | [x] => Some ([], x)
  | x :: r => match split_last r with Some (b, y) => Some (x :: b, y) | None => None end
  end.

Definition count_enq (os : list out) : Z :=
  len (filter (fun o => match o with Enqueue _ _ _ => true | _ => false end) os).

(* ------------------------------------------------------------------ the monitor *)
(* The property on the recording alone (no model).  The generator states, for every
   command it wrote, an [icmd] = (index in all_cmds, n, valid, slot):
     valid : parameters, names, sizes, numbers and option values are within what the
             protocol and the daemon's limits allow (SUB: and heartbeats are not disabled);
             nothing about the connection state;
     n     : publishes: the number of messages carried; REQ: 1 when the delay is positive
             (the message then waits in the deferred set), 0 otherwise;
     slot  : FIN / REQ / TOUCH: s+1 when the id is the one of the s-th message DELIVERED on
             this connection, 0 when it names no delivered message; SUB: 1 when the
             (topic, channel) is the one that refuses one more consumer.
   [expected] is the protocol table read as a function: what the protocol defines for this
   command in this connection state; [align] walks the commands and the recorded frames
   together: every command must have been answered exactly so (valid commands SUCCEED in
   every state in which they are valid; the others get their documented error), up to the
   first fatal error, which must be followed by the close and nothing else. *)
Definition icmd := (N * Z * bool * Z)%type.

Inductive expect :=
| XResp                       (* succeeds with its response frame *)
| XSilent                     (* succeeds without a frame *)
| XSoft (c : code)            (* the non-fatal error; processing continues *)
| XFatal (cs : list code).    (* one of these fatal errors, then the close *)

(* the codes with which a command REFUSES its parameters or body (the *_FAILED codes are
   the core's, the AUTH ones an auth server's) *)
Definition refusal (c : code) : bool :=
  match c with
  | E_INVALID | E_BAD_BODY | E_BAD_TOPIC | E_BAD_CHANNEL | E_BAD_MESSAGE | E_IDENTIFY_FAILED => true
  | _ => false
  end.
Definition refusal_codes (c : cmd) : list code := filter refusal (may_return c).

Definition soft_code (c : cmd) : code :=
  match c with CFin => E_FIN_FAILED | CReq => E_REQ_FAILED | _ => E_TOUCH_FAILED end.

(* [live]: the slot names a message delivered on this connection and not yet finished or
   requeued by it *)
Definition mem_z (x : Z) (l : list Z) : bool := existsb (Z.eqb x) l.
Definition live (ndeliv : Z) (dead : list Z) (slot : Z) : bool :=
  (1 <=? slot) && (slot <=? ndeliv) && negb (mem_z slot dead).

Definition expected (tlsreq : bool) (k : skind) (ndeliv : Z) (dead : list Z)
           (c : cmd) (valid : bool) (slot : Z) : expect :=
  if tlsreq && negb (match c with CIdentify => true | _ => false end) then XFatal [E_INVALID]
  else if negb (in_state c k) then XFatal [E_INVALID]          (* CUnknown is in no state *)
  else match c with
       | CNop => XSilent
       | CCls => XResp
       | CRdy => match k with
                 | SClosing => XSilent                           (* ignored after CLS *)
                 | _ => if valid then XSilent else XFatal [E_INVALID]
                 end
       | CFin | CReq | CTouch =>
           if valid then (if live ndeliv dead slot then XSilent else XSoft (soft_code c))
           else XFatal [E_INVALID]
       | CSub => if valid then (if slot =? 0 then XResp else XFatal [E_SUB_FAILED])
                 else XFatal (refusal_codes CSub)
       | CAuth => if valid then XFatal [E_AUTH_DISABLED]        (* a daemon without an auth server *)
                  else XFatal (refusal_codes CAuth)
       | CIdentify | CPub | CMpub | CDpub => if valid then XResp else XFatal (refusal_codes c)
       | CUnknown => XFatal [E_INVALID]
       end.

Definition resp_ok (c : cmd) (r : oresp) : bool :=
  match ok_frame c, r with
  | FOk, OOk | FCloseWait, OCloseWait | FOkOrJson, OOk | FOkOrJson, OJson _ _ _ _ _ _ _ _ => true
  | _, _ => false
  end.
(* an IDENTIFY answer that announces a tls / deflate / snappy upgrade: the plain recording ends here *)
Definition upgrades (r : oresp) : bool :=
  match r with OJson _ _ _ _ tls deflate _ snappy => tls || deflate || snappy | _ => false end.

Definition code_in (c : code) (l : list code) : bool := existsb (code_eqb c) l.

(* what the accepted commands did: messages published, finished, requeued, requeued with a
   delay, and the slots that are no longer in flight *)
Record tally := mkTally { t_pub : Z; t_fin : Z; t_req : Z; t_dfr : Z; t_dead : list Z }.

Definition count_cmd (c : cmd) (n slot : Z) (t : tally) : tally :=
  match c with
  | CPub | CMpub | CDpub => mkTally (t_pub t + n) (t_fin t) (t_req t) (t_dfr t) (t_dead t)
  | CFin => mkTally (t_pub t) (t_fin t + 1) (t_req t) (t_dfr t) (slot :: t_dead t)
  | CReq => mkTally (t_pub t) (t_fin t) (t_req t + 1) (t_dfr t + n) (slot :: t_dead t)
  | _ => t
  end.

(* pseudo-commands of the generator's list (indices past all_cmds):
     13  a line longer than the connection's read buffer (no '\n' among the next
         defaultBufferSize bytes), terminated later or not at all: the daemon must not take
         it in - the connection is closed without a reply, whatever follows, and without
         waiting for the end of the line;
     14  (first entry only) the first four bytes are not a protocol magic: E_BAD_PROTOCOL
         and the close;
     15  (first entry only) the client closed its side before sending four bytes: the close *)
Definition i_too_long : N := 13.
Definition i_bad_magic : N := 14.
Definition i_short_magic : N := 15.

(* the longest run of bytes without a '\n' in what the client wrote: a case that claims an
   over-long line must really contain one *)
Fixpoint max_run (cur best : Z) (bs : bytes) : Z :=
  match bs with
  | [] => Z.max cur best
  | c :: r => if (c =? NL)%N then max_run 0 (Z.max cur best) r else max_run (cur + 1) best r
  end.
Definition has_long_line (stream : bytes) : bool := nsqd_defaultBufferSize <=? max_run 0 0 stream.

Fixpoint align (tlsreq eof long : bool) (ndeliv : Z) (k : skind) (t : tally) (intent : list icmd) (frames : list oframe)
  : option tally :=
  match intent with
  | [] =>
    (* everything answered: the daemon closes when, and only when, the client has closed its side *)
    match frames with
    | [OClosed] => if eof then Some t else None
    | [OOpen] => if eof then None else Some t
    | _ => None
    end
  | (ci, n, valid, slot) :: r =>
    if (ci =? i_too_long)%N then
      match frames with [OClosed] => if long then Some t else None | _ => None end
    else if (12 <? ci)%N then None
    else
    let c := cmd_at ci in
    match expected tlsreq k ndeliv (t_dead t) c valid slot with
    | XSilent => align tlsreq eof long ndeliv k (count_cmd c n slot t) r frames
    | XResp =>
      match frames with
      | OResp x :: fr =>
        if resp_ok c x then
          if upgrades x then match fr with [] => Some t | _ => None end
          else align tlsreq eof long ndeliv (next_kind c k) (count_cmd c n slot t) r fr
        else None
      | _ => None
      end
    | XSoft e =>
      match frames with
      | OErr i :: fr => if (i =? code_idx e)%N then align tlsreq eof long ndeliv k t r fr else None
      | _ => None
      end
    | XFatal cs =>
      match frames with
      | [OErr i; OClosed] => match code_at i with Some e => if code_in e cs then Some t else None | None => None end
      | _ => None
      end
    end
  end.

(* the whole connection: the magic first *)
Definition align_conn (tlsreq eof long : bool) (ndeliv : Z) (intent : list icmd) (frames : list oframe) : option tally :=
  let t0 := mkTally 0 0 0 0 [] in
  match intent with
  | (ci, _, _, _) :: _ =>
    if (ci =? i_bad_magic)%N then
      match frames with
      | [OErr i; OClosed] => if (i =? code_idx E_BAD_PROTOCOL)%N then Some t0 else None
      | _ => None
      end
    else if (ci =? i_short_magic)%N then
      match frames with [OClosed] => if eof then Some t0 else None | _ => None end
    else align tlsreq eof long ndeliv SInit t0 intent frames
  | [] => align tlsreq eof long ndeliv SInit t0 intent frames
  end.

Definition is_ok_frame (f : oframe) : bool := match f with OResp _ => true | _ => false end.
Definition n_ok (fs : list oframe) : nat := length (filter is_ok_frame fs).

(* a fatal error is followed by the close and nothing else; the close (or, with the client's
   side still open, the end of the observation) is the last frame; every code is one the
   protocol knows *)
Fixpoint shape_ok (fs : list oframe) : bool :=
  match fs with
  | [] => true
  | OClosed :: r | OOpen :: r => match r with [] => true | _ => false end
  | OErr i :: r =>
      match code_at i with
      | Some c => if is_fatal c then match r with [OClosed] => true | _ => false end else shape_ok r
      | None => false
      end
  | OResp _ :: r => shape_ok r
  end.

(* the channel this connection consumed from, read from /stats after the case, against the
   tally: every published message is still there unless it was FINished; exactly the
   messages requeued with a delay are deferred; the requeue counter counts the REQs that
   succeeded; what was delivered and not answered is still in flight *)
Definition chan_ok (ndeliv : Z) (t : tally) (obs : Z * Z * Z * Z) : bool :=
  match obs with
  | (remaining, inflight, deferred, requeues) =>
    (remaining =? t_pub t - t_fin t) && (deferred =? t_dfr t) && (requeues =? t_req t)
    && (ndeliv - len (t_dead t) <=? inflight) && (inflight + deferred <=? remaining)
  end.

(* the last frame: after the client's EOF the daemon must have closed *)
Definition ends_ok (eof : bool) (frames : list oframe) : bool :=
  match split_last frames with
  | Some (_, OOpen) => negb eof
  | _ => true
  end.

Definition monitor (cf : cfg) (stream : bytes) (eof : bool) (ndeliv : Z) (frames : list oframe) (enq : Z) (alive bystander : bool)
           (intent : option (list icmd)) (chan : option (Z * Z * Z * Z)) : bool :=
  alive && bystander
  && shape_ok frames && ends_ok eof frames
  && (if (n_ok frames =? 0)%nat then enq =? 0 else 0 <=? enq)
  && match intent with
     | None => true
     | Some l =>
       match align_conn (c_tls_required cf) eof (has_long_line stream) ndeliv l frames with
       | Some t =>
           (* the accepted publishes account for every message that appeared in the daemon
              (a rejected PUB/DPUB/MPUB left nothing, an MPUB is all-or-nothing) *)
           (enq =? t_pub t)
           && match chan with Some obs => chan_ok ndeliv t obs | None => true end
       | None => false
       end
     end.

(* ------------------------------------------------------------------ the accept loop *)
(* The property on the recording alone.  A result is harmless when it is a connection or an
   error whose own Temporary() method answers true (the condition "the process is out of
   descriptors right now" and its kin).  While only harmless results have come out of
   Accept, every connection offered must have been served (and the ones served must still be
   served afterwards), every result consumed, and the loop must not have returned; the first
   other result ends the loop and nothing after it is consumed: net.ErrClosed makes it return
   nil, after the handlers; any other error is returned. *)
Definition harmless (r : ares) : bool :=
  match r with
  | AConn _ => true
  | AErr e => match e_temporary e with Some true => true | _ => false end
  end.
Fixpoint harmless_prefix (script : list ares) : list ares * list ares :=
  match script with
  | [] => ([], [])
  | r :: tl => if harmless r then (let (a, b) := harmless_prefix tl in (r :: a, b)) else ([], script)
  end.
Definition offered (script : list ares) : list N :=
  flat_map (fun r => match r with AConn id => [id] | AErr _ => [] end) script.
Definition opt_n_ok (o : option N) (v : N) : bool := match o with Some x => (x =? v)%N | None => true end.

Definition accept_monitor (script : list ares) (consumed : option N) (served : list N) (again : option (list N))
           (ret : N) (waited : option bool) (alive : bool) : bool :=
  let (pre, rest) := harmless_prefix script in
  alive
  && list_eqb N.eqb served (offered pre)
  && match again with Some l => list_eqb N.eqb l served | None => true end
  && match rest with
     | [] => (ret =? 0)%N && opt_n_ok consumed (N.of_nat (length script))
     | AErr e :: _ =>
         opt_n_ok consumed (N.of_nat (S (length pre)))
         && (if e_closed e then (ret =? 1)%N && match waited with Some false => false | _ => true end
             else (ret =? 2)%N)
     | AConn _ :: _ => false
     end.

Definition ret_code (r : aret) : N := match r with RRunning => 0%N | RNil => 1%N | RErr _ => 2%N end.

Definition accept_agree (script : list ares) (consumed : option N) (served : list N) (ret : N) (waited : option bool) : bool :=
  let o := run_accept script in
  opt_n_ok consumed (o_consumed o)
  && list_eqb N.eqb served (o_served o)
  && (ret =? ret_code (o_ret o))%N
  && match waited, o_ret o with
     | Some w, RNil => Bool.eqb w (o_waits o)
     | _, _ => true
     end.

Definition judge (c : case) : N :=
  match c with
  | Accept script consumed served again ret waited alive =>
    verdict (accept_agree script consumed served ret waited)
            (accept_monitor script consumed served again ret waited alive)
  | Conn cf stream jsons delivered full frames enq alive bystander intent chan eof =>
    let orc := ledger delivered full in
    let os := handle_conn cf orc (json_of jsons) stream in
    let predicted := flat_map proj os in
    let same :=
      match (if eof then None else split_last frames) with
      | Some (body, OOpen) =>
          (* still open: the model, which stops where its bytes end, must have stopped there *)
          list_eqb oframe_eqb predicted (body ++ [OClosed]) && model_waits cf orc (json_of jsons) stream
      | _ => list_eqb oframe_eqb predicted frames
      end in
    let agree := same && (count_enq os =? enq) in
    verdict agree (monitor cf stream eof (len delivered) frames enq alive bystander intent chan)
  end.

(* short names for the driver's terms *)
Definition bad_json : jres := BadJSON.
Definition aconn (id : N) : ares := AConn id.
Definition aerr_ (temporary timeout : option bool) (closed : bool) : ares := AErr (mkAErr temporary timeout closed).

(* long streams: a run of one repeated byte, and the concatenation of pieces *)
Definition fill (n c : N) : bytes := repeat c (N.to_nat n).
Definition cat (l : list bytes) : bytes := concat l.
