(* Correspondence judge for C09 (nsqd TCP protocol).  One case = one real TCP connection
   to a real nsqd: the bytes the client wrote (magic included), what it read back until
   EOF, the change of the daemon's message counters, and the liveness of the daemon and of
   a concurrent well-behaved client.
     agree   : the model (Proto.handle_conn on the same bytes) predicts the same sequence
               of (frame kind, code / response) and the same number of enqueued messages;
     monitor : the property evaluated on the recording alone (no model): daemon alive,
               bystander unaffected, every error code known and allowed for the commands
               that can have produced it, a fatal error is the last frame before the close,
               and the number of messages that appeared in the daemon is exactly the sum
               of the sizes of the publishes that were answered OK (so a rejected
               PUB/DPUB/MPUB left nothing and an MPUB is all-or-nothing).
   No proofs here. *)
From Coq Require Import List NArith ZArith Bool.
From NSQV Require Import gen.Consts model.Judge model.Names model.Num model.Proto model.ProtoSpec.
Import ListNotations.
Open Scope Z_scope.

Inductive oresp :=
| OOk | OCloseWait
| OJson (msgto_ms sample obsize obt_ms : Z) (tls deflate : bool) (level : Z) (snappy : bool)
| OOther.
Inductive oframe := OResp (r : oresp) | OErr (code : N) | OClosed.

Inductive case :=
| Conn (cf : cfg)
       (stream : bytes)                       (* everything the client wrote *)
       (jsons : list (bytes * jres))          (* encoding/json's result for each IDENTIFY body candidate *)
       (delivered : list bytes)               (* message ids this connection was sent *)
       (full : list (bytes * bytes))          (* (topic, channel) that refuse one more consumer *)
       (frames : list oframe)                 (* response/error frames in order (message frames and
                                                 heartbeats dropped), then OClosed at EOF *)
       (enq : Z)                              (* sum of topic message_count, after minus before *)
       (alive bystander : bool)
       (intent : option (list (N * Z * bool)))  (* generator's commands: (index in all_cmds, messages, within limits) *)
       (held : option (Z * Z)).               (* (messages that must still be held by the channel for this
                                                 client after the case, in-flight + deferred as /stats shows them) *)

Definition mk_cfg (max_msg max_body max_rdy : Z) (deflate_on snappy_on tls_on tls_required : bool) : cfg :=
  let d := default_cfg max_msg max_body max_rdy in
  mkCfg max_msg max_body max_rdy (c_max_req d) (c_max_hb d) (c_min_obt d) (c_max_obt d) (c_max_obsize d)
        (c_max_msgto d) (c_def_hb d) (c_def_obt d) (c_def_msgto d) (c_max_deflate d)
        deflate_on snappy_on tls_on tls_required.

Definition mk_ident (hb obsize obt : Z) (fn tls deflate : bool) (level : Z) (snappy : bool) (sample msgto : Z) : jres :=
  Json (mkIdent hb obsize obt fn tls deflate level snappy sample msgto).

(* ------------------------------------------------------------------ the inputs of the model *)
Definition json_of (tbl : list (bytes * jres)) : bytes -> jres :=
  fun b => match find (fun e => bytes_eqb (fst e) b) tbl with
           | Some (_, r) => r
           | None => BadJSON
           end.

Definition mem_bytes (b : bytes) (l : list bytes) : bool := existsb (bytes_eqb b) l.

(* has this id already been finished or requeued successfully on this connection? *)
Definition gone (h : history) (id : bytes) : bool :=
  existsb (fun e => snd e && match fst e with
                             | KFin i | KReq i _ => bytes_eqb i id
                             | _ => false
                             end) h.

(* the core's answers in the driver's controlled scenario: publishes succeed, a SUB fails
   exactly on a full channel, FIN/REQ/TOUCH succeed exactly on a delivered message that is
   still in flight (the driver never touches an id again after a REQ) *)
Definition ledger (delivered : list bytes) (full : list (bytes * bytes)) : oracle :=
  fun h k =>
    match k with
    | KPut _ _ _ | KPutMulti _ _ => true
    | KSub t c => negb (existsb (fun e => bytes_eqb (fst e) t && bytes_eqb (snd e) c) full)
    | KFin id | KReq id _ | KTouch id => mem_bytes id delivered && negb (gone h id)
    end.

(* ------------------------------------------------------------------ projections *)
Fixpoint index_of {A} (eqb : A -> A -> bool) (x : A) (l : list A) (i : N) : N :=
  match l with
  | [] => 99%N
  | y :: r => if eqb x y then i else index_of eqb x r (N.succ i)
  end.
Definition code_eqb (a b : code) : bool :=
  match a, b with
  | E_INVALID, E_INVALID | E_BAD_BODY, E_BAD_BODY | E_BAD_TOPIC, E_BAD_TOPIC
  | E_BAD_CHANNEL, E_BAD_CHANNEL | E_BAD_MESSAGE, E_BAD_MESSAGE | E_PUB_FAILED, E_PUB_FAILED
  | E_MPUB_FAILED, E_MPUB_FAILED | E_DPUB_FAILED, E_DPUB_FAILED | E_FIN_FAILED, E_FIN_FAILED
  | E_REQ_FAILED, E_REQ_FAILED | E_TOUCH_FAILED, E_TOUCH_FAILED | E_SUB_FAILED, E_SUB_FAILED
  | E_IDENTIFY_FAILED, E_IDENTIFY_FAILED | E_AUTH_DISABLED, E_AUTH_DISABLED
  | E_AUTH_FAILED, E_AUTH_FAILED | E_UNAUTHORIZED, E_UNAUTHORIZED | E_AUTH_ERROR, E_AUTH_ERROR
  | E_AUTH_FIRST, E_AUTH_FIRST | E_BAD_PROTOCOL, E_BAD_PROTOCOL => true
  | _, _ => false
  end.
Definition code_idx (c : code) : N := index_of code_eqb c all_codes 0%N.
Definition code_at (i : N) : option code := nth_error all_codes (N.to_nat i).
Definition cmd_at (i : N) : cmd := nth (N.to_nat i) all_cmds CUnknown.

Definition proj (o : out) : list oframe :=
  match o with
  | Resp ROk => [OResp OOk]
  | Resp RCloseWait => [OResp OCloseWait]
  | Resp (RJson a b c d e f g h) => [OResp (OJson a b c d e f g h)]
  | Err c => [OErr (code_idx c)]
  | Close => [OClosed]
  | Panic | OutOfFuel => [OErr 98%N]
  | _ => []
  end.

Definition oresp_eqb (a b : oresp) : bool :=
  match a, b with
  | OOk, OOk | OCloseWait, OCloseWait | OOther, OOther => true
  | OJson a1 a2 a3 a4 a5 a6 a7 a8, OJson b1 b2 b3 b4 b5 b6 b7 b8 =>
      (a1 =? b1) && (a2 =? b2) && (a3 =? b3) && (a4 =? b4) && Bool.eqb a5 b5 && Bool.eqb a6 b6
      && (a7 =? b7) && Bool.eqb a8 b8
  | _, _ => false
  end.
Definition oframe_eqb (a b : oframe) : bool :=
  match a, b with
  | OResp x, OResp y => oresp_eqb x y
  | OErr x, OErr y => (x =? y)%N
  | OClosed, OClosed => true
  | _, _ => false
  end.

Definition count_enq (os : list out) : Z :=
  len (filter (fun o => match o with Enqueue _ _ _ => true | _ => false end) os).

(* ------------------------------------------------------------------ the monitor *)
Definition is_ok_frame (f : oframe) : bool := match f with OResp _ => true | _ => false end.
Definition n_ok (fs : list oframe) : nat := length (filter is_ok_frame fs).

(* commands that answer every execution with exactly one frame *)
Definition one_frame (c : cmd) : bool :=
  match c with CIdentify | CSub | CPub | CMpub | CDpub | CCls | CAuth => true | _ => false end.
Definition is_publish (c : cmd) : bool :=
  match c with CPub | CMpub | CDpub => true | _ => false end.

(* The recording tells how many one-frame commands were answered without an error: [m]
   response frames, so the first [m] one-frame commands of the stream were accepted, and
   every command in front of the [m]-th of them was executed without a fatal error (a
   fatal error ends the connection).  [walk] replays that prefix against the protocol
   TABLE (ProtoSpec.in_state / next_kind) and the generator's statement of which commands
   are within the limits: it returns whether every executed command was acceptable, and
   the number of messages the accepted publishes carry.  None = fewer than [m] one-frame
   commands were sent (an answer without a question). *)
Definition limited (c : cmd) : bool :=
  match c with CIdentify | CSub | CPub | CMpub | CDpub => true | _ => false end.

(* a zero-frame command that was executed without a fatal error: in state, and (RDY while
   subscribed; FIN / REQ / TOUCH always) with parameters the protocol admits: a message id
   of exactly 16 bytes, a numeric delay, a count within 0..max-rdy-count *)
Definition zero_ok (tlsreq : bool) (c : cmd) (k : skind) (valid : bool) : bool :=
  in_state c k && negb tlsreq
  && match c, k with
     | CRdy, SSubscribed => valid             (* after CLS a RDY is ignored *)
     | CFin, _ | CReq, _ | CTouch, _ => valid
     | _, _ => true
     end.

(* [full]: the connection ended without a fatal error, so EVERY command sent was executed *)
Fixpoint walk (tlsreq full : bool) (m : nat) (k : skind) (intent : list (N * Z * bool)) : option (bool * Z) :=
  match intent with
  | [] => match m with O => Some (true, 0) | S _ => None end
  | (ci, n, valid) :: r =>
    let c := cmd_at ci in
    if one_frame c then
      match m with
      | O => Some (negb full, 0)     (* full: an unanswered one-frame command *)
      | S m' =>
        match walk tlsreq full m' (next_kind c k) r with
        | Some (ok, s) =>
            Some (ok && in_state c k && (valid || negb (limited c))
                     && (negb tlsreq || match c with CIdentify => true | _ => false end)
                     && negb (match c with CAuth => true | _ => false end),
                  if is_publish c then s + n else s)
        | None => None
        end
      end
    else
      match m, full with
      | O, false => Some (true, 0)
      | _, _ =>
        match walk tlsreq full m k r with
        | Some (ok, s) => Some (ok && zero_ok tlsreq c k valid, s)
        | None => None
        end
      end
  end.

(* the commands that can have produced the fatal error: those after the [m]-th one-frame
   command up to and including the next one-frame command *)
Fixpoint window (m : nat) (intent : list (N * Z * bool)) : list cmd :=
  match intent with
  | [] => []
  | (ci, _, _) :: r =>
    let c := cmd_at ci in
    match m with
    | O => if one_frame c then [c] else c :: window O r
    | S m' => if one_frame c then window m' r else window m r
    end
  end.

Definition code_in (c : code) (l : list code) : bool := existsb (code_eqb c) l.

Definition code_allowed (tlsreq : bool) (intent : option (list (N * Z * bool))) (m : nat) (i : N) : bool :=
  match code_at i with
  | None => false
  | Some c =>
    match intent with
    | None => true
    | Some l =>
      code_eqb c E_INVALID || code_eqb c E_BAD_PROTOCOL ||
      if is_fatal c
      then existsb (fun k => code_in c (may_return_gated tlsreq k)) (window m l)
      else existsb (fun e => snd e && code_in c (may_return (cmd_at (fst (fst e))))) l
    end
  end.

(* a fatal error is followed by the close and nothing else; the close is the last frame *)
Fixpoint shape_ok (fs : list oframe) : bool :=
  match fs with
  | [] => true
  | OClosed :: r => match r with [] => true | _ => false end
  | OErr i :: r =>
      match code_at i with
      | Some c => if is_fatal c then match r with [OClosed] => true | _ => false end else shape_ok r
      | None => false
      end
  | OResp _ :: r => shape_ok r
  end.

Definition ends_closed (fs : list oframe) : bool :=
  match rev fs with OClosed :: _ => true | _ => false end.
Definition has_fatal (fs : list oframe) : bool :=
  existsb (fun f => match f with
                    | OErr i => match code_at i with Some c => is_fatal c | None => true end
                    | _ => false
                    end) fs.

Definition monitor (cf : cfg) (frames : list oframe) (enq : Z) (alive bystander : bool)
           (intent : option (list (N * Z * bool))) (held : option (Z * Z)) : bool :=
  let m := n_ok frames in
  let full := ends_closed frames && negb (has_fatal frames) in
  alive && bystander
  && shape_ok frames
  && forallb (fun f => match f with OErr i => code_allowed (c_tls_required cf) intent m i | _ => true end) frames
  && (if (m =? 0)%nat then enq =? 0 else 0 <=? enq)
  && match intent with
     | None => true
     | Some l =>
       (* every executed command was acceptable; the accepted publishes account for every
          message; and every command got its answer (a connection closed without a fatal
          error frame has executed, and answered, everything it was sent) *)
       match walk (c_tls_required cf) full m SInit l with Some (ok, s) => ok && (enq =? s) | None => false end
     end
  && match held with Some (e, o) => e =? o | None => true end.

Definition judge (c : case) : N :=
  match c with
  | Conn cf stream jsons delivered full frames enq alive bystander intent held =>
    let os := handle_conn cf (ledger delivered full) (json_of jsons) stream in
    let predicted := flat_map proj os in
    let agree := list_eqb oframe_eqb predicted frames && (count_enq os =? enq) in
    verdict agree (monitor cf frames enq alive bystander intent held)
  end.

(* short names for the driver's terms *)
Definition bad_json : jres := BadJSON.
