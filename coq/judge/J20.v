(* Correspondence judge for C20.
     ToNsq : one run of the real to_nsq binary against [ndest] recording destinations;
     Ack   : one run of the real nsq_to_nsq / nsq_to_http binary against a real source nsqd
             and scripted stub destinations: the global request log (destination, body,
             answer given), which source bodies the channel no longer owes at the end, and
             the channel's requeue / timeout counters.
   No proofs here. *)
From Coq Require Import List NArith Bool Arith.
From NSQV Require Import model.Judge model.Relay model.RelayAck.
Import ListNotations.
Open Scope bool_scope.
Open Scope N_scope.

(* ---------------- to_nsq ---------------- *)
Record to_nsq_case := mk {
  delim : N;
  ndest : nat;
  input : bytes;
  got : list (list bytes)        (* per destination: bodies published, in order *)
}.

Definition judge_to_nsq (c : to_nsq_case) : N :=
  let model_ok :=
    match published_per_dest (ndest c) (delim c) (input c) with
    | Some m => list_eqb bytess_eqb m (got c)
    | None => false
    end in
  (* the property itself, on the implementation's own output *)
  let monitor := list_eqb bytess_eqb (got c) (repeat (split_nonempty (delim c) (input c)) (ndest c)) in
  verdict model_ok monitor.

(* ---------------- nsq_to_nsq / nsq_to_http ---------------- *)
Record ack_case := mkAck {
  a_tool : tool;
  a_mode : rmode;
  a_ndest : nat;
  a_filter : bool;                          (* --require-json-field is set *)
  a_sampling : bool;                        (* --sample < 1 *)
  a_src : list (bytes * bool);              (* source bodies (distinct), "passes the filter" *)
  a_log : list (nat * bytes * answer);      (* all requests, in arrival order *)
  a_finished : list bytes;                  (* source bodies no longer owed at the end *)
  a_quiescent : bool;                       (* the channel drained while the tool was running *)
  a_requeues : N;
  a_timeouts : N;
  a_max_attempts : nat;                     (* the consumer's max_attempts in this run (go-nsq default 5) *)
  a_givenup : list bytes                    (* bodies the tool's client library logged as "giving up" *)
}.

(* the acceptance rule of the property text, restated independently of the model:
   publish OK for nsqd, HTTP 2xx for POST, 200 for GET *)
Definition spec_accepted (t : tool) (a : answer) : bool :=
  match t with
  | ToNsq => match a with AOk => true | _ => false end
  | HttpPost => match a with AStatus c => (200 <=? c) && (c <=? 299) | _ => false end
  | HttpGet => match a with AStatus c => (200 <=? c) && (c <=? 299) | _ => false end   (* the code is stricter: 200 only *)
  end.

Definition answered_no (t : tool) (a : answer) : bool :=
  match a with
  | AErr => true
  | AStatus _ => negb (spec_accepted t a)
  | _ => false
  end.

Definition entries_of (log : list (nat * bytes * answer)) (b : bytes) : list (nat * answer) :=
  flat_map (fun e => match e with (d, b', a) => if bytes_eqb b b' then [(d, a)] else [] end) log.

Definition mem_bytes (b : bytes) (l : list bytes) : bool := existsb (bytes_eqb b) l.

Definition eff_mode (t : tool) (m : rmode) : rmode := effective_mode (mkRcfg t m 1 None false 0).

(* property: a finished body was accepted (by every destination in mode all) *)
Definition accepted_somewhere (t : tool) (m : rmode) (n : nat) (es : list (nat * answer)) : bool :=
  match eff_mode t m with
  | MAll => forallb (fun d => existsb (fun e => Nat.eqb (fst e) d && spec_accepted t (snd e)) es) (seq 0 n)
  | _ => existsb (fun e => spec_accepted t (snd e)) es
  end.

(* model: replay one body's requests as deliveries of the handler: Some fin = consistent.
   mode all: a delivery visits the destinations in order and stops at the first one that
   does not accept; the next delivery starts again at destination 0.
   [lenient] (nsq_to_nsq runs in which a destination closed a connection): an OK that was
   written just before the close may be lost to the producer (its router may see the close
   first and fail the transaction), so an accepted publish may be followed by a retry.
   [retry] (HTTP): net/http transparently re-sends an idempotent request (GET) whose reused
   connection was closed before any response byte; the re-sent request goes to the SAME
   destination within the same delivery.  (Messages given up by the client library are
   handled separately from the tool's own log, see [a_givenup].) *)
Fixpoint walk (t : tool) (all lenient : bool) (n : nat) (es : list (nat * answer)) (pos : nat) (retry : option nat)
  : option bool :=
  match es with
  | [] => Some false
  | (d, a) :: r =>
      let p := if negb all || Nat.eqb d pos then Some pos
               else match retry with Some q => if Nat.eqb d q then Some q else None | None => None end in
      match p with
      | None => None
      | Some p =>
          if accepted t a then
            if negb all || Nat.eqb (S p) n then
              match r with
              | [] => Some true
              | _ => if lenient then walk t all lenient n r 0 None else None
              end
            else walk t all lenient n r (S p) None
          else walk t all lenient n r 0 (match a with AClose => Some p | _ => None end)
      end
  end.

Definition opt_bool_eqb (a : option bool) (b : bool) : bool :=
  match a with Some x => Bool.eqb x b | None => false end.

Definition judge_ack (c : ack_case) : N :=
  let t := a_tool c in
  let all := match eff_mode t (a_mode c) with MAll => true | _ => false end in
  let lenient := match t with
                 | ToNsq => existsb (fun e => match snd e with AClose => true | _ => false end) (a_log c)
                 | _ => false end in
  let per_body (sb : bytes * bool) : bool * bool :=
    let b := fst sb in
    let es := entries_of (a_log c) b in
    let fin := mem_bytes b (a_finished c) in
    let may_drop := a_sampling c || (a_filter c && negb (snd sb)) in
    (* monitor *)
    let mon := if fin && negb may_drop then accepted_somewhere t (a_mode c) (a_ndest c) es else true in
    (* agreement with the handler model *)
    let agr :=
      if a_filter c && negb (snd sb) then (match es with [] => true | _ => false end) && (fin || negb (a_quiescent c))
      else if mem_bytes b (a_givenup c) then
        (* attempts exceeded max_attempts (failed deliveries need not all have reached a destination):
           finished by the library, never accepted *)
        Nat.ltb 0 (a_max_attempts c) && fin && negb (existsb (fun e => accepted t (snd e)) es)
      else match walk t all lenient (a_ndest c) es 0 None with
           | Some f => if f then fin
                       else if a_sampling c then true
                       else negb fin
           | None => false
           end in
    (agr, mon) in
  let rs := map per_body (a_src c) in
  let agree := forallb fst rs
               && (if a_quiescent c then forallb (fun sb => mem_bytes (fst sb) (a_finished c)) (a_src c) else true) in
  let nfail := N.of_nat (length (List.filter (fun e => answered_no t (snd e)) (a_log c))) in
  let monitor := forallb snd rs
                 && (nfail <=? a_requeues c + a_timeouts c)        (* "requeue otherwise" *)
                 && forallb (fun e => match e with (_, b, _) => a_filter c || mem_bytes b (map fst (a_src c)) end) (a_log c) in
  verdict agree monitor.

Inductive case :=
| ToNsqCase (c : to_nsq_case)
| AckCase (c : ack_case).

Definition judge (c : case) : N :=
  match c with
  | ToNsqCase x => judge_to_nsq x
  | AckCase x => judge_ack x
  end.
