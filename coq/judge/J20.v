(* Correspondence judge for C20 (to_nsq): one case = one run of the real to_nsq
   binary against [ndest] recording destinations. No proofs here. *)
From Coq Require Import List NArith Bool.
From NSQV Require Import model.Judge model.Relay.
Import ListNotations.
Open Scope N_scope.

Record case := mk {
  delim : N;
  ndest : nat;
  input : bytes;
  got : list (list bytes)        (* per destination: bodies published, in order *)
}.

Definition judge (c : case) : N :=
  let model_ok :=
    match published_per_dest (ndest c) (delim c) (input c) with
    | Some m => list_eqb bytess_eqb m (got c)
    | None => false
    end in
  (* the property itself, on the implementation's own output *)
  let monitor := list_eqb bytess_eqb (got c) (repeat (split_nonempty (delim c) (input c)) (ndest c)) in
  verdict model_ok monitor.
