(* Correspondence judge for C07 (message content and envelope integrity).
   bit 0: the model (model/Wire.v) and the implementation disagree on the case;
   bit 1: the property itself is false on what the implementation did.
   No proofs here. *)
From Coq Require Import List ZArith Bool NArith.
From NSQV Require Import gen.Consts model.Judge model.Relay model.Wire.
Import ListNotations.
Open Scope Z_scope.

(* one delivery as decoded: channel index, timestamp, attempts, id, body key *)
Definition dlv : Type := (N * Z * N * bytes * bytes)%type.

Inductive case :=
  (* Message.WriteTo on (ts, attempts, id, body): bytes written, count reported *)
| CEnc (ts : Z) (att : N) (id body wire : bytes) (reported : Z)
  (* decodeMessage on arbitrary input *)
| CDec (input : bytes) (ok panicked : bool) (ts : Z) (att : N) (id body : bytes)
  (* writeMessageToBackend then decodeMessage of the record (the disk round trip) *)
| CRound (ts : Z) (att : N) (id body : bytes) (ok : bool) (ts' : Z) (att' : N) (id' body' : bytes)
  (* SendFramedResponse *)
| CFrame (ftype : Z) (data wire : bytes) (reported : Z)
  (* several real frames written back to back, the byte stream cut into chunks *)
| CStream (frames : list (Z * bytes)) (chunks : list bytes)
  (* readMPUB: intent 0 = the generator built an invalid batch, 1 = a valid batch of
     [want], 2 = unknown (corrupted bytes); code 0 ok, 1 E_BAD_BODY, 2 E_BAD_MESSAGE, 9 other *)
| CMpub (max_msg max_body : Z) (input : bytes) (intent : N) (want : list bytes)
        (code : N) (bodies : list bytes) (unread : Z)
  (* an HTTP publish against a live nsqd, observed by consuming the topic's only channel.
     kind 0 = /pub, 1 = text /mpub, 2 = binary /mpub; err 0 none, 1 MSG_TOO_BIG,
     2 BODY_TOO_BIG, 3 MSG_EMPTY, 4 BAD_BODY, 5 BAD_MESSAGE, 9 other *)
| CHttp (kind : N) (max_msg max_body cl : Z) (body : bytes) (intent : N) (want : list bytes)
        (status : Z) (err : N) (topic_count : Z) (got : list bytes)
  (* a live path, small bodies: the raw data of every message frame received, per channel
     index, in arrival order; every published body was acknowledged; bodies pairwise
     distinct; k deliveries of each message expected on each of nchan channels *)
| CLive (pubs : list bytes) (nchan k : N) (ts_lo ts_hi : Z) (dels : list (N * bytes))
  (* a live path, large bodies: the harness decoded the frames; the body key is
     [length; 8-byte digest] *)
| CLiveDigest (pubs : list bytes) (nchan k : N) (ts_lo ts_hi : Z) (dels : list dlv) (harness_equal : bool)
  (* everything ONE consumer connection received between its SUB and the end, frame by frame
     in arrival order (heartbeats left out): (frame type, data); the data of a message frame
     is its 26-byte header followed by the body key [length; 8-byte digest] (the harness
     compared the bodies byte for byte: harness_equal).  pubs: the keys of the messages
     published (and acknowledged) to the connection's channel, each to be delivered once;
     cmds: the commands the connection itself sent that draw a response, in the order sent
     (0 answered OK: SUB, PUB, MPUB, DPUB; 1/2/3: FIN/REQ/TOUCH of an id that is not in
     flight; 4 CLS).  clean: the harness read the stream to its end frame by frame: no
     read error, no impossible frame header, no bytes left over. *)
| CConn (pubs : list bytes) (ts_lo ts_hi : Z) (cmds : list N) (frames : list (Z * bytes)) (harness_equal clean : bool).

(* ------------------------------------------------------------------ helpers *)
Definition mk (ts : Z) (att : N) (id body : bytes) : wmsg := mkMsg id body ts att 0.

Definition msg_eqb (m : wmsg) (ts : Z) (att : N) (id body : bytes) : bool :=
  (m_ts m =? ts) && (m_attempts m =? att)%N && bytes_eqb (m_id m) id && bytes_eqb (m_body m) body.

Fixpoint count_eq (x : bytes) (l : list bytes) : nat :=
  match l with
  | [] => O
  | y :: r => (if bytes_eqb x y then 1 else 0) + count_eq x r
  end%nat.

(* same multiset *)
Definition perm_eqb (a b : list bytes) : bool :=
  Nat.eqb (length a) (length b) &&
  forallb (fun x => Nat.eqb (count_eq x a) (count_eq x b)) a.

Definition frames_eqb (a b : list (Z * bytes)) : bool :=
  list_eqb (fun x y => (fst x =? fst y) && bytes_eqb (snd x) (snd y)) a b.

Definition perr_code (e : perr) : N :=
  match e with E_BAD_BODY => 1 | E_BAD_MESSAGE => 2 | E_FUEL => 8 end%N.

Definition herr_code (e : herr) : N * Z :=
  match e with
  | H_MSG_TOO_BIG => (1%N, 413)
  | H_BODY_TOO_BIG => (2%N, 413)
  | H_MSG_EMPTY => (3%N, 400)
  | H_BAD_BODY => (4%N, 413)
  | H_BAD_MESSAGE => (5%N, 413)
  | H_FUEL => (8%N, 0)
  end.

Definition sizes_ok (max_msg : Z) (l : list bytes) : bool :=
  forallb (fun b => (1 <=? len b) && (len b <=? max_msg)) l.

(* the judge's own reading of a binary batch, limits aside: a positive count, then that many
   length-prefixed non-empty bodies, all of them present (bytes after the batch are not
   looked at).  A count above the number of input bytes cannot be honoured. *)
Fixpoint spell_msgs (n : nat) (s : bytes) : option (list bytes) :=
  match n with
  | O => Some []
  | S n' =>
      if len s <? 4 then None
      else
        let k := i32_of_u32 (be_dec (firstn 4 s)) in
        let s1 := skipn 4 s in
        if (k <=? 0) || (len s1 <? k) then None
        else match spell_msgs n' (skipn (Z.to_nat k) s1) with
             | Some l => Some (firstn (Z.to_nat k) s1 :: l)
             | None => None
             end
  end.

Definition spell_batch (s : bytes) : option (list bytes) :=
  if len s <? 4 then None
  else
    let c := i32_of_u32 (be_dec (firstn 4 s)) in
    if (c <=? 0) || (c >? len s) then None else spell_msgs (Z.to_nat c) (skipn 4 s).

(* ------------------------------------------------------------------ live paths *)
Definition d_chan (d : dlv) : N := let '(c, _, _, _, _) := d in c.
Definition d_ts (d : dlv) : Z := let '(_, t, _, _, _) := d in t.
Definition d_att (d : dlv) : N := let '(_, _, a, _, _) := d in a.
Definition d_id (d : dlv) : bytes := let '(_, _, _, i, _) := d in i.
Definition d_key (d : dlv) : bytes := let '(_, _, _, _, k) := d in k.

Fixpoint chans (n : nat) : list N :=
  match n with O => [] | S n' => chans n' ++ [N.of_nat n'] end.

(* the property on a live trace *)
Definition live_monitor (pubs : list bytes) (nchan k : N) (lo hi : Z) (ds : list dlv) : bool :=
  (* the right number of deliveries: every message, on every channel, k times *)
  (N.of_nat (length ds) =? N.of_nat (length pubs) * nchan * k)%N &&
  forallb (fun p =>
    forallb (fun c =>
      (N.of_nat (length (filter (fun d => (d_chan d =? c)%N && bytes_eqb (d_key d) p) ds)) =? k)%N)
      (chans (N.to_nat nchan))) pubs &&
  (* every body received is one that was published *)
  forallb (fun d => existsb (bytes_eqb (d_key d)) pubs) ds &&
  (* ids are 16 hex characters; timestamps lie in the publish window *)
  forallb (fun d => id_is_hex16 (d_id d) && (lo <=? d_ts d) && (d_ts d <=? hi)) ds &&
  (* id and timestamp are the same on every redelivery and every channel, and ids of
     different messages differ *)
  forallb (fun d1 =>
    forallb (fun d2 =>
      if bytes_eqb (d_key d1) (d_key d2)
      then bytes_eqb (d_id d1) (d_id d2) && (d_ts d1 =? d_ts d2)
      else negb (bytes_eqb (d_id d1) (d_id d2))) ds) ds.

(* the model's prediction for attempts: on each channel the j-th delivery of a message
   carries attempts = j (path_attempts: carried through disk and requeue, +1 per delivery) *)
Fixpoint seq_from (a : N) (l : list N) : bool :=
  match l with [] => true | x :: r => (x =? a)%N && seq_from (a + 1)%N r end.

Definition live_agree (pubs : list bytes) (nchan : N) (ds : list dlv) : bool :=
  forallb (fun p =>
    forallb (fun c =>
      seq_from 1%N (map d_att (filter (fun d => (d_chan d =? c)%N && bytes_eqb (d_key d) p) ds)))
      (chans (N.to_nat nchan))) pubs.

Fixpoint decode_all (l : list (N * bytes)) : option (list dlv) :=
  match l with
  | [] => Some []
  | (c, raw) :: r =>
      match decode_msg raw, decode_all r with
      | DecOk m, Some ds => Some ((c, m_ts m, m_attempts m, m_id m, m_body m) :: ds)
      | _, _ => None
      end
  end.

(* ------------------------------------------------------------------ one connection's stream *)
Definition resp_OK : bytes := [79; 75]%N.
Definition resp_CLOSE_WAIT : bytes := [67; 76; 79; 83; 69; 95; 87; 65; 73; 84]%N.
Definition err_FIN_FAILED : bytes := [69; 95; 70; 73; 78; 95; 70; 65; 73; 76; 69; 68]%N.
Definition err_REQ_FAILED : bytes := [69; 95; 82; 69; 81; 95; 70; 65; 73; 76; 69; 68]%N.
Definition err_TOUCH_FAILED : bytes := [69; 95; 84; 79; 85; 67; 72; 95; 70; 65; 73; 76; 69; 68]%N.

(* the frame a command draws: (frame type, data / error code) *)
Definition resp_of_cmd (c : N) : Z * bytes :=
  match c with
  | 0%N => (nsqd_frameTypeResponse, resp_OK)
  | 1%N => (nsqd_frameTypeError, err_FIN_FAILED)
  | 2%N => (nsqd_frameTypeError, err_REQ_FAILED)
  | 3%N => (nsqd_frameTypeError, err_TOUCH_FAILED)
  | 4%N => (nsqd_frameTypeResponse, resp_CLOSE_WAIT)
  | _ => (-1, [])
  end.

(* an error frame is compared by its code: the bytes before the first space *)
Fixpoint first_word (b : bytes) : bytes :=
  match b with
  | [] => []
  | x :: r => if (x =? 32)%N then [] else x :: first_word r
  end.

Definition is_msg_frame (f : Z * bytes) : bool := fst f =? nsqd_frameTypeMessage.

Definition conn_msgs (frames : list (Z * bytes)) : list (N * bytes) :=
  map (fun f => (0%N, snd f)) (filter is_msg_frame frames).

Definition conn_resps (frames : list (Z * bytes)) : list (Z * bytes) :=
  filter (fun f => negb (is_msg_frame f)) frames.

(* the property on the other frames of the connection: exactly one frame per command, in the
   order of the commands, of the right type and with the right code *)
Fixpoint all2 {A B : Type} (p : A -> B -> bool) (x : list A) (y : list B) : bool :=
  match x, y with
  | [], [] => true
  | a :: x', b :: y' => p a b && all2 p x' y'
  | _, _ => false
  end.

Definition resps_match (cmds : list N) (rs : list (Z * bytes)) : bool :=
  all2 (fun c r => (fst (resp_of_cmd c) =? fst r) && bytes_eqb (snd (resp_of_cmd c)) (first_word (snd r))) cmds rs.

(* the model's prediction: a response frame carries exactly the response bytes *)
Definition resps_exact (cmds : list N) (rs : list (Z * bytes)) : bool :=
  all2 (fun c r =>
    (fst (resp_of_cmd c) =? fst r) &&
    (if fst r =? nsqd_frameTypeResponse then bytes_eqb (snd (resp_of_cmd c)) (snd r)
     else bytes_eqb (snd (resp_of_cmd c)) (first_word (snd r)))) cmds rs.

(* ------------------------------------------------------------------ the judge *)
Definition judge (c : case) : N :=
  match c with
  | CEnc ts att id body wire reported =>
      let agree := bytes_eqb (encode_msg (mk ts att id body)) wire && (reported =? len wire) in
      let monitor :=
        (len wire =? 26 + len body) && bytes_eqb (skipn 26 wire) body &&
        bytes_eqb (firstn 16 (skipn 10 wire)) id in
      verdict agree monitor
  | CDec input ok panicked ts att id body =>
      let agree :=
        match decode_msg input with
        | DecOk m => ok && negb panicked && msg_eqb m ts att id body
        | DecErr => negb ok && negb panicked
        | DecPanic => panicked
        end in
      let monitor :=
        negb panicked &&
        (if len input <? 26 then negb ok
         else ok && bytes_eqb body (skipn 26 input) && bytes_eqb id (firstn 16 (skipn 10 input))) in
      verdict agree monitor
  | CRound ts att id body ok ts' att' id' body' =>
      let agree :=
        match through_disk (mk ts att id body) with
        | DecOk m => ok && msg_eqb m ts' att' id' body'
        | _ => negb ok
        end in
      let monitor := ok && (ts' =? ts) && (att' =? att)%N && bytes_eqb id' id && bytes_eqb body' body in
      verdict agree monitor
  | CFrame ftype data wire reported =>
      let agree := bytes_eqb (frame ftype data) wire && (reported =? len wire) in
      let monitor :=
        match rrun rinit wire with
        | (RHdr [], [(t, d)]) => (t =? ftype) && bytes_eqb d data
        | _ => false
        end in
      verdict agree monitor
  | CStream frames chunks =>
      let agree := bytes_eqb (concat chunks) (flat_map (fun f => frame (fst f) (snd f)) frames) in
      let monitor :=
        match rrun_chunks rinit chunks with
        | (RHdr [], got) => frames_eqb got frames
        | _ => false
        end in
      verdict agree monitor
  | CMpub max_msg max_body input intent want code bodies unread =>
      let agree :=
        match read_mpub max_msg max_body input with
        | RdOk bs rest => (code =? 0)%N && bytess_eqb bs bodies && (unread =? len rest)
        | RdErr e => (code =? perr_code e)%N && match bodies with [] => true | _ => false end
        end in
      let monitor :=
        if (code =? 0)%N then
          (* what was accepted is what the input spells out, within the limits *)
          bytes_eqb (firstn (length input - Z.to_nat unread) input) (encode_mpub bodies) &&
          sizes_ok max_msg bodies && negb (Nat.eqb (length bodies) 0) &&
          (match intent with 0%N => false | 1%N => bytess_eqb bodies want | _ => true end)
        else
          (* a rejected batch yields no message at all, and a valid batch is never rejected *)
          match bodies with [] => negb (intent =? 1)%N | _ => false end in
      verdict agree monitor
  | CHttp kind max_msg max_body cl body intent want status err topic_count got =>
      let model :=
        match kind with
        | 0%N => http_pub max_msg cl body
        | 1%N => http_mpub_text max_msg max_body cl body
        | _ => http_mpub_binary max_msg max_body cl body
        end in
      let agree :=
        match model with
        | HOk msgs => (status =? 200) && (err =? 0)%N && perm_eqb got msgs && (topic_count =? Z.of_nat (length msgs))
        | HErr e => (status =? snd (herr_code e)) && (err =? fst (herr_code e))%N &&
                    match got with [] => true | _ => false end && (topic_count =? 0)
        end in
      let spec :=
        match kind with
        | 0%N => [body]
        | 1%N => split_nonempty nl body
        | _ => want
        end in
      let monitor :=
        if status =? 200 then
          (match kind, intent with
           | 2%N, 1%N => perm_eqb got want
           | 2%N, _ => true
           | _, _ => perm_eqb got spec
           end) &&
          (* a binary batch: what was delivered is what the request body spells out *)
          (match kind with
           | 2%N => match spell_batch body with Some l => perm_eqb got l | None => false end
           | _ => true
           end) && sizes_ok max_msg got && (topic_count =? Z.of_nat (length got)) &&
          negb (intent =? 0)%N
        else
          match got with [] => (topic_count =? 0) && negb (intent =? 1)%N | _ => false end in
      verdict agree monitor
  | CLive pubs nchan k lo hi dels =>
      match decode_all dels with
      | Some ds => verdict (live_agree pubs nchan ds) (live_monitor pubs nchan k lo hi ds)
      | None => 3%N
      end
  | CLiveDigest pubs nchan k lo hi ds harness_equal =>
      verdict (live_agree pubs nchan ds) (harness_equal && live_monitor pubs nchan k lo hi ds)
  | CConn pubs lo hi cmds frames harness_equal clean =>
      match decode_all (conn_msgs frames) with
      | Some ds =>
          verdict (live_agree pubs 1%N ds && resps_exact cmds (conn_resps frames))
                  (clean && harness_equal &&
                   forallb (fun f => (0 <=? fst f) && (fst f <=? 2)) frames &&
                   live_monitor pubs 1%N 1%N lo hi ds &&
                   resps_match cmds (conn_resps frames))
      | None => 3%N
      end
  end.
