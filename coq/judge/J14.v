(* Correspondence judge for C14 (nsqlookupd registry).  One case = one history driven
   against a real in-process nsqlookupd; after every operation the driver recorded the
   answer of the operation and all HTTP views.
     agree   : the executable model (model/Lookupd.v) predicts every answer and every view
               (as multisets; the wildcard /lookup, whose content depends on Go's map
               iteration order, is checked against the model's lower/upper bound)
     monitor : the property itself - every view is exactly what the plain registry
               (model/LookupSpec.v, run independently on the same operations) predicts
   No proofs here. *)
From Coq Require Import List NArith ZArith Bool.
From NSQV Require Import model.Judge model.Names model.Lookupd model.LookupSpec.
Import ListNotations.
Open Scope bool_scope.

Record obs := mkObs {
  o_topics : list name;
  o_lookups : list (name * option (list name * list peer));   (* per queried topic; None = 404 *)
  o_channels : list (name * list name);                        (* per queried topic *)
  o_nodes : list (peer * list (name * bool));                  (* node, its topics with tombstone flags *)
  o_debug : list (reg * peer * bool)                           (* registration, producer, raw tombstoned flag *)
}.
Record stepobs := mkStep { st_op : op; st_out : out; st_obs : option obs }.   (* None: views not recorded *)
Record case := mk {
  c_inactive : Z;
  c_lifetime : Z;
  c_npeers : N;            (* connections are numbered 0 .. npeers-1 *)
  c_chans : list name;     (* channel names used by the history *)
  c_steps : list stepobs
}.

(* ---- multiset equality *)
Definition count {A} (eqb : A -> A -> bool) (x : A) (l : list A) : nat :=
  length (filter (eqb x) l).
Definition mseq {A} (eqb : A -> A -> bool) (a b : list A) : bool :=
  Nat.eqb (length a) (length b) && forallb (fun x => Nat.eqb (count eqb x a) (count eqb x b)) a.
Definition subset {A} (eqb : A -> A -> bool) (a b : list A) : bool :=
  forallb (fun x => existsb (eqb x) b) a.
Fixpoint nodupb {A} (eqb : A -> A -> bool) (l : list A) : bool :=
  match l with [] => true | x :: r => negb (existsb (eqb x) r) && nodupb eqb r end.

Definition pair_eqb {A B} (ea : A -> A -> bool) (eb : B -> B -> bool) (x y : A * B) : bool :=
  ea (fst x) (fst y) && eb (snd x) (snd y).
Definition opt_eqb {A} (e : A -> A -> bool) (x y : option A) : bool :=
  match x, y with Some a, Some b => e a b | None, None => true | _, _ => false end.

Definition code_eqb (a b : code) : bool :=
  match a, b with
  | E_INVALID, E_INVALID | E_BAD_TOPIC, E_BAD_TOPIC | E_BAD_CHANNEL, E_BAD_CHANNEL | E_BAD_BODY, E_BAD_BODY => true
  | _, _ => false
  end.
Definition resp_eqb (a b : resp) : bool :=
  match a, b with
  | ROk, ROk | RIdentified, RIdentified => true
  | RErr x, RErr y => code_eqb x y
  | _, _ => false
  end.
Definition out_eqb (a b : out) : bool :=
  match a, b with
  | OResp x, OResp y => resp_eqb x y
  | OStatus x, OStatus y => N.eqb x y
  | ONone, ONone => true
  | _, _ => false
  end.

Definition lookup_eqb : option (list name * list peer) -> option (list name * list peer) -> bool :=
  opt_eqb (pair_eqb (mseq bytes_eqb) (mseq N.eqb)).
Definition node_eqb : peer * list (name * bool) -> peer * list (name * bool) -> bool :=
  pair_eqb N.eqb (mseq (pair_eqb bytes_eqb Bool.eqb)).
Definition debug_eqb : reg * peer * bool -> reg * peer * bool -> bool :=
  pair_eqb (pair_eqb reg_eqb N.eqb) Bool.eqb.

(* ---- the wildcard /lookup: bounds that hold for every map iteration order *)
Definition star_producers (s : state) : list producer :=
  flat_map (fun e => if is_match CTopic star [] (fst e) then snd e else []) (db s).
Definition star_lower (inactive lifetime : Z) (s : state) (p : peer) : bool :=
  let mine := filter (fun pr => N.eqb (p_id pr) p) (star_producers s) in
  nonempty (map p_id mine) && forallb (active inactive lifetime s) mine.
Definition star_upper (inactive lifetime : Z) (s : state) (p : peer) : bool :=
  existsb (fun pr => N.eqb (p_id pr) p && active inactive lifetime s pr) (star_producers s).

Definition agree_lookup (inactive lifetime : Z) (s : state) (e : name * option (list name * list peer)) : bool :=
  let '(t, o) := e in
  if is_star t then
    match o, q_lookup inactive lifetime s t with
    | None, None => true
    | Some (chs, ps), Some (mchs, _) =>
        mseq bytes_eqb chs mchs && nodupb N.eqb ps
        && forallb (star_upper inactive lifetime s) ps
        && forallb (fun p => negb (star_lower inactive lifetime s p) || existsb (N.eqb p) ps)
                   (map p_id (star_producers s))
    | _, _ => false
    end
  else lookup_eqb o (q_lookup inactive lifetime s t).

Definition agree_obs (inactive lifetime : Z) (s : state) (o : obs) : bool :=
  mseq bytes_eqb (o_topics o) (q_topics s)
  && forallb (agree_lookup inactive lifetime s) (o_lookups o)
  && forallb (fun e => mseq bytes_eqb (snd e) (q_channels s (fst e))) (o_channels o)
  && mseq node_eqb (o_nodes o) (q_nodes inactive lifetime s)
  && mseq debug_eqb (o_debug o) (q_debug s).

Fixpoint agree_steps (inactive lifetime : Z) (s : state) (l : list stepobs) : bool :=
  match l with
  | [] => true
  | st :: r =>
      let '(s', o) := step s (st_op st) in
      out_eqb o (st_out st)
      && match st_obs st with Some ob => agree_obs inactive lifetime s' ob | None => true end
      && agree_steps inactive lifetime s' r
  end.

(* ---- the property on the implementation's own answers, via the plain registry *)
Definition peers_upto (n : N) : list peer := map N.of_nat (seq 0 (N.to_nat n)).

(* observed list = { x in universe | pred x }, and nothing outside the predicate *)
Definition exactly {A} (eqb : A -> A -> bool) (pred : A -> bool) (universe observed : list A) : bool :=
  nodupb eqb observed && forallb pred observed
  && forallb (fun x => negb (pred x) || existsb (eqb x) observed) universe.

Definition mon_lookup (inactive lifetime : Z) (r : registry) (np : N) (chans : list name)
                      (e : name * option (list name * list peer)) : bool :=
  let '(t, o) := e in
  if is_star t then true
  else match o with
  | None => negb (lookup_found r t)
  | Some (chs, ps) =>
      lookup_found r t
      && exactly bytes_eqb (lookup_channel r t) chans chs
      && exactly N.eqb (lookup_producer inactive lifetime r t) (peers_upto np) ps
  end.

Definition mon_obs (inactive lifetime : Z) (r : registry) (np : N) (chans : list name) (o : obs) : bool :=
  let topics_u := map fst (o_lookups o) in
  exactly bytes_eqb (fun t => topic_listed r t && negb (is_star t)) topics_u (o_topics o)
  && forallb (mon_lookup inactive lifetime r np chans) (o_lookups o)
  && forallb (fun e => is_star (fst e) || exactly bytes_eqb (lookup_channel r (fst e)) chans (snd e)) (o_channels o)
  && exactly N.eqb (node_listed inactive r) (peers_upto np) (map fst (o_nodes o))
  && forallb (fun e =>
                exactly bytes_eqb (node_topic r (fst e)) topics_u (map fst (snd e))
                && forallb (fun tb => Bool.eqb (snd tb) (node_tomb lifetime r (fst e) (fst tb))) (snd e))
             (o_nodes o).

Fixpoint mon_steps (inactive lifetime : Z) (r : registry) (np : N) (chans : list name) (l : list stepobs) : bool :=
  match l with
  | [] => true
  | st :: rest =>
      let r' := g_step r (st_op st) in
      match st_obs st with Some ob => mon_obs inactive lifetime r' np chans ob | None => true end
      && mon_steps inactive lifetime r' np chans rest
  end.

(* ---- the wire form of a case: names are indices into one table (terms without local
   definitions elaborate several times faster; index 0 is the empty name) *)
Inductive iquery := IQBad | IQArgs (t c n : option N).
Inductive iop :=
| IIdentify (p : peer) (baddr : N) (tcp http : Z) (version : N)
| IRegister (p : peer) (t c : N)
| IUnregister (p : peer) (t c : N)
| IPing (p : peer)
| IDisconnect (p : peer)
| IHCreateTopic (q : iquery)
| IHDeleteTopic (q : iquery)
| IHCreateChannel (q : iquery)
| IHDeleteChannel (q : iquery)
| IHTombstone (q : iquery)
| IAdvance (d : Z).
Record iobs := imkObs {
  io_topics : list N;
  io_lookups : list (N * option (list N * list peer));
  io_channels : list (N * list N);
  io_nodes : list (peer * list (N * bool));
  io_debug : list (cat * N * N * peer * bool)
}.
Record istep := imkStep { ist_op : iop; ist_out : out; ist_obs : option iobs }.
Record icase := imk {
  ic_names : list name;
  ic_inactive : Z;
  ic_lifetime : Z;
  ic_npeers : N;
  ic_chans : list N;
  ic_steps : list istep
}.

Section Resolve.
  Variable tbl : list name.
  Definition nm (i : N) : name := nth (N.to_nat i) tbl [].
  Definition nms (l : list N) : list name := map nm l.
  Definition rq (q : iquery) : query :=
    match q with
    | IQBad => QBad
    | IQArgs t c n => QArgs (option_map nm t) (option_map nm c) (option_map nm n)
    end.
  Definition rop (o : iop) : op :=
    match o with
    | IIdentify p b tcp http v => Identify p (mkInfo (nm b) tcp http (nm v))
    | IRegister p t c => Register p (nm t) (nm c)
    | IUnregister p t c => Unregister p (nm t) (nm c)
    | IPing p => Ping p
    | IDisconnect p => Disconnect p
    | IHCreateTopic q => HCreateTopic (rq q)
    | IHDeleteTopic q => HDeleteTopic (rq q)
    | IHCreateChannel q => HCreateChannel (rq q)
    | IHDeleteChannel q => HDeleteChannel (rq q)
    | IHTombstone q => HTombstone (rq q)
    | IAdvance d => Advance d
    end.
  Definition robs (o : iobs) : obs :=
    mkObs (nms (io_topics o))
          (map (fun e => (nm (fst e), option_map (fun cp => (nms (fst cp), snd cp)) (snd e))) (io_lookups o))
          (map (fun e => (nm (fst e), nms (snd e))) (io_channels o))
          (map (fun e => (fst e, map (fun tb => (nm (fst tb), snd tb)) (snd e))) (io_nodes o))
          (map (fun e => match e with (c, k, sb, p, b) => (mkReg c (nm k) (nm sb), p, b) end) (io_debug o)).
  Definition rstep (st : istep) : stepobs :=
    mkStep (rop (ist_op st)) (ist_out st) (option_map robs (ist_obs st)).
End Resolve.

Definition resolve (c : icase) : case :=
  mk (ic_inactive c) (ic_lifetime c) (ic_npeers c) (nms (ic_names c) (ic_chans c))
     (map (rstep (ic_names c)) (ic_steps c)).

Definition judge (c : case) : N :=
  verdict (agree_steps (c_inactive c) (c_lifetime c) init (c_steps c))
          (mon_steps (c_inactive c) (c_lifetime c) g_init (c_npeers c) (c_chans c) (c_steps c)).

Definition judge_i (c : icase) : N := judge (resolve c).
