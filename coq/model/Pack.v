(* Input decoding for the correspondence judges only: long byte strings are written
   by the harness as 7-byte big-endian chunks in primitive 63-bit integers (a list
   literal of N costs ~0.1 ms per byte to elaborate, a Uint63 literal is one node).
   No theorem depends on this file. No proofs here. *)
From Coq Require Import List NArith Uint63.
Import ListNotations.

Definition bit (w k : int) : bool :=
  negb (Uint63.eqb (Uint63.land (Uint63.lsr w k) 1%uint63) 0%uint63).

(* four bits starting at bit k, as N *)
Definition nib (w k : int) : N :=
  let b0 := bit w k in
  let b1 := bit w (Uint63.add k 1%uint63) in
  let b2 := bit w (Uint63.add k 2%uint63) in
  let b3 := bit w (Uint63.add k 3%uint63) in
  (if b3 then if b2 then if b1 then if b0 then 15 else 14 else if b0 then 13 else 12
              else if b1 then if b0 then 11 else 10 else if b0 then 9 else 8
   else if b2 then if b1 then if b0 then 7 else 6 else if b0 then 5 else 4
              else if b1 then if b0 then 3 else 2 else if b0 then 1 else 0)%N.

Definition byte_of (w k : int) : N :=
  (16 * nib w (Uint63.add k 4%uint63) + nib w k)%N.

Definition unpack7 (w : int) : list N :=
  [byte_of w 48%uint63; byte_of w 40%uint63; byte_of w 32%uint63; byte_of w 24%uint63;
   byte_of w 16%uint63; byte_of w 8%uint63; byte_of w 0%uint63].

Definition unpack (len : N) (ws : list int) : list N :=
  firstn (N.to_nat len) (flat_map unpack7 ws).
