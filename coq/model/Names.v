(* Model of internal/protocol/names.go: topic/channel name validity (shared by C09,
   C10, C11, C14, C15).  A name is a byte string (bytes as N).
     len in [1,64]  and  matches  ^[.a-zA-Z0-9_-]+(#ephemeral)?$
   (Go RE2: $ without the m flag matches only at the very end of the text.)
   No proofs here. *)
From Coq Require Import List NArith Bool.
From NSQV Require Import model.Judge.
Import ListNotations.
Open Scope N_scope.

Definition name_char (c : N) : bool :=
  (c =? 46) || (c =? 95) || (c =? 45)                 (* . _ - *)
  || ((97 <=? c) && (c <=? 122))                      (* a-z *)
  || ((65 <=? c) && (c <=? 90))                       (* A-Z *)
  || ((48 <=? c) && (c <=? 57)).                      (* 0-9 *)

Definition ephemeral_suffix : bytes := [35;101;112;104;101;109;101;114;97;108].  (* "#ephemeral" *)

Definition all_name_chars (l : bytes) : bool :=
  match l with [] => false | _ => forallb name_char l end.

(* the regexp: one or more class characters, then optionally the literal suffix *)
Definition matches_name_regex (l : bytes) : bool :=
  all_name_chars l ||
  (let n := length l in
   (10 <? N.of_nat n) &&
   bytes_eqb (skipn (n - 10) l) ephemeral_suffix &&
   all_name_chars (firstn (n - 10) l)).

Definition is_valid_name (l : bytes) : bool :=
  (1 <=? N.of_nat (length l)) && (N.of_nat (length l) <=? 64) && matches_name_regex l.

Definition has_ephemeral_suffix (l : bytes) : bool :=
  let n := length l in
  (10 <=? N.of_nat n) && bytes_eqb (skipn (n - 10) l) ephemeral_suffix.
