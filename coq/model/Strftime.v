(* Model of apps/nsq_to_file/strftime.go for clock readings in UTC.

   The Go code translates the strftime conversions B b m A a d H I M S Y y p Z z % into
   a time.Format layout ("January" "Jan" "01" "Monday" "Mon" "02" "15" "03" "04" "05"
   "2006" "06" "PM" "MST" "-0700" "%"), copies every other character into the layout
   unchanged and calls t.Format(layout).  time.Format interprets *any* layout token, so
   literal letters or digits of the user's format (e.g. the "1" in "%Y-1") are also
   interpreted.  This model covers the formats whose literal characters are not
   alphanumeric (then the layout tokens are exactly the translated conversions; checked
   against time.Format's chunking rules: "_2006", ".0"/".9" runs and "-07" cannot arise);
   for other formats it answers None (not modelled).
   Calendar: proleptic Gregorian, civil-from-days.  No proofs here. *)
From Coq Require Import List ZArith NArith Bool.
From NSQV Require Import model.Judge.
Import ListNotations.
Open Scope bool_scope.
Open Scope Z_scope.

Definition civil (days : Z) : Z * Z * Z :=           (* year, month 1-12, day 1-31 *)
  let z := days + 719468 in
  let era := z / 146097 in
  let doe := z - era * 146097 in
  let yoe := (doe - doe / 1460 + doe / 36524 - doe / 146096) / 365 in
  let y := yoe + era * 400 in
  let doy := doe - (365 * yoe + yoe / 4 - yoe / 100) in
  let mp := (5 * doy + 2) / 153 in
  let d := doy - (153 * mp + 2) / 5 + 1 in
  let m := if mp <? 10 then mp + 3 else mp - 9 in
  (if m <=? 2 then y + 1 else y, m, d).

Definition weekday (days : Z) : Z := (days + 4) mod 7.  (* 0 = Sunday *)

Definition ascii (s : list Z) : bytes := map Z.to_N s.
Definition digit (z : Z) : N := Z.to_N (48 + z mod 10).
Definition two (z : Z) : bytes := [digit (z / 10); digit z].
Definition four (z : Z) : bytes := [digit (z / 1000); digit (z / 100); digit (z / 10); digit z].

Definition month_name (m : Z) : bytes :=
  ascii (match m with
  | 1 => [74;97;110;117;97;114;121] | 2 => [70;101;98;114;117;97;114;121] | 3 => [77;97;114;99;104]
  | 4 => [65;112;114;105;108] | 5 => [77;97;121] | 6 => [74;117;110;101] | 7 => [74;117;108;121]
  | 8 => [65;117;103;117;115;116] | 9 => [83;101;112;116;101;109;98;101;114]
  | 10 => [79;99;116;111;98;101;114] | 11 => [78;111;118;101;109;98;101;114] | _ => [68;101;99;101;109;98;101;114]
  end).

Definition day_name (w : Z) : bytes :=
  ascii (match w with
  | 0 => [83;117;110;100;97;121] | 1 => [77;111;110;100;97;121] | 2 => [84;117;101;115;100;97;121]
  | 3 => [87;101;100;110;101;115;100;97;121] | 4 => [84;104;117;114;115;100;97;121]
  | 5 => [70;114;105;100;97;121] | _ => [83;97;116;117;114;100;97;121]
  end).

Definition is_alnum (b : N) : bool :=
  ((48 <=? b) && (b <=? 57) || (65 <=? b) && (b <=? 90) || (97 <=? b) && (b <=? 122))%N.

(* one conversion character -> its rendering at time t (seconds since the epoch, UTC) *)
Definition conv (c : N) (t : Z) : option bytes :=
  let days := t / 86400 in
  let sod := t mod 86400 in
  let '(y, m, d) := civil days in
  let h := sod / 3600 in
  match c with
  | 66%N => Some (month_name m)                       (* B *)
  | 98%N => Some (firstn 3 (month_name m))            (* b *)
  | 109%N => Some (two m)                             (* m *)
  | 65%N => Some (day_name (weekday days))            (* A *)
  | 97%N => Some (firstn 3 (day_name (weekday days))) (* a *)
  | 100%N => Some (two d)                             (* d *)
  | 72%N => Some (two h)                              (* H *)
  | 73%N => Some (two (let x := h mod 12 in if x =? 0 then 12 else x))   (* I *)
  | 77%N => Some (two ((sod / 60) mod 60))            (* M *)
  | 83%N => Some (two (sod mod 60))                   (* S *)
  | 89%N => Some (four y)                             (* Y *)
  | 121%N => Some (two (y mod 100))                   (* y *)
  | 112%N => Some (ascii (if h <? 12 then [65;77] else [80;77]))         (* p *)
  | 90%N => Some (ascii [85;84;67])                   (* Z: "UTC" *)
  | 122%N => Some (ascii [43;48;48;48;48])            (* z: "+0000" *)
  | 37%N => Some [37%N]                               (* % *)
  | _ => None
  end.

Fixpoint strftime_go (fmt : bytes) (t : Z) (skip : bool) : option bytes :=
  match fmt with
  | [] => Some []
  | b :: r =>
      if skip then strftime_go r t false
      else
        let lit := if is_alnum b then None
                   else match strftime_go r t false with Some x => Some (b :: x) | None => None end in
        if N.eqb b 37 then
          match r with
          | c :: r' =>
              match conv c t with
              | Some s => match strftime_go r t true with Some x => Some (s ++ x) | None => None end
              | None => lit
              end
          | [] => lit
          end
        else lit
  end.

Definition strftime (fmt : bytes) (t : Z) : option bytes := strftime_go fmt t false.
