(* Model for C16 — nsqd keeps nsqlookupd in sync and tolerates its faults.

   nsqd side (nsqd/lookup.go lookupLoop + connectCallback, nsqd/lookup_peer.go
   lookupPeer.Command / Close / readResponseBounded, nsqd/nsqd.go GetTopic /
   DeleteExistingTopic / Notify, nsqd/topic.go GetChannel / DeleteExistingChannel /
   exit / messagePump gate):

     objs   every Topic / Channel object ever created, by identity (index): parent,
            names, exiting flag, whether it is still in its map (n.topicMap /
            t.channelMap) — all the lookup side ever looks at;
     dats   the data-path part of the same objects: the creator's progress through
            GetTopic (d_pc, d_todo), the pump gate (d_started), a FIFO of message ids
            (d_q), and one ghost field (d_want) used only by theorems;
     bag    the pending notifications: one parked Notify goroutine per element, each
            holding an OBJECT; the loop may receive them in ANY order ([Deliver i]) and
            decides REGISTER vs UNREGISTER from the object's CURRENT exiting flag;
     links  one entry per nsqlookupd address: the nsqd-side lookupPeer (k_* fields:
            configured, state, unread bytes of the connection, cached peer info) and
            the nsqlookupd behind it (l_* fields: up, whether it holds a connection
            from this nsqd, THIS producer's registrations on that connection — dropped
            wholesale when the connection goes away —, the channel keys of its DB, and
            the fault scripts of the link: what the next connection attempts and the
            next replies will do).

   Deletion is two steps (exit flag + Notify first, removal from the map later) because
   connectCallback walks the maps without looking at the exiting flags.  GetTopic is a
   little program run by the creator ([TopicAdvance]): query nsqlookupd, create the
   channels one by one, Start — in the order given by the generated table.

   Partial operations are explicit: make([]byte, n) with n < 0 is [RRPanic] and takes
   the whole daemon to [Crashed].  Modelled, not verified: TCP (a connection is a byte
   FIFO; bytes already received stay readable after the other side has gone),
   encoding/json (a reply is accepted as peer info iff it starts with '{'), the Go
   scheduler (the order of [op]s is arbitrary).  [hazard] is the decidable region of
   loop schedules in which a registration is lost or resurrected (finding K6 and one
   sibling window); the convergence theorem holds outside it.  (A third region — a
   reconnect inside a deletion, K6b — was closed by the fix that makes connectCallback
   skip exiting objects; [g_skip_exiting] says whether the source still does.)  No proofs here. *)
From Coq Require Import List NArith ZArith Bool.
From RecordUpdate Require Import RecordUpdate.
From NSQV Require Import gen.Consts gen.SyncTab model.Judge.
Import ListNotations.
Open Scope nat_scope.
Open Scope bool_scope.

(* ------------------------------------------------------------------ configuration *)
(* what the generated table says about the code; the theorems need [good_cfg] *)
Record cfg := mkCfg {
  g_neg : bool;              (* readResponseBounded refuses msgSize < 0 *)
  g_limit : bool;            (* ... and msgSize > limit *)
  g_max : Z;                 (* the limit: --max-body-size *)
  g_close : bool;            (* Command closes the peer on any write / read error *)
  g_reg_topics : bool;       (* connectCallback: REGISTER topic "" for a topic without channels *)
  g_reg_chans : bool;        (* connectCallback: REGISTER topic channel for every channel *)
  g_skip_exiting : bool;     (* connectCallback: topics / channels with Exiting() are not registered *)
  g_bare_no_live : bool;     (* connectCallback: REGISTER topic "" when NO LIVE channel was registered (not only when the map is empty) *)
  g_unreg_topic : bool;      (* lookupLoop: topic.Exiting() -> UNREGISTER, else REGISTER *)
  g_unreg_chan : bool;       (* lookupLoop: channel.Exiting() -> UNREGISTER, else REGISTER *)
  g_precreate_first : bool;  (* GetTopic: lookupd channels are created before t.Start() *)
  g_skip_eph : bool;         (* GetTopic: #ephemeral channels are not pre-created *)
  g_partial_query : bool;    (* GetLookupdTopicChannels: the answering lookupds' channels are used even if others fail *)
  g_ask_any_state : bool;    (* lookupdHTTPAddrs: a peer with a known address is asked WHATEVER the state of its TCP connection *)
  g_ask_peers : bool         (* the shape [asked] relies on: the address is the cached peer info, the list read is the one the
                                loop publishes after every (re)configuration, GetTopic queries exactly lookupdHTTPAddrs() *)
}.

#[export] Instance eta_cfg : Settable _ :=
  settable! mkCfg <g_neg; g_limit; g_max; g_close; g_reg_topics; g_reg_chans; g_skip_exiting; g_bare_no_live;
                   g_unreg_topic; g_unreg_chan; g_precreate_first; g_skip_eph; g_partial_query;
                   g_ask_any_state; g_ask_peers>.

Definition repo_cfg : cfg :=
  mkCfg nsqd_rrb_refuses_negative nsqd_rrb_refuses_over_limit nsqd_opt_MaxBodySize
        (nsqd_command_closes_on_magic_error && nsqd_command_closes_on_write_error
         && nsqd_command_closes_on_read_error && nsqd_close_sets_disconnected
         && nsqd_command_runs_callback_when_disconnected
         && nsqd_cc_identifies_first && nsqd_cc_closes_on_bad_identify_reply
         && nsqd_loop_tick_pings_every_peer && nsqd_loop_notifies_every_peer
         && nsqd_loop_reconfigure_closes_removed)
        nsqd_cc_registers_empty_topics nsqd_cc_registers_channels
        (nsqd_cc_skips_exiting_topics && nsqd_cc_skips_exiting_channels)
        nsqd_cc_bare_topic_when_no_live_channel
        nsqd_loop_topic_exiting_unregisters nsqd_loop_channel_exiting_unregisters
        nsqd_gettopic_precreates_before_start nsqd_gettopic_skips_ephemeral
        (clusterinfo_topicchannels_fails_only_when_all_fail && clusterinfo_topicchannels_returns_partial_result
         && nsqd_gettopic_uses_partial_result)
        nsqd_httpaddrs_skips_only_unknown_address
        (nsqd_httpaddrs_built_from_peer_info && nsqd_loop_publishes_peer_list && nsqd_gettopic_queries_httpaddrs).

Definition good_cfg (c : cfg) : Prop :=
  g_neg c = true /\ g_close c = true /\ g_reg_topics c = true /\ g_reg_chans c = true /\
  g_skip_exiting c = true /\ g_bare_no_live c = true /\ g_partial_query c = true /\
  g_unreg_topic c = true /\ g_unreg_chan c = true /\ g_precreate_first c = true /\
  g_skip_eph c = true /\ g_ask_any_state c = true /\ g_ask_peers c = true /\ (16 <= g_max c)%Z.

Definition st_disconnected : Z := nsqd_stateDisconnected.
Definition st_connected : Z := nsqd_stateConnected.

(* ------------------------------------------------------------------ names, keys, commands *)
(* topic and channel names are numbers; a channel name is "#ephemeral" iff odd *)
Definition eph (c : N) : bool := N.odd c.

Inductive key := KT (t : N) | KC (t c : N).
Definition key_topic (k : key) : N := match k with KT t => t | KC t _ => t end.
Definition key_eqb (a b : key) : bool :=
  match a, b with
  | KT x, KT y => N.eqb x y
  | KC x c, KC y d => N.eqb x y && N.eqb c d
  | _, _ => false
  end.

(* REGISTER t "" = CReg (KT t); REGISTER t c = CReg (KC t c); same for UNREGISTER *)
Inductive cmd := CIdentify | CPing | CReg (k : key) | CUnreg (k : key).

(* nsqlookupd/lookup_protocol_v1.go REGISTER / UNREGISTER restricted to one producer *)
Definition lk_apply (cm : cmd) (regs : list key) : list key :=
  match cm with
  | CIdentify | CPing => regs
  | CReg (KT t) => KT t :: regs
  | CReg (KC t c) => KC t c :: KT t :: regs
  | CUnreg (KT t) => filter (fun k => negb (N.eqb (key_topic k) t)) regs
  | CUnreg (KC t c) => filter (fun k => negb (key_eqb k (KC t c))) regs
  end.

Definition known_apply (cm : cmd) (known : list (N * N)) : list (N * N) :=
  match cm with CReg (KC t c) => (t, c) :: known | _ => known end.

(* ------------------------------------------------------------------ the wire *)
Definition ok_body : list N := [79; 75]%N.                          (* OK *)
Definition ident_body : list N := [123; 34; 98; 34; 125]%N.         (* stands for the JSON peer info *)
Definition einvalid_body : list N := [69; 95; 73; 78; 86; 65; 76; 73; 68]%N.
Definition reply_body (cm : cmd) : list N :=
  match cm with CIdentify => ident_body | _ => ok_body end.

Definition be32_bytes (n : N) : list N :=
  [(n / 16777216) mod 256; (n / 65536) mod 256; (n / 256) mod 256; n mod 256]%N.
Definition frame (body : list N) : list N := be32_bytes (N.of_nat (length body)) ++ body.

Definition be32 (b0 b1 b2 b3 : N) : Z := Z.of_N (b0 * 16777216 + b1 * 65536 + b2 * 256 + b3)%N.
Definition to_i32 (u : Z) : Z := (if u <? 2147483648 then u else u - 4294967296)%Z.

Inductive rr := RROk (body rest : list N) | RRErr | RRPanic.

(* nsqd/lookup_peer.go readResponseBounded on the unread bytes of the connection *)
Definition read_response_bounded (c : cfg) (buf : list N) : rr :=
  match buf with
  | b0 :: b1 :: b2 :: b3 :: rest =>
      let sz := to_i32 (be32 b0 b1 b2 b3) in
      if g_neg c && (sz <? 0)%Z then RRErr
      else if g_limit c && (g_max c <? sz)%Z then RRErr
      else if (sz <? 0)%Z then RRPanic                 (* make([]byte, msgSize), msgSize < 0 *)
      else if (Z.of_nat (length rest) <? sz)%Z then RRErr     (* io.ReadFull: timeout / EOF *)
      else RROk (firstn (Z.to_nat sz) rest) (skipn (Z.to_nat sz) rest)
  | _ => RRErr                                         (* binary.Read: timeout / EOF *)
  end.

(* json.Unmarshal(resp, &lp.Info): accepted iff it looks like an object; it brings the
   peer's HTTP address iff the object is not empty (fields that are absent keep their
   previous values: the lookupPeer object survives reconnects) *)
Definition json_parse (body : list N) : option bool :=
  match body with
  | 123%N :: _ => Some (Nat.ltb 2 (length body))
  | _ => None
  end.

(* ------------------------------------------------------------------ one nsqlookupd and its link *)
Inductive abeh := ARefuse | AClose.                 (* a connection attempt is refused / accepted then closed *)
Inductive rbeh := RStall | RBytes (bs : list N) | RClose.   (* a reply is withheld / replaced / the connection is cut *)

Record link := mkLink {
  k_conf : bool;            (* nsqd has a lookupPeer for this address *)
  k_state : Z;              (* lp.state *)
  k_inbuf : list N;         (* bytes received on lp.conn and not yet read *)
  k_info : bool;            (* lp.Info.BroadcastAddress is known *)
  l_up : bool;              (* the nsqlookupd process is up *)
  l_alive : bool;           (* it holds a connection from this nsqd *)
  l_regs : list key;        (* this producer's registrations on that connection *)
  l_known : list (N * N);   (* channel keys of its DB (any producer, /channel/create) *)
  l_http : bool;            (* its HTTP interface answers *)
  l_accept : list abeh;     (* fault script: next connection attempts *)
  l_reply : list rbeh       (* fault script: next replies *)
}.
#[export] Instance eta_link : Settable _ :=
  settable! mkLink <k_conf; k_state; k_inbuf; k_info; l_up; l_alive; l_regs; l_known; l_http; l_accept; l_reply>.

Definition fresh_link : link := mkLink false st_disconnected [] false true false [] [] true [] [].

(* lookupPeer.Close, and what nsqlookupd does when it sees the connection go away *)
Definition close_peer (k : link) : link :=
  k <| k_state := st_disconnected |> <| k_inbuf := [] |> <| l_alive := false |> <| l_regs := [] |>.

Inductive xres := XOk (body : list N) | XErr | XPanic.

(* one write + readResponseBounded on a peer in stateConnected *)
Definition exchange (c : cfg) (cm : cmd) (k : link) : link * xres :=
  let k1 :=
    if l_alive k then
      let ka := k <| l_regs ::= lk_apply cm |> <| l_known ::= known_apply cm |> in
      match l_reply k with
      | [] => ka <| k_inbuf ::= (fun b => b ++ frame (reply_body cm)) |>
      | RStall :: r => ka <| l_reply := r |>
      | RBytes bs :: r => ka <| l_reply := r |> <| k_inbuf ::= (fun b => b ++ bs) |>
      | RClose :: r => k <| l_reply := r |> <| l_alive := false |> <| l_regs := [] |>
      end
    else k in
  match read_response_bounded c (k_inbuf k1) with
  | RROk body rest => (k1 <| k_inbuf := rest |>, XOk body)
  | RRErr => ((if g_close c then close_peer k1 else k1), XErr)
  | RRPanic => (k1, XPanic)
  end.

Fixpoint send_all (c : cfg) (cms : list cmd) (k : link) : link * xres :=
  match cms with
  | [] => (k, XOk [])
  | cm :: r =>
      match exchange c cm k with
      | (k', XOk _) => send_all c r k'
      | other => other
      end
  end.

(* connectCallback, given the REGISTER commands built from the maps *)
Definition callback (c : cfg) (regcmds : list cmd) (k : link) : link * xres :=
  match exchange c CIdentify k with
  | (k1, XOk body) =>
      if bytes_eqb body einvalid_body then (close_peer k1, XErr)
      else match json_parse body with
           | None => (close_peer k1, XErr)
           | Some info => send_all c regcmds (k1 <| k_info ::= (fun known => known || info) |>)
           end
  | other => other
  end.

(* lookupPeer.Command(cmd); [None] is Command(nil).  First half: connect if needed *)
Definition connect (c : cfg) (regcmds : list cmd) (k : link) : link * xres :=
  if (k_state k =? st_connected)%Z then (k, XOk [])
  else if negb (l_up k) then (k, XErr)                           (* Connect: refused *)
  else match l_accept k with
       | ARefuse :: r => (k <| l_accept := r |>, XErr)
       | AClose :: r =>
           callback c regcmds (k <| l_accept := r |> <| k_state := st_connected |> <| k_inbuf := [] |>)
       | [] =>
           callback c regcmds (k <| k_state := st_connected |> <| k_inbuf := [] |>
                                 <| l_alive := true |> <| l_regs := [] |>)
       end.

(* second half: the round trip itself *)
Definition finish (c : cfg) (cm : option cmd) (k1 : link) (r : xres) : link * xres :=
  match r with
  | XOk _ =>
      if (k_state k1 =? st_connected)%Z then
        match cm with None => (k1, XOk []) | Some x => exchange c x k1 end
      else (k1, XErr)                                            (* "connectCallback() failed" *)
  | other => (k1, other)
  end.

Definition command (c : cfg) (regcmds : list cmd) (cm : option cmd) (k : link) : link * xres :=
  let p := connect c regcmds k in finish c cm (fst p) (snd p).

(* ------------------------------------------------------------------ nsqd objects *)
(* identity and lifecycle of a Topic / Channel object ... *)
Record obj := mkObj {
  o_parent : option nat;    (* None: a Topic; Some p: a Channel of topic object p *)
  o_t : N;                  (* topic name *)
  o_c : N;                  (* channel name (0 for a topic) *)
  o_exit : bool;            (* exitFlag *)
  o_map : bool              (* still in n.topicMap / t.channelMap *)
}.
#[export] Instance eta_obj : Settable _ := settable! mkObj <o_parent; o_t; o_c; o_exit; o_map>.
(* ... and its data-path part, which the lookup loop never looks at *)
Record dat := mkDat {
  d_started : bool;         (* topic: Start() has been called *)
  d_pc : nat;               (* topic: GetTopic progress 0 created, 1 creating channels, 2 done *)
  d_todo : list N;          (* topic: lookupd channels still to create *)
  d_q : list N;             (* queued message ids *)
  d_want : list N           (* ghost: what the lookupd query returned (used only by theorems) *)
}.
#[export] Instance eta_dat : Settable _ := settable! mkDat <d_started; d_pc; d_todo; d_q; d_want>.

Definition dflt : obj := mkObj None 0 0 true false.
Definition ddflt : dat := mkDat false 2 [] [] [].
Definition getO (l : list obj) (i : nat) : obj := nth i l dflt.
Definition getD (l : list dat) (i : nat) : dat := nth i l ddflt.

Fixpoint upd {A : Type} (l : list A) (i : nat) (x : A) : list A :=
  match l, i with
  | [], _ => []
  | _ :: r, O => x :: r
  | a :: r, S j => a :: upd r j x
  end.

Definition is_topic (o : obj) : bool := match o_parent o with None => true | Some _ => false end.
Definition is_chan_of (p : nat) (o : obj) : bool :=
  match o_parent o with Some q => Nat.eqb q p | None => false end.

Fixpoint find_from (p : obj -> bool) (l : list obj) (i : nat) : option nat :=
  match l with
  | [] => None
  | o :: r => if p o then Some i else find_from p r (S i)
  end.
Definition topic_named (t : N) (o : obj) : bool := is_topic o && o_map o && N.eqb (o_t o) t.
Definition chan_named (p : nat) (c : N) (o : obj) : bool := is_chan_of p o && o_map o && N.eqb (o_c o) c.
Definition find_topic (l : list obj) (t : N) : option nat := find_from (topic_named t) l 0.
Definition find_chan (l : list obj) (p : nat) (c : N) : option nat := find_from (chan_named p c) l 0.

Definition ids (l : list obj) : list nat := seq 0 (length l).
(* the channels in topic object p's channelMap *)
Definition chans_of (l : list obj) (p : nat) : list nat :=
  filter (fun j => is_chan_of p (getO l j) && o_map (getO l j)) (ids l).

(* the commands connectCallback builds under the read locks: every topic in the map that is
   not exiting, with its non-exiting channels (the bare topic if it has none) *)
Definition reg_chans (c : cfg) (l : list obj) (i : nat) : list nat :=
  filter (fun j => negb (g_skip_exiting c && o_exit (getO l j))) (chans_of l i).
Definition registrations (c : cfg) (l : list obj) : list cmd :=
  flat_map (fun i =>
    let o := getO l i in
    if is_topic o && o_map o && negb (g_skip_exiting c && o_exit o) then
      match reg_chans c l i with
      | [] => if g_reg_topics c && (g_bare_no_live c || match chans_of l i with [] => true | _ => false end)
              then [CReg (KT (o_t o))] else []
      | js => if g_reg_chans c then map (fun j => CReg (KC (o_t (getO l j)) (o_c (getO l j)))) js else []
      end
    else []) (ids l).

Definition key_of (o : obj) : key :=
  match o_parent o with None => KT (o_t o) | Some _ => KC (o_t o) (o_c o) end.

(* the command lookupLoop builds for a received notification value *)
Definition notif_cmd (c : cfg) (o : obj) : cmd :=
  if Bool.eqb (o_exit o) (if is_topic o then g_unreg_topic c else g_unreg_chan c)
  then CUnreg (key_of o) else CReg (key_of o).

(* the registrations this nsqd should have: its current topics and channels *)
Definition live_obj (l : list obj) (o : obj) : bool :=
  negb (o_exit o) &&
  match o_parent o with None => true | Some p => negb (o_exit (getO l p)) end.
Definition live_keys (l : list obj) : list key :=
  map (fun i => key_of (getO l i)) (filter (fun i => live_obj l (getO l i)) (ids l)).

(* ------------------------------------------------------------------ the whole state *)
Record st := mkSt { objs : list obj; dats : list dat; bag : list nat; links : list link }.
#[export] Instance eta_st : Settable _ := settable! mkSt <objs; dats; bag; links>.

Inductive state := Run (s : st) | Crashed.

Definition init : st := mkSt [] [] [] [].

Inductive op :=
  (* topic / channel churn and the data path *)
  | TopicCreate (t : N)            (* GetTopic: NewTopic, map insert, Notify *)
  | TopicAdvance (t : N)           (* GetTopic, next step of the creator: query / GetChannel / Start *)
  | ChanCreate (t c : N)           (* GetChannel on an existing topic *)
  | ChanDeleteBegin (t c : N)      (* channel.Delete(): exitFlag, Notify *)
  | ChanDeleteEnd (t c : N)        (* delete(t.channelMap, name) *)
  | TopicDeleteBegin (t : N)       (* topic.Delete(): exitFlag, Notify *)
  | TopicDeleteEnd (t : N)         (* ... its channels deleted, delete(n.topicMap, name) *)
  | Put (t m : N)                  (* Topic.PutMessage *)
  | Pump (t : N)                   (* one iteration of Topic.messagePump *)
  (* the lookup loop *)
  | Deliver (i : nat)              (* case val := <-n.notifyChan, the i-th parked goroutine wins *)
  | Tick                           (* case <-ticker.C *)
  | Reconfigure (addrs : list nat) (* case <-n.optsNotificationChan with this address list *)
  (* the environment: nsqlookupd and the network *)
  | FAccept (a : nat) (s : list abeh)
  | FReply (a : nat) (s : list rbeh)
  | FDown (a : nat)                (* nsqlookupd stops (its registry is lost) *)
  | FUp (a : nat)                  (* ... and starts again, empty *)
  | FHttp (a : nat) (b : bool)     (* its HTTP interface stops / resumes answering *)
  | FKnown (a : nat) (l : list (N * N)).  (* its channel keys change (other producers, /channel/create) *)

Definition is_loop_op (o : op) : bool :=
  match o with Deliver _ | Tick | Reconfigure _ => true | _ => false end.
Definition is_fault_op (o : op) : bool :=
  match o with FAccept _ _ | FReply _ _ | FDown _ | FUp _ | FHttp _ _ | FKnown _ _ => true | _ => false end.

(* ------------------------------------------------------------------ data path (objs, dats and bag only) *)
Record dstate := mkDs { x_objs : list obj; x_dats : list dat; x_bag : list nat }.

Definition new_topic (t : N) : obj := mkObj None t 0 false true.
Definition new_chan (p : nat) (t c : N) : obj := mkObj (Some p) t c false true.

(* a new object: appended, and its Notify goroutine parked *)
Definition add_obj (o : obj) (d : dat) (x : dstate) : dstate :=
  mkDs (x_objs x ++ [o]) (x_dats x ++ [d]) (x_bag x ++ [length (x_objs x)]).
(* exit(true): exitFlag, Notify *)
Definition set_exit (i : nat) (x : dstate) : dstate :=
  mkDs (upd (x_objs x) i (getO (x_objs x) i <| o_exit := true |>)) (x_dats x) (x_bag x ++ [i]).
(* delete(map, name) *)
Definition set_unmap (i : nat) (x : dstate) : dstate :=
  mkDs (upd (x_objs x) i (getO (x_objs x) i <| o_map := false |>)) (x_dats x) (x_bag x).
Definition set_dat (i : nat) (f : dat -> dat) (x : dstate) : dstate :=
  mkDs (x_objs x) (upd (x_dats x) i (f (getD (x_dats x) i))) (x_bag x).

(* GetChannel(c) on topic object p *)
Definition get_channel (p : nat) (c : N) (x : dstate) : dstate :=
  match find_chan (x_objs x) p c with
  | Some _ => x
  | None => add_obj (new_chan p (o_t (getO (x_objs x) p)) c) (mkDat false 2 [] [] []) x
  end.

Definition mem (i : nat) (l : list nat) : bool := existsb (Nat.eqb i) l.

(* what GetLookupdTopicChannels returns: the union over the peers whose HTTP address is
   known and whose nsqlookupd answers; [query_fails]: some asked nsqlookupd did not answer.
   lookupdHTTPAddrs looks at lp.Info only: a peer whose TCP connection is down (dropped,
   refused, timed out, closed after a bad reply) is asked all the same — its HTTP interface
   is another socket.  [g_ask_any_state] = false is the variant that leaves out the peers
   that are not in stateConnected. *)
Definition asked (c : cfg) (k : link) : bool :=
  k_conf k && k_info k && (g_ask_any_state c || (k_state k =? st_connected)%Z).
Definition answers (k : link) : bool := l_up k && l_http k.
Definition query_union (c : cfg) (ls : list link) (t : N) : list N :=
  flat_map (fun k =>
    if asked c k && answers k
    then map snd (filter (fun tc => N.eqb (fst tc) t) (l_known k)) else []) ls.
Definition query_fails (c : cfg) (ls : list link) : bool := existsb (fun k => asked c k && negb (answers k)) ls.
Definition query (c : cfg) (ls : list link) (t : N) : list N :=
  if g_partial_query c || negb (query_fails c ls) then query_union c ls t else [].

Definition topic_advance (c : cfg) (ls : list link) (t : N) (x : dstate) : dstate :=
  match find_topic (x_objs x) t with
  | None => x
  | Some i =>
      let d := getD (x_dats x) i in
      match d_pc d with
      | O =>
          let chans := filter (fun ch => negb (g_skip_eph c && eph ch)) (query c ls t) in
          set_dat i (fun d => d <| d_pc := 1 |> <| d_todo := chans |> <| d_want := chans |>
                               <| d_started := (if g_precreate_first c then d_started d else true) |>) x
      | S O =>
          match d_todo d with
          | ch :: r => set_dat i (fun d => d <| d_todo := r |>) (get_channel i ch x)
          | [] => set_dat i (fun d => d <| d_pc := 2 |> <| d_started := true |>) x
          end
      | _ => x
      end
  end.

(* topic.exit(true) deleting its channels: exitFlag + Notify (unless already exiting), out of the map *)
Fixpoint drop_chans (js : list nat) (x : dstate) : dstate :=
  match js with
  | [] => x
  | j :: r =>
      drop_chans r (set_unmap j (if o_exit (getO (x_objs x) j) then x else set_exit j x))
  end.

Definition data_step (c : cfg) (ls : list link) (o : op) (x : dstate) : dstate :=
  let l := x_objs x in
  match o with
  | TopicCreate t =>
      match find_topic l t with Some _ => x | None => add_obj (new_topic t) (mkDat false 0 [] [] []) x end
  | TopicAdvance t => topic_advance c ls t x
  | ChanCreate t ch =>
      match find_topic l t with Some i => get_channel i ch x | None => x end
  | ChanDeleteBegin t ch =>
      match find_topic l t with
      | Some i =>
          match find_chan l i ch with
          | Some j => if o_exit (getO l j) then x else set_exit j x
          | None => x
          end
      | None => x
      end
  | ChanDeleteEnd t ch =>
      match find_topic l t with
      | Some i =>
          match find_chan l i ch with
          | Some j => if o_exit (getO l j) then set_unmap j x else x
          | None => x
          end
      | None => x
      end
  | TopicDeleteBegin t =>
      match find_topic l t with
      | Some i => if o_exit (getO l i) then x else set_exit i x
      | None => x
      end
  | TopicDeleteEnd t =>
      match find_topic l t with
      | Some i => if o_exit (getO l i) then set_unmap i (drop_chans (chans_of l i) x) else x
      | None => x
      end
  | Put t m =>
      match find_topic l t with
      | Some i => if o_exit (getO l i) then x else set_dat i (fun d => d <| d_q ::= (fun q => q ++ [m]) |>) x
      | None => x
      end
  | Pump t =>
      match find_topic l t with
      | Some i =>
          let d := getD (x_dats x) i in
          if d_started d && negb (o_exit (getO l i)) then
            match chans_of l i, d_q d with
            | j0 :: js, m :: q =>
                fold_left (fun acc j => set_dat j (fun d => d <| d_q ::= (fun y => y ++ [m]) |>) acc)
                          (j0 :: js) (set_dat i (fun d => d <| d_q := q |>) x)
            | _, _ => x
            end
          else x
      | None => x
      end
  | _ => x
  end.

(* does Topic.PutMessage accept?  (it never waits for the lookup loop) *)
Definition put_ok (l : list obj) (t : N) : bool :=
  match find_topic l t with Some i => negb (o_exit (getO l i)) | None => false end.

(* ------------------------------------------------------------------ the lookup loop and the environment *)
Fixpoint on_links (f : nat -> link -> link * xres) (a : nat) (ls : list link) : option (list link) :=
  match ls with
  | [] => Some []
  | k :: r =>
      match f a k with
      | (_, XPanic) => None
      | (k', _) => match on_links f (S a) r with Some r' => Some (k' :: r') | None => None end
      end
  end.

Fixpoint remove_at {A : Type} (i : nat) (l : list A) : list A :=
  match l, i with
  | [], _ => []
  | _ :: r, O => r
  | a :: r, S j => a :: remove_at j r
  end.

Definition deconfigure (k : link) : link :=
  close_peer k <| k_conf := false |> <| k_info := false |>.

Definition upd_link (a : nat) (f : link -> link) (ls : list link) : list link :=
  match nth_error ls a with Some k => upd ls a (f k) | None => ls end.

(* links are addressed by position; make sure position a exists *)
Fixpoint ensure_links (n : nat) (ls : list link) : list link :=
  match n, ls with
  | O, _ => ls
  | S m, [] => fresh_link :: ensure_links m []
  | S m, k :: r => k :: ensure_links m r
  end.
Definition max_addr (addrs : list nat) : nat := fold_right (fun a m => Nat.max (S a) m) O addrs.

Definition loop_step (c : cfg) (s : st) (o : op) : state :=
  let regs := registrations c (objs s) in
  match o with
  | Deliver i =>
      match nth_error (bag s) i with
      | None => Run s
      | Some id =>
          let cm := notif_cmd c (getO (objs s) id) in
          match on_links (fun _ k => if k_conf k then command c regs (Some cm) k else (k, XOk [])) 0 (links s) with
          | Some ls => Run (s <| bag := remove_at i (bag s) |> <| links := ls |>)
          | None => Crashed
          end
      end
  | Tick =>
      match on_links (fun _ k => if k_conf k then command c regs (Some CPing) k else (k, XOk [])) 0 (links s) with
      | Some ls => Run (s <| links := ls |>)
      | None => Crashed
      end
  | Reconfigure addrs =>
      match on_links (fun a k =>
               if mem a addrs then
                 if k_conf k then (k, XOk [])
                 else command c regs None (k <| k_conf := true |>)
               else if k_conf k then (deconfigure k, XOk []) else (k, XOk []))
             0 (ensure_links (max_addr addrs) (links s)) with
      | Some ls => Run (s <| links := ls |>)
      | None => Crashed
      end
  | _ => Run s
  end.

Definition fault_step (s : st) (o : op) : st :=
  match o with
  | FAccept a sc => s <| links ::= upd_link a (fun k => k <| l_accept := sc |>) |>
  | FReply a sc => s <| links ::= upd_link a (fun k => k <| l_reply := sc |>) |>
  | FDown a => s <| links ::= upd_link a (fun k => k <| l_up := false |> <| l_alive := false |> <| l_regs := [] |> <| l_known := [] |>) |>
  | FUp a => s <| links ::= upd_link a (fun k => k <| l_up := true |>) |>
  | FHttp a b => s <| links ::= upd_link a (fun k => k <| l_http := b |>) |>
  | FKnown a kn => s <| links ::= upd_link a (fun k => k <| l_known := kn |>) |>
  | _ => s
  end.

Definition step (c : cfg) (s : st) (o : op) : state :=
  if is_loop_op o then loop_step c s o
  else if is_fault_op o then Run (fault_step s o)
  else let x := data_step c (links s) o (mkDs (objs s) (dats s) (bag s)) in
       Run (mkSt (x_objs x) (x_dats x) (x_bag x) (links s)).

Definition step' (c : cfg) (x : state) (o : op) : state :=
  match x with Run s => step c s o | Crashed => Crashed end.
Definition run (c : cfg) (x : state) (os : list op) : state := fold_left (step' c) os x.

(* ------------------------------------------------------------------ the region where the loop's schedule loses a registration *)
Definition bag_has (s : st) (p : obj -> bool) : bool := existsb (fun i => p (getO (objs s) i)) (bag s).

(* the (pending) UNREGISTER of exiting object e removes key k at nsqlookupd *)
Definition removes (e : obj) (k : key) : bool :=
  o_exit e &&
  match o_parent e with
  | None => N.eqb (key_topic k) (o_t e)
  | Some _ => key_eqb k (KC (o_t e) (o_c e))
  end.
(* ... so it would undo the REGISTER of object o *)
Definition conflicts (e o : obj) : bool := removes e (key_of o).

Definition hazard (s : st) (o : op) : bool :=
  match o with
  | Deliver i =>
      match nth_error (bag s) i with
      | None => false
      | Some id =>
          let x := getO (objs s) id in
          negb (o_exit x) &&
          ((* K6: a REGISTER overtakes a pending UNREGISTER for the same name *)
           bag_has s (fun e => conflicts e x)
           (* a channel REGISTER after its deleted topic's UNREGISTER *)
           || match o_parent x with
              | Some p => o_exit (getO (objs s) p)
                          && negb (bag_has s (fun e => is_topic e && o_exit e && N.eqb (o_t e) (o_t x)))
              | None => false
              end)
      end
  | _ => false
  end.

Fixpoint hazard_free (c : cfg) (x : state) (os : list op) : bool :=
  match os with
  | [] => true
  | o :: r =>
      match x with
      | Crashed => true
      | Run s => negb (hazard s o) && hazard_free c (step c s o) r
      end
  end.

(* ------------------------------------------------------------------ decidable set comparison for the judge *)
Definition key_in (k : key) (l : list key) : bool := existsb (key_eqb k) l.
Definition keys_sub (a b : list key) : bool := forallb (fun k => key_in k b) a.
Definition keys_eqb (a b : list key) : bool := keys_sub a b && keys_sub b a.
