(* Exact executable models of the two deadline heaps of nsqd (C02, C04):

     nsqd/in_flight_pqueue.go      inFlightPqueue  (hand-written up/down)
     internal/pqueue/pqueue.go     PriorityQueue   (driven by Go's container/heap)

   The array is a [list item]; an [item] is the pointed-to object (a Message or a pqueue Item)
   as far as the queue code touches it: its priority, its [index] back-pointer field
   and an opaque payload [val] (the harness' handle / the message id).  Go panics
   (index out of range, slice bounds) are the explicit outcome [None].  The slice
   capacity is part of the state because Push/Pop reallocate on it.

   Loops are fuel-indexed; proofs/HeapProofs.v shows the fuel supplied by every
   caller is never exhausted ([up_fuel_irrelevant], [down_fuel_irrelevant]).
   Array indices are [nat]: Go's `j1 < 0 after int overflow` test in down() cannot
   fire for a slice that fits in memory and is not modelled.
   One object is never pushed twice (the channel's map check guarantees it), so
   representing each slot by the record it points to is exact.
   No proofs here. *)
From Coq Require Import List ZArith Bool Arith.
Import ListNotations.

Record item := mkItem { pri : Z; idx : Z; val : Z }.
Definition dummy : item := mkItem 0 (-1) (-1).

Definition get (l : list item) (i : nat) : item := nth i l dummy.

Fixpoint upd (l : list item) (i : nat) (x : item) : list item :=
  match l, i with
  | [], _ => []
  | _ :: r, O => x :: r
  | a :: r, S i' => a :: upd r i' x
  end.

Definition set_idx (x : item) (i : Z) : item := mkItem (pri x) i (val x).

(* pq[i], pq[j] = pq[j], pq[i]; pq[i].index = i; pq[j].index = j *)
Definition swap (l : list item) (i j : nat) : list item :=
  let a := get l i in
  let b := get l j in
  upd (upd l i (set_idx b (Z.of_nat i))) j (set_idx a (Z.of_nat j)).

Definition parent (j : nat) : nat := (j - 1) / 2.

(* up(j): identical in in_flight_pqueue.go and container/heap
     i := (j-1)/2; if i == j || !(pq[j].pri < pq[i].pri) break; Swap(i,j); j = i *)
Fixpoint up (fuel : nat) (l : list item) (j : nat) : list item :=
  match fuel with
  | O => l
  | S f =>
      let i := parent j in
      if (i =? j)%nat || (pri (get l j) >=? pri (get l i))%Z then l
      else up f (swap l i j) i
  end.

(* down(i, n); [choose p1 p2] = "take the right child", given the children's priorities.
   Returns the array and the final position (container/heap's down reports i > i0). *)
Fixpoint down (choose : Z -> Z -> bool) (fuel : nat) (l : list item) (i n : nat)
  : list item * nat :=
  match fuel with
  | O => (l, i)
  | S f =>
      let j1 := (2 * i + 1)%nat in
      if (n <=? j1)%nat then (l, i)
      else
        let j2 := (j1 + 1)%nat in
        let j := if (j2 <? n)%nat && choose (pri (get l j1)) (pri (get l j2)) then j2 else j1 in
        if (pri (get l j) >=? pri (get l i))%Z then (l, i)
        else down choose f (swap l i j) j n
  end.

(* in_flight_pqueue.go:  j2 < n && pq[j1].pri >= pq[j2].pri   (ties go right) *)
Definition if_choose (p1 p2 : Z) : bool := (p1 >=? p2)%Z.
(* container/heap:       j2 < n && h.Less(j2, j1)              (ties go left)  *)
Definition ch_choose (p1 p2 : Z) : bool := (p2 <? p1)%Z.

Record pq := mkPq { arr : list item; cap : nat }.

(* the capacity after Push's growth test; None = the reslice [0:n+1] panics *)
Definition grow (c n : nat) : option nat :=
  let c' := if (c <? n + 1)%nat then (2 * c)%nat else c in
  if (c' <? n + 1)%nat then None else Some c'.

(* the capacity after Pop's shrink test *)
Definition shrink (c n : nat) : nat :=
  if (n <? c / 2)%nat && (25 <? c)%nat then (c / 2)%nat else c.

(* x := pq[n-1]; x.index = -1; pq = pq[0:n-1] *)
Definition take_last (l : list item) : item * list item :=
  let n := length l in (set_idx (get l (n - 1)) (-1), firstn (n - 1) l).

(* ------------------------------------------------------------ inFlightPqueue *)
Definition if_push (q : pq) (p v : Z) : option pq :=
  let n := length (arr q) in
  match grow (cap q) n with
  | None => None
  | Some c => Some (mkPq (up (S n) (arr q ++ [mkItem p (Z.of_nat n) v]) n) c)
  end.

(* Pop on a non-empty queue *)
Definition if_pop_core (q : pq) : item * pq :=
  let n := length (arr q) in
  let l1 := swap (arr q) 0 (n - 1) in
  let l2 := fst (down if_choose n l1 0 (n - 1)) in
  let '(x, l3) := take_last l2 in
  (x, mkPq l3 (shrink (cap q) n)).

Definition if_pop (q : pq) : option (item * pq) :=
  match arr q with
  | [] => None                       (* Swap(0,-1): index out of range *)
  | _ => Some (if_pop_core q)
  end.

Definition if_remove (q : pq) (i : Z) : option (item * pq) :=
  let n := length (arr q) in
  if (i <? 0)%Z || (Z.of_nat n <=? i)%Z then None   (* pq[i] / pq[-1]: index out of range *)
  else
    let i := Z.to_nat i in
    let l2 :=
      if (n - 1 =? i)%nat then arr q
      else up (S i) (fst (down if_choose n (swap (arr q) i (n - 1)) i (n - 1))) i in
    let '(x, l3) := take_last l2 in
    Some (x, mkPq l3 (cap q)).

Definition wrap64 (z : Z) : Z :=
  ((z + 9223372036854775808) mod 18446744073709551616 - 9223372036854775808)%Z.

(* PeekAndShift(max): (nil, 0) | (nil, x.pri - max) | (x, 0) *)
Inductive peek_res := PeekNone (diff : Z) | PeekSome (x : item).

Definition if_peek (q : pq) (max : Z) : peek_res * pq :=
  match arr q with
  | [] => (PeekNone 0, q)
  | x :: _ =>
      if (pri x >? max)%Z then (PeekNone (wrap64 (pri x - max)), q)
      else let '(y, q') := if_pop_core q in (PeekSome y, q')
  end.

(* ------------------------------------------------------------ pqueue.PriorityQueue *)
(* heap.Push(&pq, item) = pq.Push(item); up(pq, pq.Len()-1) *)
Definition ch_push (q : pq) (p v : Z) : option pq :=
  let n := length (arr q) in
  match grow (cap q) n with
  | None => None
  | Some c => Some (mkPq (up (S n) (arr q ++ [mkItem p (Z.of_nat n) v]) n) c)
  end.

(* heap.Remove(&pq, i) for 0 <= i < Len:
     n := Len-1; if n != i { Swap(i,n); if !down(i,n) { up(i) } }; return pq.Pop() *)
Definition ch_remove_core (q : pq) (i : nat) : item * pq :=
  let n := length (arr q) in
  let l2 :=
    if (n - 1 =? i)%nat then arr q
    else
      let '(l1, i') := down ch_choose n (swap (arr q) i (n - 1)) i (n - 1) in
      if (i <? i')%nat then l1 else up (S i) l1 i in
  let '(x, l3) := take_last l2 in
  (x, mkPq l3 (shrink (cap q) n)).

Definition ch_remove (q : pq) (i : Z) : option (item * pq) :=
  let n := length (arr q) in
  if (i <? 0)%Z || (Z.of_nat n <=? i)%Z then None
  else Some (ch_remove_core q (Z.to_nat i)).

(* heap.Pop(&pq): n := Len-1; Swap(0,n); down(0,n); return pq.Pop() *)
Definition ch_pop_core (q : pq) : item * pq :=
  let n := length (arr q) in
  let l1 := swap (arr q) 0 (n - 1) in
  let l2 := fst (down ch_choose n l1 0 (n - 1)) in
  let '(x, l3) := take_last l2 in
  (x, mkPq l3 (shrink (cap q) n)).

Definition ch_pop (q : pq) : option (item * pq) :=
  match arr q with
  | [] => None
  | _ => Some (ch_pop_core q)
  end.

(* PriorityQueue.PeekAndShift(max): heap.Remove(pq, 0) *)
Definition ch_peek (q : pq) (max : Z) : peek_res * pq :=
  match arr q with
  | [] => (PeekNone 0, q)
  | x :: _ =>
      if (pri x >? max)%Z then (PeekNone (wrap64 (pri x - max)), q)
      else let '(y, q') := ch_remove_core q 0 in (PeekSome y, q')
  end.

(* ------------------------------------------------------------ the scan loops *)
(* processInFlightQueue(t) / processDeferredQueue(t), queue side:
     for { x := PeekAndShift(t); if x == nil break; ... }
   [fuel] = number of iterations allowed; callers pass length+1. *)
Fixpoint scan (peek : pq -> Z -> peek_res * pq) (fuel : nat) (q : pq) (t : Z)
  : list item * pq :=
  match fuel with
  | O => ([], q)
  | S f =>
      match peek q t with
      | (PeekNone _, q') => ([], q')
      | (PeekSome x, q') => let '(out, q'') := scan peek f q' t in (x :: out, q'')
      end
  end.

Definition if_scan (q : pq) (t : Z) := scan if_peek (S (length (arr q))) q t.
Definition ch_scan (q : pq) (t : Z) := scan ch_peek (S (length (arr q))) q t.
