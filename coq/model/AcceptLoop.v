(* Model of internal/protocol/tcp_server.go TCPServer: the accept loop shared by nsqd and
   nsqlookupd.

     for {
       clientConn, err := listener.Accept()
       if err != nil {
         if te, ok := err.(interface{ Temporary() bool }); ok && te.Temporary() { ...; continue }
         if !errors.Is(err, net.ErrClosed) { return fmt.Errorf("listener.Accept() error - %s", err) }
         break
       }
       wg.Add(1); go func() { handler.Handle(clientConn); wg.Done() }()
     }
     wg.Wait(); return nil

   An Accept result is a connection or an error; of an error the loop can find out three
   things only ([aerr]).  The listener is a script: the list of results its successive
   Accept calls return; past the end of the script Accept blocks.  The run of the loop on a
   script ([run_accept]) says how many results it consumed, which connections it handed to
   the handler (each in a goroutine of its own, registered in the wait group), whether and
   how it returned, and whether it waited for the handlers before returning.
   No proofs here. *)
From Coq Require Import List NArith Bool String.
Import ListNotations.

Record aerr := mkAErr {
  e_temporary : option bool;   (* Some b: the error has a method Temporary() bool, which answers b *)
  e_timeout : option bool;     (* Some b: it has a method Timeout() bool, which answers b (both methods: a net.Error) *)
  e_closed : bool              (* errors.Is(err, net.ErrClosed) *)
}.

Inductive ares := AConn (id : N) | AErr (e : aerr).

Definition is_temporary (e : aerr) : bool := match e_temporary e with Some true => true | _ => false end.
Definition is_timeout (e : aerr) : bool := match e_timeout e with Some true => true | _ => false end.
Definition is_net_error (e : aerr) : bool :=
  match e_temporary e, e_timeout e with Some _, Some _ => true | _, _ => false end.

(* what the loop does with one result *)
Inductive decision := DServe | DRetry | DStopNil | DStopErr.

Definition decide (r : ares) : decision :=
  match r with
  | AConn _ => DServe
  | AErr e => if is_temporary e then DRetry
              else if negb (e_closed e) then DStopErr
              else DStopNil
  end.

Inductive aret :=
| RRunning                  (* has not returned: blocked in Accept *)
| RNil                      (* returned nil *)
| RErr (e : aerr).          (* returned an error made from this Accept error *)

Record aout := mkAOut {
  o_consumed : N;           (* Accept calls that returned *)
  o_served : list N;        (* connections handed to handler.Handle, in the order accepted *)
  o_ret : aret;
  o_waits : bool            (* it returned only after every handler it started had returned (wg.Wait) *)
}.

Fixpoint accept_loop (script : list ares) (n : N) (served : list N) : aout :=
  match script with
  | [] => mkAOut n (rev served) RRunning false
  | AConn id :: tl => accept_loop tl (N.succ n) (id :: served)
  | AErr e :: tl =>
    match decide (AErr e) with
    | DStopNil => mkAOut (N.succ n) (rev served) RNil true
    | DStopErr => mkAOut (N.succ n) (rev served) (RErr e) false
    | _ => accept_loop tl (N.succ n) served
    end
  end.

Definition run_accept (script : list ares) : aout := accept_loop script 0 [].

(* ------------------------------------------------------------------ the source's table *)
(* gen/AcceptTable.v states the error branch of the loop as a list of (condition, action)
   in source order, the action when no condition holds, and the statements after the loop.
   [table_decide] is that table read as a function of the error. *)
Local Open Scope string_scope.

Definition cond_holds (c : string) (e : aerr) : option bool :=
  if c =? "temporary" then Some (is_temporary e)                       (* err.(interface{ Temporary() bool }) && Temporary() *)
  else if c =? "timeout" then Some (is_timeout e)                      (* err.(interface{ Timeout() bool }) && Timeout() *)
  else if c =? "net-temporary" then Some (is_net_error e && is_temporary e)   (* err.(net.Error) && Temporary() *)
  else if c =? "net-timeout" then Some (is_net_error e && is_timeout e)       (* err.(net.Error) && Timeout() *)
  else if c =? "closed" then Some (e_closed e)                         (* errors.Is(err, net.ErrClosed) *)
  else if c =? "!closed" then Some (negb (e_closed e))
  else None.

Inductive tdec := TContinue | TReturnErr | TReturnNil (waits : bool) | TUnknown.

Definition after_dec (after : list string) : tdec :=
  match after with
  | ["wg.Wait"; "return-nil"] => TReturnNil true
  | ["return-nil"] => TReturnNil false
  | _ => TUnknown
  end.

Definition act_dec (a : string) (after : list string) : tdec :=
  if a =? "continue" then TContinue
  else if a =? "return-err" then TReturnErr
  else if a =? "return-nil" then TReturnNil false
  else if a =? "break" then after_dec after
  else TUnknown.

Fixpoint table_decide (branches : list (string * string)) (default : string) (after : list string) (e : aerr) : tdec :=
  match branches with
  | [] => act_dec default after
  | (c, a) :: tl =>
    match cond_holds c e with
    | Some true => act_dec a after
    | Some false => table_decide tl default after e
    | None => TUnknown
    end
  end.

Definition dec_of (d : decision) : tdec :=
  match d with
  | DRetry => TContinue
  | DStopErr => TReturnErr
  | DStopNil => TReturnNil true
  | DServe => TUnknown
  end.

(* what the loop does with an accepted connection: registered in the wait group BEFORE the
   goroutine starts, handled in a goroutine of its own, deregistered after Handle returns *)
Definition model_ok_steps : list string := ["wg.Add"; "go{"; "handler.Handle(clientConn)"; "wg.Done"; "}"].
