(* The protocol answer table for the nsqd TCP protocol (C09), written from the public
   protocol specification (docs "TCP Protocol Spec": per command, the success response
   and the E_* errors it may return) plus the extra codes the code defines (DESIGN §8a),
   and a DECLARATIVE statement of when a command is accepted (well-formed and in-state):
   one conjunction per command, no order of tests, no reading state.
   The model of the code is model/Proto.v; proofs/ProtoProofs.v proves that the model
   answers exactly as this table says.  No proofs here. *)
From Coq Require Import List NArith ZArith Bool String.
From NSQV Require Import gen.Consts model.Judge model.Names model.Num model.Proto.
Import ListNotations.
Open Scope Z_scope.

(* ------------------------------------------------------------------ the table *)
(* which errors a command may answer with (auth codes included: they are returned only
   by a daemon with an auth server, which Proto.v does not model) *)
Definition may_return (c : cmd) : list code :=
  match c with
  | CIdentify => [E_INVALID; E_BAD_BODY; E_IDENTIFY_FAILED]
  | CSub      => [E_INVALID; E_BAD_TOPIC; E_BAD_CHANNEL; E_SUB_FAILED; E_AUTH_FIRST; E_AUTH_FAILED; E_UNAUTHORIZED]
  | CPub      => [E_INVALID; E_BAD_TOPIC; E_BAD_MESSAGE; E_PUB_FAILED; E_AUTH_FIRST; E_AUTH_FAILED; E_UNAUTHORIZED]
  | CMpub     => [E_INVALID; E_BAD_TOPIC; E_BAD_BODY; E_BAD_MESSAGE; E_MPUB_FAILED; E_AUTH_FIRST; E_AUTH_FAILED; E_UNAUTHORIZED]
  | CDpub     => [E_INVALID; E_BAD_TOPIC; E_BAD_MESSAGE; E_DPUB_FAILED; E_AUTH_FIRST; E_AUTH_FAILED; E_UNAUTHORIZED]
  | CRdy      => [E_INVALID]
  | CFin      => [E_INVALID; E_FIN_FAILED]
  | CReq      => [E_INVALID; E_REQ_FAILED]
  | CTouch    => [E_INVALID; E_TOUCH_FAILED]
  | CCls      => [E_INVALID]
  | CNop      => []
  | CAuth     => [E_INVALID; E_BAD_BODY; E_AUTH_DISABLED; E_AUTH_FAILED; E_UNAUTHORIZED; E_AUTH_ERROR]
  | CUnknown  => [E_INVALID]
  end.

(* with TLS required and no TLS, every command but IDENTIFY may also answer E_INVALID
   (it is already in every non-empty row; NOP gets it only through the gate) *)
Definition may_return_gated (tls_required : bool) (c : cmd) : list code :=
  match c with
  | CNop => if tls_required then [E_INVALID] else []
  | _ => may_return c
  end.

(* the only non-fatal errors *)
Definition is_fatal (c : code) : bool :=
  match c with E_FIN_FAILED | E_REQ_FAILED | E_TOUCH_FAILED => false | _ => true end.

Inductive frame_class := FNone | FOk | FCloseWait | FOkOrJson.
(* the response frame of a successful command *)
Definition ok_frame (c : cmd) : frame_class :=
  match c with
  | CIdentify => FOkOrJson
  | CSub | CPub | CMpub | CDpub => FOk
  | CCls => FCloseWait
  | CRdy | CFin | CReq | CTouch | CNop => FNone
  | CAuth | CUnknown => FNone          (* never succeed in this model *)
  end.

Definition frame_ok (c : cmd) (r : resp) : bool :=
  match ok_frame c, r with
  | FOk, ROk => true
  | FCloseWait, RCloseWait => true
  | FOkOrJson, ROk => true
  | FOkOrJson, RJson _ _ _ _ _ _ _ _ => true
  | _, _ => false
  end.

(* the state a command needs *)
Definition in_state (c : cmd) (k : skind) : bool :=
  match c, k with
  | CIdentify, SInit | CAuth, SInit | CSub, SInit => true
  | CRdy, SSubscribed | CRdy, SClosing => true
  | CFin, SSubscribed | CFin, SClosing => true
  | CReq, SSubscribed | CReq, SClosing => true
  | CTouch, SSubscribed | CTouch, SClosing => true
  | CCls, SSubscribed => true
  | CPub, _ | CMpub, _ | CDpub, _ | CNop, _ => true
  | _, _ => false
  end.

(* the state after a successful command *)
Definition next_kind (c : cmd) (k : skind) : skind :=
  match c with CSub => SSubscribed | CCls => SClosing | _ => k end.

(* ------------------------------------------------------------------ well-formedness *)
Definition nth_param (params : list bytes) (i : nat) : option bytes := nth_error params i.

(* the 4-byte big-endian signed length at the head of [rest], and what follows it *)
Definition declared (rest : bytes) : option (Z * bytes) :=
  match rest with
  | a :: b :: c :: d :: r => Some (to_i32 (be32 a b c d), r)
  | _ => None
  end.

(* a body of declared size in [1, max] that is completely present *)
Definition body_present (max : Z) (rest : bytes) : bool :=
  match declared rest with
  | Some (n, r) => (1 <=? n) && (n <=? max) && (n <=? len r)
  | None => false
  end.
Definition body_of (rest : bytes) : bytes :=
  match declared rest with
  | Some (n, r) => firstn (Z.to_nat n) r
  | None => []
  end.
Definition after_body (rest : bytes) : bytes :=
  match declared rest with
  | Some (n, r) => skipn (Z.to_nat n) r
  | None => []
  end.

Definition valid_id (p : bytes) : bool := len p =? nsqd_MsgIDLength.

Definition digits_value (p : bytes) : option N := byte_to_base10 p.

(* RDY count parameter: a digit string whose (saturated) value is within [0, max_rdy] *)
Definition rdy_ok (max_rdy : Z) (p : bytes) : bool :=
  match digits_value p with
  | Some n => (Z.of_N n <=? max_i64) && (Z.of_N n <=? max_rdy)
  | None => false
  end.
Definition rdy_value (p : bytes) : Z :=
  match digits_value p with Some n => Z.of_N n | None => 0 end.

(* DPUB defer parameter (ms): digits, and the duration within [0, max_req] *)
Definition defer_ok (max_req : Z) (p : bytes) : bool :=
  match digits_value p with
  | Some n => (ms_to_duration n <=? max_req)
  | None => false
  end.

(* IDENTIFY option ranges (client_v2.go), as intervals *)
Definition hb_ok (cf : cfg) (v : Z) : bool :=
  (v =? -1) || (v =? 0) || ((1000 <=? v) && (v <=? ms (c_max_hb cf))).
Definition obt_ok (cf : cfg) (v : Z) : bool :=
  (v =? -1) || (v =? 0) || ((ms (c_min_obt cf) <=? v) && (v <=? ms (c_max_obt cf))).
Definition obsize_ok (cf : cfg) (v : Z) : bool :=
  (v =? -1) || (v =? 0) || ((64 <=? v) && (v <=? c_max_obsize cf)).
Definition sample_ok (v : Z) : bool := (0 <=? v) && (v <=? 99).
Definition msgto_ok (cf : cfg) (v : Z) : bool :=
  (v =? 0) || ((1000 <=? v) && (v <=? ms (c_max_msgto cf))).

Definition ident_ok (cf : cfg) (d : ident) : bool :=
  hb_ok cf (i_hb d) && obt_ok cf (i_obt d) && obsize_ok cf (i_obsize d)
  && sample_ok (i_sample d) && msgto_ok cf (i_msgto d)
  && negb (i_fn d && (c_deflate_on cf && i_deflate d) && (c_snappy_on cf && i_snappy d)).

(* MPUB: split [k] length-prefixed messages off [bs] without judging the sizes *)
Fixpoint split_msgs (k : nat) (bs : bytes) : option (list (Z * bytes) * bytes) :=
  match k with
  | O => Some ([], bs)
  | S k' =>
    match declared bs with
    | None => None
    | Some (sz, r) =>
      if len r <? sz then None
      else match split_msgs k' (skipn (Z.to_nat sz) r) with
           | None => None
           | Some (l, r') => Some ((sz, firstn (Z.to_nat sz) r) :: l, r')
           end
    end
  end.

Definition mpub_ok (cf : cfg) (rest : bytes) : bool :=
  match declared rest with
  | None => false
  | Some (blen, r1) =>
    (1 <=? blen) && (blen <=? c_max_body cf) &&
    (* the count and all the messages lie within the declared [blen] bytes *)
    match declared (firstn (Z.to_nat blen) r1) with
    | None => false
    | Some (num, r2) =>
      (1 <=? num) && (num <=? Z.quot (c_max_body cf - 4) 5) &&
      match split_msgs (Z.to_nat num) r2 with
      | None => false
      | Some (l, _) => forallb (fun m => (1 <=? fst m) && (fst m <=? c_max_msg cf)) l
      end
    end
  end.
Definition mpub_bodies (rest : bytes) : list bytes :=
  match declared rest with
  | Some (blen, r1) =>
    match declared (firstn (Z.to_nat blen) r1) with
    | Some (num, r2) =>
      match split_msgs (Z.to_nat num) r2 with Some (l, _) => map snd l | None => [] end
    | None => []
    end
  | None => []
  end.

(* the call into the core that a well-formed command makes (None: none) *)
Definition core_call_of (cf : cfg) (c : cmd) (params : list bytes) (rest : bytes) : option core_call :=
  match c, params with
  | CSub, _ :: t :: ch :: _ => Some (KSub t ch)
  | CPub, _ :: t :: _ => Some (KPut t (body_of rest) 0)
  | CDpub, _ :: t :: d :: _ =>
      Some (KPut t (body_of rest) (match digits_value d with Some n => ms_to_duration n | None => 0 end))
  | CMpub, _ :: t :: _ => Some (KPutMulti t (mpub_bodies rest))
  | CFin, _ :: id :: _ => Some (KFin id)
  | CTouch, _ :: id :: _ => Some (KTouch id)
  | CReq, _ :: id :: d :: _ =>
      Some (KReq id (match req_param (c_max_req cf) d with ReqDelay x => x | ReqInvalid => 0 end))
  | _, _ => None
  end.

(* well-formed: parameters and body as the protocol requires, for this configuration *)
Definition well_formed (cf : cfg) (json : bytes -> jres) (k : skind) (c : cmd)
           (params : list bytes) (rest : bytes) : bool :=
  match c with
  | CIdentify =>
      body_present (c_max_body cf) rest &&
      match json (body_of rest) with Json d => ident_ok cf d | BadJSON => false end
  | CAuth => false                          (* no auth server in this configuration *)
  | CSub =>
      match params with
      | _ :: t :: ch :: _ => is_valid_name t && is_valid_name ch
      | _ => false
      end
  | CRdy =>
      match k with
      | SClosing => true                    (* RDY after CLS is ignored, whatever its parameter *)
      | _ => match params with
             | _ :: p :: _ => rdy_ok (c_max_rdy cf) p
             | _ => 1 <=? c_max_rdy cf      (* no parameter means 1 *)
             end
      end
  | CFin | CTouch =>
      match params with _ :: id :: _ => valid_id id | _ => false end
  | CReq =>
      match params with
      | _ :: id :: d :: _ => valid_id id && match digits_value d with Some _ => true | None => false end
      | _ => false
      end
  | CCls | CNop => true
  | CPub =>
      match params with
      | _ :: t :: _ => is_valid_name t && body_present (c_max_msg cf) rest
      | _ => false
      end
  | CDpub =>
      match params with
      | _ :: t :: d :: _ => is_valid_name t && defer_ok (c_max_req cf) d && body_present (c_max_msg cf) rest
      | _ => false
      end
  | CMpub =>
      match params with
      | _ :: t :: _ => is_valid_name t && mpub_ok cf rest
      | _ => false
      end
  | CUnknown => false
  end.

(* accepted = not refused by the TLS gate, in state, well-formed, heartbeats on for SUB,
   and the core did not refuse *)
Definition accepts (cf : cfg) (orc : oracle) (json : bytes -> jres) (st : cstate) (c : cmd)
           (params : list bytes) (rest : bytes) : bool :=
  negb (c_tls_required cf && negb (match c with CIdentify => true | _ => false end))
  && in_state c (st_kind st)
  && well_formed cf json (st_kind st) c params rest
  && (match c with CSub => 0 <? st_hb st | _ => true end)
  && match core_call_of cf c params rest with
     | Some k => orc (st_hist st) k
     | None => true
     end.

(* code names as they appear on the wire and in the source *)
Open Scope string_scope.
Definition code_name (c : code) : string :=
  match c with
  | E_INVALID => "E_INVALID" | E_BAD_BODY => "E_BAD_BODY" | E_BAD_TOPIC => "E_BAD_TOPIC"
  | E_BAD_CHANNEL => "E_BAD_CHANNEL" | E_BAD_MESSAGE => "E_BAD_MESSAGE"
  | E_PUB_FAILED => "E_PUB_FAILED" | E_MPUB_FAILED => "E_MPUB_FAILED" | E_DPUB_FAILED => "E_DPUB_FAILED"
  | E_FIN_FAILED => "E_FIN_FAILED" | E_REQ_FAILED => "E_REQ_FAILED" | E_TOUCH_FAILED => "E_TOUCH_FAILED"
  | E_SUB_FAILED => "E_SUB_FAILED" | E_IDENTIFY_FAILED => "E_IDENTIFY_FAILED"
  | E_AUTH_DISABLED => "E_AUTH_DISABLED" | E_AUTH_FAILED => "E_AUTH_FAILED"
  | E_UNAUTHORIZED => "E_UNAUTHORIZED" | E_AUTH_ERROR => "E_AUTH_ERROR" | E_AUTH_FIRST => "E_AUTH_FIRST"
  | E_BAD_PROTOCOL => "E_BAD_PROTOCOL"
  end.
Definition handler_name (c : cmd) : string :=
  match c with
  | CIdentify => "IDENTIFY" | CFin => "FIN" | CRdy => "RDY" | CReq => "REQ" | CPub => "PUB"
  | CMpub => "MPUB" | CDpub => "DPUB" | CNop => "NOP" | CTouch => "TOUCH" | CSub => "SUB"
  | CCls => "CLS" | CAuth => "AUTH" | CUnknown => ""
  end.
(* The order in which model/Proto.v performs each handler's tests, partial operations
   (index, make), reads and core calls, in the vocabulary of tools/gotables/proto.go
   (conditions of the if statements and the calls that matter, in source order).
   proofs/ProtoTableProofs.v proves it equal to what the emitter finds in protocol_v2.go
   now: a test that is moved, weakened ("<=0" to "<0") or dropped breaks that obligation. *)
Definition source_order : list (string * list string) :=
  [ ("IDENTIFY", ["state!=stateInit"; "readLen"; ">MaxBodySize"; "<=0"; "make(bodyLen)"; "ReadFull"; "Unmarshal"; "Identify"; ">0"; "<deflateLevel"])
  ; ("AUTH", ["state!=stateInit"; "params!=1"; "readLen"; ">MaxBodySize"; "<=0"; "make(bodyLen)"; "ReadFull"; "HasAuthorizations"; "!authEnabled"; "Auth"; "HasAuthorizations"])
  ; ("PUB", ["params<2"; "params[1]"; "!validTopic"; "readLen"; "<=0"; ">MaxMsgSize"; "make(bodyLen)"; "ReadFull"; "CheckAuth"; "GetTopic"; "Put"])
  ; ("MPUB", ["params<2"; "params[1]"; "!validTopic"; "CheckAuth"; "GetTopic"; "readLen"; "<=0"; ">MaxBodySize"; "readMPUB"; "LimitReader"; "Put"])
  ; ("DPUB", ["params<3"; "params[1]"; "!validTopic"; "ByteToBase10"; "params[2]"; "params[2]"; "msToDuration"; "<0"; ">MaxReqTimeout"; "readLen"; "<=0"; ">MaxMsgSize"; "make(bodyLen)"; "ReadFull"; "CheckAuth"; "GetTopic"; "Put"])
  ; ("readMPUB", ["readLen"; "<=0"; ">maxMessages"; "makecap(numMessages)"; "for"; "readLen"; "<=0"; ">maxMessageSize"; "make(messageSize)"; "ReadFull"])
  ; ("RDY", ["state==stateClosing"; "state!=stateSubscribed"; "params>1"; "ByteToBase10"; "params[1]"; "params[1]"; "<0"; ">MaxRdyCount"; "SetReadyCount"])
  ; ("SUB", ["state!=stateInit"; "<=0"; "params<3"; "params[1]"; "!validTopic"; "params[2]"; "!validChannel"; "CheckAuth"; "for"; "GetTopic"; "Core"; "<2"])
  ; ("FIN", ["state!=stateSubscribed"; "state!=stateClosing"; "params<2"; "getMessageID"; "params[1]"; "Core"])
  ; ("REQ", ["state!=stateSubscribed"; "state!=stateClosing"; "params<3"; "getMessageID"; "params[1]"; "ByteToBase10"; "params[2]"; "params[2]"; "msToDuration"; "<0"; ">maxReqTimeout"; "Core"])
  ; ("TOUCH", ["state!=stateSubscribed"; "state!=stateClosing"; "params<2"; "getMessageID"; "params[1]"; "Core"])
  ; ("CLS", ["state!=stateSubscribed"; "StartClose"])
  ; ("getMessageID", ["len!=MsgIDLength"; "p[0]"]) ].

Definition all_cmds : list cmd :=
  [CIdentify; CFin; CRdy; CReq; CPub; CMpub; CDpub; CNop; CTouch; CSub; CCls; CAuth].
Definition all_codes : list code :=
  [E_INVALID; E_BAD_BODY; E_BAD_TOPIC; E_BAD_CHANNEL; E_BAD_MESSAGE; E_PUB_FAILED; E_MPUB_FAILED;
   E_DPUB_FAILED; E_FIN_FAILED; E_REQ_FAILED; E_TOUCH_FAILED; E_SUB_FAILED; E_IDENTIFY_FAILED;
   E_AUTH_DISABLED; E_AUTH_FAILED; E_UNAUTHORIZED; E_AUTH_ERROR; E_AUTH_FIRST; E_BAD_PROTOCOL].
