(* One round of the in-flight timeout scan over the whole priority queue (F24).

   The queue holds entries (message id, deadline) in deadline order; the in-flight set says
   which ids are really in flight.  An entry whose id is not in the set is STALE (its message
   was finished, emptied, or registered again by someone whose set and queue insertions are
   separate critical sections).  The scan takes entries off the queue while they are due:

     pop from the set fails (stale)  ->  before b9d247f: leave the loop;  since: next entry
     deadline re-read, not due after all -> back in flight (F22)
     otherwise                        ->  re-queue

   The model is a function of the queue; deadlines are re-read from `current`, the deadline
   the message has NOW (a TOUCH may have changed it since the entry was made). *)
From Coq Require Import List Bool ZArith Lia.
Import ListNotations.
Open Scope Z_scope.

Record entry := mkE { e_id : nat; e_pri : Z }.

Section Round.
  Variables (skip_stale : bool)            (* the source since b9d247f *)
            (t : Z)                        (* the scan's clock *)
            (in_set : nat -> bool)         (* the in-flight set when the scan looks *)
            (current : nat -> Z).          (* the deadline each in-flight message has now *)

  (* returns the ids re-queued by this round; the queue is sorted, so the first entry that is
     not due ends the round *)
  Fixpoint round (pq : list entry) : list nat :=
    match pq with
    | [] => []
    | e :: rest =>
        if e_pri e <=? t then
          if in_set (e_id e) then
            if current (e_id e) <=? t then e_id e :: round rest   (* timed out: re-queued *)
            else round rest                                        (* touched meanwhile: back in flight *)
          else if skip_stale then round rest                       (* stale entry: dropped *)
          else []                                                  (* stale entry: the round is abandoned *)
        else []
    end.
End Round.

Definition all_due (t : Z) (pq : list entry) : Prop := Forall (fun e => e_pri e <= t) pq.
