(* Model of nsqd/guid.go (C12): guidFactory.NewGUID with Go's int64 arithmetic
   written out (shifts wrap to 64 bits, two's complement), Topic.GenerateID's
   retry loop over a stream of clock readings, and guid.Hex.
   The shift widths, the mask and the epoch come from the generated constants.
   No proofs here. *)
From Coq Require Import List ZArith Bool NArith.
From NSQV Require Import gen.Consts.
Import ListNotations.
Open Scope Z_scope.

Definition two63 : Z := 9223372036854775808.
Definition two64 : Z := 18446744073709551616.

(* reinterpret an integer as a Go int64 *)
Definition wrap64 (z : Z) : Z :=
  let m := z mod two64 in if m <? two63 then m else m - two64.

Record gstate := mkG { g_node : Z; g_seq : Z; g_lastts : Z; g_lastid : Z }.

Inductive gres := GId (id : Z) | GTimeBackwards | GSequenceExpired | GIDBackwards.

Definition mk_id (ts node seq : Z) : Z :=
  Z.lor (Z.lor (wrap64 (Z.shiftl (wrap64 (ts - nsqd_twepoch)) nsqd_timestampShift))
               (wrap64 (Z.shiftl node nsqd_nodeIDShift)))
        seq.

(* one call of NewGUID when the clock (UnixNano >> 20) reads [ts] *)
Definition new_guid (s : gstate) (ts : Z) : gstate * gres :=
  if ts <? g_lastts s then (s, GTimeBackwards)
  else
    let same := g_lastts s =? ts in
    let seq' := if same then Z.land (wrap64 (g_seq s + 1)) nsqd_sequenceMask else 0 in
    if same && (seq' =? 0) then
      (* f.sequence has already been overwritten when the error is returned *)
      (mkG (g_node s) seq' (g_lastts s) (g_lastid s), GSequenceExpired)
    else
      let id := mk_id ts (g_node s) seq' in
      if id <=? g_lastid s then
        (* f.sequence and f.lastTimestamp have already been updated *)
        (mkG (g_node s) seq' ts (g_lastid s), GIDBackwards)
      else (mkG (g_node s) seq' ts id, GId id).

(* Topic.GenerateID: retry (after a sleep) until NewGUID succeeds; the clock stream
   gives the reading seen by each successive attempt.  None = the stream ran out. *)
Fixpoint generate_id (s : gstate) (clock : list Z) : gstate * option Z * list Z :=
  match clock with
  | [] => (s, None, [])
  | ts :: rest =>
      match new_guid s ts with
      | (s', GId id) => (s', Some id, rest)
      | (s', _) => generate_id s' rest
      end
  end.

(* a history of calls: each call consumes clock readings until it succeeds *)
Fixpoint issue (fuel : nat) (s : gstate) (clock : list Z) : list Z :=
  match fuel with
  | O => []
  | S f =>
      match generate_id s clock with
      | (s', Some id, rest) => id :: issue f s' rest
      | (_, None, _) => []
      end
  end.

(* all raw NewGUID calls along a clock stream, errors included *)
Fixpoint calls (s : gstate) (clock : list Z) : list gres :=
  match clock with
  | [] => []
  | ts :: rest => let '(s', r) := new_guid s ts in r :: calls s' rest
  end.

Fixpoint final (s : gstate) (clock : list Z) : gstate :=
  match clock with
  | [] => s
  | ts :: rest => final (fst (new_guid s ts)) rest
  end.

Definition ids_of (rs : list gres) : list Z :=
  flat_map (fun r => match r with GId i => [i] | _ => [] end) rs.

(* guid.Hex: the 8 big-endian bytes of the int64, as 16 lower-case hex digits *)
Definition hex_digit (n : Z) : Z := if n <? 10 then 48 + n else 87 + n.

Fixpoint hex_digits (k : nat) (u : Z) : list Z :=
  match k with
  | O => []
  | S k' => hex_digits k' (u / 16) ++ [hex_digit (u mod 16)]
  end.

Definition hex (g : Z) : list Z := hex_digits 16 (g mod two64).

(* nsqd.New: the start-up test on the configured node id *)
Definition node_id_ok (id : Z) : bool := negb ((id <? 0) || (id >=? 1024)).
