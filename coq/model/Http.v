(* Model of the nsqd HTTP API (C10): nsqd/http.go (newHTTPServer, ServeHTTP, every
   handler), internal/http_api (Decorate / V1 / PlainText / Err, NewReqParams,
   GetTopicChannelArgs), httprouter v1.3.0's dispatch rules as nsqd configures it,
   and the TCP-side twins of the publish commands (nsqd/protocol_v2.go PUB / DPUB /
   MPUB / readMPUB) that C10_pub_equiv compares against.

   The code modelled is the tree AFTER the repair commits
     0acfb7c  PlainText answers an empty body for nil data
     5b1e1a5  body read errors are 400 INVALID_REQUEST, not 500
     aa7a873  MPUB (HTTP binary and TCP) reads through an io.LimitReader.

   Inputs that come from the Go standard library are the model's inputs:
     - net/http request parsing: method, URL path, body bytes, Content-Length or
       chunked, whether reading the body ends in a (non-EOF) error;
     - url.ParseQuery(RawQuery): [QOk pairs] / [QErr partial];
     - encoding/json acceptance of a PUT /config value: [r_json_ok].
   strconv.ParseInt(s, 10, 64), strings.Contains, strings.ToLower (ASCII) and
   httprouter.CleanPath are small enough to be written out below.

   Bytes are N.  Sizes and durations are Z.  No proofs in this file. *)
From Coq Require Import String Ascii List NArith ZArith Bool.
From NSQV Require Import model.Judge model.Names model.Num.
Import ListNotations.
Open Scope bool_scope.
Open Scope Z_scope.

(* ------------------------------------------------------------------ strings *)
Definition str (s : string) : bytes := map N_of_ascii (list_ascii_of_string s).
Definition blen (b : bytes) : Z := Z.of_nat (length b).

Fixpoint is_prefix (p b : bytes) : bool :=
  match p, b with
  | [], _ => true
  | x :: p', y :: b' => N.eqb x y && is_prefix p' b'
  | _ :: _, [] => false
  end.

(* strings.Contains *)
Fixpoint contains_sub (sub b : bytes) : bool :=
  is_prefix sub b || match b with [] => false | _ :: r => contains_sub sub r end.

Definition ascii_lower (c : N) : N :=
  if (N.leb 65 c && N.leb c 90)%N then (c + 32)%N else c.
Definition lower (b : bytes) : bytes := map ascii_lower b.

Definition slash : N := 47%N.
Definition has_slash (b : bytes) : bool := existsb (N.eqb slash) b.
Definition last_byte (b : bytes) : option N :=
  match rev b with [] => None | x :: _ => Some x end.
Definition ends_with_slash (b : bytes) : bool :=
  match last_byte b with Some c => N.eqb c slash | None => false end.

(* strconv.ParseInt(s, 10, 64): None = *NumError (syntax or range) *)
Definition parse_int (s : bytes) : option Z :=
  match s with
  | [] => None
  | c :: r =>
      let '(neg, digits) :=
        if N.eqb c 43 then (false, r) else if N.eqb c 45 then (true, r) else (false, s) in
      match digits with
      | [] => None
      | _ =>
          if all_digits digits then
            let v := Z.of_N (dec_value digits) in
            if neg then (if v <=? max_i64 + 1 then Some (- v) else None)
            else (if v <=? max_i64 then Some v else None)
          else None
      end
  end.

(* ------------------------------------------------------------------ requests *)
Inductive method := MGet | MPost | MPut | MDelete | MHead | MOptions | MPatch | MConnect | MTrace | MOther.

Definition method_eqb (a b : method) : bool :=
  match a, b with
  | MGet, MGet | MPost, MPost | MPut, MPut | MDelete, MDelete | MHead, MHead
  | MOptions, MOptions | MPatch, MPatch | MConnect, MConnect | MTrace, MTrace | MOther, MOther => true
  | _, _ => false
  end.

(* url.ParseQuery: the (key, value) pairs in order of appearance; on error the pairs
   parsed so far are still available to http.Request.FormValue *)
Inductive query := QOk (pairs : list (bytes * bytes)) | QErr (partial : list (bytes * bytes)).

(* url.Values[key][0] / ReqParams.Get *)
Fixpoint qget (k : bytes) (l : list (bytes * bytes)) : option bytes :=
  match l with
  | [] => None
  | (k', v) :: r => if bytes_eqb k k' then Some v else qget k r
  end.

Inductive framing := Declared (n : Z) | Chunked.

Record request := mkReq {
  r_method : method;
  r_path : bytes;            (* req.URL.Path (already percent-decoded by net/http) *)
  r_query : query;
  r_framing : framing;
  r_body : bytes;            (* the bytes req.Body yields *)
  r_body_err : bool;         (* ... followed by a non-EOF error (bad chunk framing, short body) *)
  r_json_ok : bool           (* json.Unmarshal(body, *[]string) succeeds (used by PUT /config only) *)
}.

Definition content_length (r : request) : Z :=
  match r_framing r with Declared n => n | Chunked => -1 end.

(* io.ReadAll(io.LimitReader(req.Body, limit)) *)
Inductive read_res := ReadOk (b : bytes) | ReadErr.
Definition read_limited (r : request) (limit : Z) : read_res :=
  if limit <=? blen (r_body r) then ReadOk (firstn (Z.to_nat limit) (r_body r))
  else if r_body_err r then ReadErr else ReadOk (r_body r).
(* io.ReadAll(req.Body) *)
Definition read_all (r : request) : read_res :=
  if r_body_err r then ReadErr else ReadOk (r_body r).

(* ------------------------------------------------------------------ configuration *)
Record cfg := mkCfg {
  max_msg : Z;               (* --max-msg-size *)
  max_body : Z;              (* --max-body-size *)
  max_req : Z;               (* --max-req-timeout, ns *)
  tls_gate : bool;           (* plaintext listener while --tls-required: every request is 403 *)
  (* the environment the "healthy backend" hypothesis is about *)
  env_healthy : bool;        (* NSQD.IsHealthy (disk queue writes succeed) *)
  env_exiting : bool;        (* Topic.PutMessage(s) refuse: the daemon is shutting down *)
  env_backend_ok : bool;     (* diskqueue Empty succeeds *)
  env_hostname_ok : bool;    (* os.Hostname succeeds *)
  cfg_names : list bytes     (* option names GET /config/:opt knows (generated from options.go) *)
}.

Definition healthy_env (c : cfg) : Prop :=
  env_healthy c = true /\ env_exiting c = false /\ env_backend_ok c = true /\ env_hostname_ok c = true.

(* ------------------------------------------------------------------ daemon state (projection) *)
Record chan_st := mkChan { cs_paused : bool; cs_depth : Z }.
Record topic_st := mkTopic { ts_paused : bool; ts_depth : Z; ts_chans : list (bytes * chan_st) }.
Definition state := list (bytes * topic_st).

Fixpoint lookup {A : Type} (k : bytes) (l : list (bytes * A)) : option A :=
  match l with
  | [] => None
  | (k', v) :: r => if bytes_eqb k k' then Some v else lookup k r
  end.
Fixpoint remove_key {A : Type} (k : bytes) (l : list (bytes * A)) : list (bytes * A) :=
  match l with
  | [] => []
  | (k', v) :: r => if bytes_eqb k k' then remove_key k r else (k', v) :: remove_key k r
  end.
Fixpoint update {A : Type} (k : bytes) (f : A -> A) (l : list (bytes * A)) : list (bytes * A) :=
  match l with
  | [] => []
  | (k', v) :: r => if bytes_eqb k k' then (k', f v) :: r else (k', v) :: update k f r
  end.

Definition topic_exists (st : state) (t : bytes) : bool :=
  match lookup t st with Some _ => true | None => false end.
Definition chan_exists (st : state) (t c : bytes) : bool :=
  match lookup t st with
  | Some ts => match lookup c (ts_chans ts) with Some _ => true | None => false end
  | None => false
  end.

(* ------------------------------------------------------------------ effects *)
Inductive effect :=
| ECreateTopic (t : bytes)                                   (* NSQD.GetTopic: create if absent *)
| EEnqueue (t : bytes) (bodies : list bytes) (deferred : Z)  (* Topic.PutMessage / PutMessages *)
| ECreateChannel (t c : bytes)                               (* Topic.GetChannel: create if absent *)
| EDeleteTopic (t : bytes)
| EDeleteChannel (t c : bytes)
| EEmptyTopic (t : bytes)
| EEmptyChannel (t c : bytes)
| EPauseTopic (t : bytes) (p : bool)
| EPauseChannel (t c : bytes) (p : bool)
| EPersist                                                   (* NSQD.PersistMetadata *)
| ESetConfig (opt value : bytes).

Definition blen_list (l : list bytes) : Z := Z.of_nat (length l).
Definition new_topic : topic_st := mkTopic false 0 [].
Definition new_chan : chan_st := mkChan false 0.

Definition set_tpaused (p : bool) (ts : topic_st) := mkTopic p (ts_depth ts) (ts_chans ts).
Definition set_tdepth (d : Z) (ts : topic_st) := mkTopic (ts_paused ts) d (ts_chans ts).
Definition set_chans (f : list (bytes * chan_st) -> list (bytes * chan_st)) (ts : topic_st) :=
  mkTopic (ts_paused ts) (ts_depth ts) (f (ts_chans ts)).
Definition set_cpaused (p : bool) (cs : chan_st) := mkChan p (cs_depth cs).
Definition set_cdepth (d : Z) (cs : chan_st) := mkChan (cs_paused cs) d.


(* an ephemeral topic whose last channel is deleted deletes itself
   (Topic.DeleteExistingChannel: numChannels == 0 && t.ephemeral) *)
Definition is_nil {A : Type} (l : list A) : bool := match l with [] => true | _ => false end.

Definition apply_effect (st : state) (e : effect) : state :=
  match e with
  | ECreateTopic t => if topic_exists st t then st else st ++ [(t, new_topic)]
  | EEnqueue t bodies _ =>
      update t (fun ts => set_tdepth (ts_depth ts + blen_list bodies) ts) st
  | ECreateChannel t c =>
      update t (set_chans (fun cs => match lookup c cs with Some _ => cs | None => cs ++ [(c, new_chan)] end)) st
  | EDeleteTopic t => remove_key t st
  | EDeleteChannel t c =>
      match lookup t st with
      | Some ts =>
          let cs' := remove_key c (ts_chans ts) in
          if is_nil cs' && has_ephemeral_suffix t then remove_key t st
          else update t (set_chans (fun _ => cs')) st
      | None => st
      end
  | EEmptyTopic t => update t (set_tdepth 0) st
  | EEmptyChannel t c => update t (set_chans (update c (set_cdepth 0))) st
  | EPauseTopic t p => update t (set_tpaused p) st
  | EPauseChannel t c p => update t (set_chans (update c (set_cpaused p))) st
  | EPersist => st
  | ESetConfig _ _ => st
  end.

Definition apply_effects (st : state) (es : list effect) : state := fold_left apply_effect es st.

(* Topic.messagePump at quiescence: an un-paused topic with at least one channel has
   copied every queued message to every channel *)
Definition settle_topic (ts : topic_st) : topic_st :=
  if negb (ts_paused ts) && negb (is_nil (ts_chans ts)) then
    mkTopic false 0 (map (fun kc => (fst kc, set_cdepth (cs_depth (snd kc) + ts_depth ts) (snd kc))) (ts_chans ts))
  else ts.
Definition settle (st : state) : state := map (fun kt => (fst kt, settle_topic (snd kt))) st.

(* ------------------------------------------------------------------ route table *)
Inductive handler :=
| HPing | HInfo | HPub | HMpub | HStats
| HCreateTopic | HDeleteTopic | HEmptyTopic | HPauseTopic
| HCreateChannel | HDeleteChannel | HEmptyChannel | HPauseChannel
| HConfig | HSetBlockRate | HFreeMemory
| HPprof          (* net/http/pprof: stdlib passthrough *)
| HUnknown.

(* (method, path, Go handler expression, decorators) exactly as tools/gotables prints
   newHTTPServer's registrations; proofs/HttpProofs.v checks this list equals the
   generated gen/NsqdRoutes.v *)
Definition route_row := (string * string * string * list string)%type.
Definition model_route_table : list route_row := [
  ("GET", "/ping", "s.pingHandler", ["log"; "http_api.PlainText"]);
  ("GET", "/info", "s.doInfo", ["log"; "http_api.V1"]);
  ("POST", "/pub", "s.doPUB", ["http_api.V1"]);
  ("POST", "/mpub", "s.doMPUB", ["http_api.V1"]);
  ("GET", "/stats", "s.doStats", ["log"; "http_api.V1"]);
  ("POST", "/topic/create", "s.doCreateTopic", ["log"; "http_api.V1"]);
  ("POST", "/topic/delete", "s.doDeleteTopic", ["log"; "http_api.V1"]);
  ("POST", "/topic/empty", "s.doEmptyTopic", ["log"; "http_api.V1"]);
  ("POST", "/topic/pause", "s.doPauseTopic", ["log"; "http_api.V1"]);
  ("POST", "/topic/unpause", "s.doPauseTopic", ["log"; "http_api.V1"]);
  ("POST", "/channel/create", "s.doCreateChannel", ["log"; "http_api.V1"]);
  ("POST", "/channel/delete", "s.doDeleteChannel", ["log"; "http_api.V1"]);
  ("POST", "/channel/empty", "s.doEmptyChannel", ["log"; "http_api.V1"]);
  ("POST", "/channel/pause", "s.doPauseChannel", ["log"; "http_api.V1"]);
  ("POST", "/channel/unpause", "s.doPauseChannel", ["log"; "http_api.V1"]);
  ("GET", "/config/:opt", "s.doConfig", ["log"; "http_api.V1"]);
  ("PUT", "/config/:opt", "s.doConfig", ["log"; "http_api.V1"]);
  ("GET", "/debug/pprof/", "pprof.Index", ["stdlib"]);
  ("GET", "/debug/pprof/cmdline", "pprof.Cmdline", ["stdlib"]);
  ("GET", "/debug/pprof/symbol", "pprof.Symbol", ["stdlib"]);
  ("POST", "/debug/pprof/symbol", "pprof.Symbol", ["stdlib"]);
  ("GET", "/debug/pprof/profile", "pprof.Profile", ["stdlib"]);
  ("GET", "/debug/pprof/heap", "pprof.Handler(heap)", ["stdlib"]);
  ("GET", "/debug/pprof/goroutine", "pprof.Handler(goroutine)", ["stdlib"]);
  ("GET", "/debug/pprof/block", "pprof.Handler(block)", ["stdlib"]);
  ("PUT", "/debug/setblockrate", "setBlockRateHandler", ["log"; "http_api.PlainText"]);
  ("POST", "/debug/freememory", "freeMemory", ["log"; "http_api.PlainText"]);
  ("GET", "/debug/pprof/threadcreate", "pprof.Handler(threadcreate)", ["stdlib"])
]%string.

Definition method_of_string (s : string) : method :=
  if String.eqb s "GET" then MGet else if String.eqb s "POST" then MPost
  else if String.eqb s "PUT" then MPut else if String.eqb s "DELETE" then MDelete
  else if String.eqb s "HEAD" then MHead else if String.eqb s "OPTIONS" then MOptions
  else if String.eqb s "PATCH" then MPatch else if String.eqb s "CONNECT" then MConnect
  else if String.eqb s "TRACE" then MTrace else MOther.

Definition handler_of_string (s : string) (decor : list string) : handler :=
  if existsb (String.eqb "stdlib") decor then HPprof
  else if String.eqb s "s.pingHandler" then HPing
  else if String.eqb s "s.doInfo" then HInfo
  else if String.eqb s "s.doPUB" then HPub
  else if String.eqb s "s.doMPUB" then HMpub
  else if String.eqb s "s.doStats" then HStats
  else if String.eqb s "s.doCreateTopic" then HCreateTopic
  else if String.eqb s "s.doDeleteTopic" then HDeleteTopic
  else if String.eqb s "s.doEmptyTopic" then HEmptyTopic
  else if String.eqb s "s.doPauseTopic" then HPauseTopic
  else if String.eqb s "s.doCreateChannel" then HCreateChannel
  else if String.eqb s "s.doDeleteChannel" then HDeleteChannel
  else if String.eqb s "s.doEmptyChannel" then HEmptyChannel
  else if String.eqb s "s.doPauseChannel" then HPauseChannel
  else if String.eqb s "s.doConfig" then HConfig
  else if String.eqb s "setBlockRateHandler" then HSetBlockRate
  else if String.eqb s "freeMemory" then HFreeMemory
  else HUnknown.

Record route := mkRoute {
  rt_method : method;
  rt_path : bytes;       (* the path; for a route with a final :param, the part before the ':' *)
  rt_param : bool;       (* the path ends in one named parameter (/config/:opt) *)
  rt_handler : handler
}.

Definition colon : N := 58%N.
Fixpoint before_colon (b : bytes) : bytes * bool :=
  match b with
  | [] => ([], false)
  | c :: r => if N.eqb c colon then ([], true) else let '(p, f) := before_colon r in (c :: p, f)
  end.

Definition route_of_row (row : route_row) : route :=
  let '(m, p, h, ds) := row in
  let '(pre, par) := before_colon (str p) in
  mkRoute (method_of_string m) pre par (handler_of_string h ds).

Definition routes : list route := map route_of_row model_route_table.

(* ------------------------------------------------------------------ httprouter v1.3.0 *)
(* getValue: exact match; a :param segment matches one or more bytes other than '/' *)
Definition param_value (rt : route) (p : bytes) : bytes := skipn (length (rt_path rt)) p.
Definition route_matches (rt : route) (p : bytes) : bool :=
  if rt_param rt then
    is_prefix (rt_path rt) p && negb (is_nil (param_value rt p)) && negb (has_slash (param_value rt p))
  else bytes_eqb p (rt_path rt).

Definition find_route (m : method) (p : bytes) : option route :=
  find (fun rt => method_eqb m (rt_method rt) && route_matches rt p) routes.
Definition has_tree (m : method) : bool := existsb (fun rt => method_eqb m (rt_method rt)) routes.

(* the trailing-slash recommendation of getValue, for route sets whose only wildcard is a
   final :param:  "<route>/" -> "<route>" (the parameter may be empty here: "/config//"
   is redirected to "/config/"), and "<route minus its final slash>" -> "<route>" for a
   static route that ends in '/' *)
Definition tsr (m : method) (p : bytes) : bool :=
  if ends_with_slash p then
    let q := removelast p in
    existsb (fun rt => method_eqb m (rt_method rt) &&
                       (route_matches rt q || (rt_param rt && bytes_eqb q (rt_path rt)))) routes
  else
    existsb (fun rt => method_eqb m (rt_method rt) && negb (rt_param rt) &&
                       bytes_eqb (p ++ [slash]) (rt_path rt)) routes.

(* httprouter.CleanPath *)
Fixpoint split_slash (b : bytes) : list bytes :=
  match b with
  | [] => [[]]
  | c :: r =>
      if N.eqb c slash then [] :: split_slash r
      else match split_slash r with
           | f :: fs => (c :: f) :: fs
           | [] => [[c]]
           end
  end.
Definition dot : N := 46%N.
Definition is_dot (e : bytes) : bool := bytes_eqb e [dot].
Definition is_dotdot (e : bytes) : bool := bytes_eqb e [dot; dot].
(* the stack of kept elements, reversed *)
Fixpoint clean_elems (els : list bytes) (stack : list bytes) : list bytes :=
  match els with
  | [] => stack
  | e :: r =>
      if is_nil e || is_dot e then clean_elems r stack
      else if is_dotdot e then clean_elems r (tl stack)
      else clean_elems r (e :: stack)
  end.
Definition join_slash (els : list bytes) : bytes := flat_map (fun e => slash :: e) els.
Definition clean_path (p : bytes) : bytes :=
  match p with
  | [] => [slash]
  | c :: r =>
      let els := split_slash (if N.eqb c slash then r else p) in
      let kept := rev (clean_elems els []) in
      let trailing := ((1 <? blen p) && ends_with_slash p) || is_dot (last els []) in
      match kept with
      | [] => [slash]
      | _ => join_slash kept ++ (if trailing then [slash] else [])
      end
  end.

(* findCaseInsensitivePath(CleanPath(path), fixTrailingSlash = true), ASCII paths *)
Definition route_matches_ci (rt : route) (q : bytes) : bool :=
  if rt_param rt then
    is_prefix (lower (rt_path rt)) (lower q) && negb (is_nil (param_value rt q)) && negb (has_slash (param_value rt q))
  else bytes_eqb (lower q) (lower (rt_path rt)).
Definition fixed_path_found (m : method) (p : bytes) : bool :=
  let q := clean_path p in
  existsb (fun rt => method_eqb m (rt_method rt) &&
    (route_matches_ci rt q
     || (ends_with_slash q && route_matches_ci rt (removelast q))
     || (negb (rt_param rt) && bytes_eqb (lower (q ++ [slash])) (lower (rt_path rt))))) routes.

(* Router.allowed(path, reqMethod): the other methods that have a handler for this exact path *)
Definition all_methods : list method := [MGet; MPost; MPut; MDelete; MHead; MPatch; MConnect; MTrace; MOther].
Definition allowed (p : bytes) (m : method) : list method :=
  filter (fun m' => negb (method_eqb m' m) && negb (method_eqb m' MOptions) &&
                    match find_route m' p with Some _ => true | None => false end) all_methods.

Inductive routed :=
| RHandle (rt : route)
| RRedirect (code : Z)
| ROptionsOk
| RMethodNotAllowed
| RNotFound.

Definition star : bytes := [42%N].

Definition route_request (m : method) (p : bytes) : routed :=
  let fallthrough :=
    if method_eqb m MOptions then
      (if bytes_eqb p star || negb (is_nil (allowed p MOptions)) then ROptionsOk else RNotFound)
    else if negb (is_nil (allowed p m)) then RMethodNotAllowed else RNotFound in
  if has_tree m then
    match find_route m p with
    | Some rt => RHandle rt
    | None =>
        if negb (method_eqb m MConnect) && negb (bytes_eqb p [slash]) then
          let code := if method_eqb m MGet then 301 else 307 in
          if tsr m p then RRedirect code
          else if fixed_path_found m p then RRedirect code
          else fallthrough
        else fallthrough
    end
  else fallthrough.

(* ------------------------------------------------------------------ readMPUB and the TCP twins *)
Definition two31 : Z := 2147483648.
Definition two32 : Z := 4294967296.
(* int32(binary.BigEndian.Uint32(b)) *)
Definition be32 (b : bytes) : Z :=
  match b with
  | [b0; b1; b2; b3] =>
      let u := Z.of_N b0 * 16777216 + Z.of_N b1 * 65536 + Z.of_N b2 * 256 + Z.of_N b3 in
      if u <? two31 then u else u - two32
  | _ => 0
  end.
(* readLen on a finite stream: None = io.ReadFull failed *)
Definition read_len (s : bytes) : option (Z * bytes) :=
  if blen s <? 4 then None else Some (be32 (firstn 4 s), skipn 4 s).

Definition E_BAD_BODY := str "E_BAD_BODY".
Definition E_BAD_MESSAGE := str "E_BAD_MESSAGE".
Definition E_BAD_TOPIC := str "E_BAD_TOPIC".
Definition E_INVALID := str "E_INVALID".

Fixpoint read_msgs (n : nat) (mm : Z) (s : bytes) (acc : list bytes) : bytes + list bytes :=
  match n with
  | O => inr acc
  | S n' =>
      match read_len s with
      | None => inl E_BAD_MESSAGE
      | Some (size, rest) =>
          if size <=? 0 then inl E_BAD_MESSAGE
          else if size >? mm then inl E_BAD_MESSAGE
          else if blen rest <? size then inl E_BAD_MESSAGE
          else read_msgs n' mm (skipn (Z.to_nat size) rest) (acc ++ [firstn (Z.to_nat size) rest])
      end
  end.

(* readMPUB(r, tmp, topic, maxMessageSize, maxBodySize) on the finite stream s *)
Definition read_mpub (mm mb : Z) (s : bytes) : bytes + list bytes :=
  match read_len s with
  | None => inl E_BAD_BODY
  | Some (count, rest) =>
      if (count <=? 0) || (count >? Z.quot (mb - 4) 5) then inl E_BAD_BODY
      else read_msgs (Z.to_nat count) mm rest []
  end.

Inductive tcp_res := TcpOk (effs : list effect) | TcpErr (code : bytes) (effs : list effect).

(* the body part of PUB / DPUB: readLen has produced [size]; [stream] is what follows *)
Definition tcp_body (c : cfg) (size : Z) (stream : bytes) : option bytes :=
  if size <=? 0 then None
  else if size >? max_msg c then None
  else if blen stream <? size then None
  else Some (firstn (Z.to_nat size) stream).

Definition E_PUB_FAILED := str "E_PUB_FAILED".
Definition E_DPUB_FAILED := str "E_DPUB_FAILED".
Definition E_MPUB_FAILED := str "E_MPUB_FAILED".

(* PUB <name>\n[size][stream] *)
Definition tcp_pub (c : cfg) (name : bytes) (size : Z) (stream : bytes) : tcp_res :=
  if negb (is_valid_name name) then TcpErr E_BAD_TOPIC []
  else match tcp_body c size stream with
       | None => TcpErr E_BAD_MESSAGE []
       | Some body =>
           if env_exiting c then TcpErr E_PUB_FAILED [ECreateTopic name]
           else TcpOk [ECreateTopic name; EEnqueue name [body] 0]
       end.

(* DPUB <name> <ms>\n[size][stream] *)
Definition tcp_dpub (c : cfg) (name dparam : bytes) (size : Z) (stream : bytes) : tcp_res :=
  if negb (is_valid_name name) then TcpErr E_BAD_TOPIC []
  else match dpub_param (max_req c) dparam with
       | DpubInvalid => TcpErr E_INVALID []
       | DpubDelay d =>
           match tcp_body c size stream with
           | None => TcpErr E_BAD_MESSAGE []
           | Some body =>
               if env_exiting c then TcpErr E_DPUB_FAILED [ECreateTopic name]
               else TcpOk [ECreateTopic name; EEnqueue name [body] d]
           end
       end.

(* MPUB <name>\n[size][stream]: the topic is created before the body is looked at;
   readMPUB reads through io.LimitReader(conn, size) *)
Definition tcp_mpub (c : cfg) (name : bytes) (size : Z) (stream : bytes) : tcp_res :=
  if negb (is_valid_name name) then TcpErr E_BAD_TOPIC []
  else if size <=? 0 then TcpErr E_BAD_BODY [ECreateTopic name]
  else if size >? max_body c then TcpErr E_BAD_BODY [ECreateTopic name]
  else match read_mpub (max_msg c) (max_body c) (firstn (Z.to_nat size) stream) with
       | inl code => TcpErr code [ECreateTopic name]
       | inr msgs =>
           if env_exiting c then TcpErr E_MPUB_FAILED [ECreateTopic name]
           else TcpOk [ECreateTopic name; EEnqueue name msgs 0]
       end.

(* ------------------------------------------------------------------ handlers *)
Definition hres := ((Z * bytes) * list effect)%type.
Definition herr (code : Z) (tok : string) : hres := ((code, str tok), []).

Definition k_topic := str "topic".
Definition k_channel := str "channel".
Definition k_defer := str "defer".
Definition k_binary := str "binary".
Definition k_rate := str "rate".

(* getTopicFromQuery up to (not including) GetTopic *)
Definition topic_from_query (r : request) : (Z * bytes) + (list (bytes * bytes) * bytes) :=
  match r_query r with
  | QErr _ => inl (400, str "INVALID_REQUEST")
  | QOk ps =>
      match qget k_topic ps with
      | None => inl (400, str "MISSING_ARG_TOPIC")
      | Some t => if is_valid_name t then inr (ps, t) else inl (400, str "INVALID_TOPIC")
      end
  end.

(* http_api.NewReqParams *)
Definition new_req_params (r : request) : option (list (bytes * bytes)) :=
  match r_query r with
  | QErr _ => None
  | QOk ps => match read_all r with ReadErr => None | ReadOk _ => Some ps end
  end.

Definition do_pub (c : cfg) (r : request) : hres :=
  if content_length r >? max_msg c then herr 413 "MSG_TOO_BIG"
  else match read_limited r (max_msg c + 1) with
  | ReadErr => herr 400 "INVALID_REQUEST"
  | ReadOk body =>
      if blen body =? max_msg c + 1 then herr 413 "MSG_TOO_BIG"
      else if blen body =? 0 then herr 400 "MSG_EMPTY"
      else match topic_from_query r with
      | inl e => (e, [])
      | inr (ps, t) =>
          let put d := if env_exiting c then ((503, str "EXITING"), [ECreateTopic t])
                       else ((200, str "OK"), [ECreateTopic t; EEnqueue t [body] d]) in
          match qget k_defer ps with
          | None => put 0
          | Some ds =>
              match http_defer (max_req c) (parse_int ds) with
              | DpubInvalid => ((400, str "INVALID_DEFER"), [ECreateTopic t])
              | DpubDelay d => put d
              end
          end
      end
  end.

(* boolParams lookup as doMPUB uses it: unrecognised values mean true *)
Definition binary_mode (ps : list (bytes * bytes)) : bool :=
  match qget k_binary ps with
  | None => false
  | Some v =>
      if bytes_eqb v (str "true") || bytes_eqb v (str "1") then true
      else if bytes_eqb v (str "false") || bytes_eqb v (str "0") then false
      else true
  end.

Definition nl : N := 10%N.
Fixpoint split_nl (b : bytes) : list bytes :=
  match b with
  | [] => [[]]
  | c :: r =>
      if N.eqb c nl then [] :: split_nl r
      else match split_nl r with
           | f :: fs => (c :: f) :: fs
           | [] => [[c]]
           end
  end.

Inductive text_res := TextOk (msgs : list bytes) | TextErr (code : Z) (tok : bytes).

(* the ReadBytes('\n') loop of doMPUB over the segments of the (limited) body: every
   segment but the last was terminated by '\n'; [err] = the reader ends in a non-EOF
   error instead of EOF; [total] = bytes consumed so far *)
Fixpoint text_loop (mm readmax : Z) (err : bool) (segs : list bytes) (total : Z) (acc : list bytes) : text_res :=
  match segs with
  | [] => TextOk acc
  | [lastseg] =>
      if err then TextErr 400 (str "INVALID_REQUEST")
      else if total + blen lastseg =? readmax then TextErr 413 (str "BODY_TOO_BIG")
      else if blen lastseg =? 0 then TextOk acc
      else if blen lastseg >? mm then TextErr 413 (str "MSG_TOO_BIG")
      else TextOk (acc ++ [lastseg])
  | s :: rest =>
      let total' := total + blen s + 1 in
      if total' =? readmax then TextErr 413 (str "BODY_TOO_BIG")
      else if blen s =? 0 then text_loop mm readmax err rest total' acc
      else if blen s >? mm then TextErr 413 (str "MSG_TOO_BIG")
      else text_loop mm readmax err rest total' (acc ++ [s])
  end.

Definition text_mpub (c : cfg) (r : request) : text_res :=
  let readmax := max_body c + 1 in
  let data := firstn (Z.to_nat readmax) (r_body r) in
  let err := r_body_err r && (blen (r_body r) <? readmax) in
  text_loop (max_msg c) readmax err (split_nl data) 0 [].

Definition do_mpub (c : cfg) (r : request) : hres :=
  if content_length r >? max_body c then herr 413 "BODY_TOO_BIG"
  else match topic_from_query r with
  | inl e => (e, [])
  | inr (ps, t) =>
      let put msgs := if env_exiting c then ((503, str "EXITING"), [ECreateTopic t])
                      else ((200, str "OK"), [ECreateTopic t; EEnqueue t msgs 0]) in
      if binary_mode ps then
        match read_mpub (max_msg c) (max_body c) (firstn (Z.to_nat (max_body c)) (r_body r)) with
        | inl code => ((413, skipn 2 code), [ECreateTopic t])
        | inr msgs => put msgs
        end
      else
        match text_mpub c r with
        | TextErr code tok => ((code, tok), [ECreateTopic t])
        | TextOk msgs => put msgs
        end
  end.

Definition do_create_topic (c : cfg) (r : request) : hres :=
  match topic_from_query r with
  | inl e => (e, [])
  | inr (_, t) => ((200, []), [ECreateTopic t])
  end.

Definition do_empty_topic (c : cfg) (st : state) (r : request) : hres :=
  match new_req_params r with
  | None => herr 400 "INVALID_REQUEST"
  | Some ps =>
      match qget k_topic ps with
      | None => herr 400 "MISSING_ARG_TOPIC"
      | Some t =>
          if negb (is_valid_name t) then herr 400 "INVALID_TOPIC"
          else if negb (topic_exists st t) then herr 404 "TOPIC_NOT_FOUND"
          else if negb (env_backend_ok c) then ((500, str "INTERNAL_ERROR"), [EEmptyTopic t])
          else ((200, []), [EEmptyTopic t])
      end
  end.

Definition do_delete_topic (c : cfg) (st : state) (r : request) : hres :=
  match new_req_params r with
  | None => herr 400 "INVALID_REQUEST"
  | Some ps =>
      match qget k_topic ps with
      | None => herr 400 "MISSING_ARG_TOPIC"
      | Some t =>
          if negb (topic_exists st t) then herr 404 "TOPIC_NOT_FOUND"
          else ((200, []), [EDeleteTopic t])
      end
  end.

Definition unpause_path (r : request) : bool := contains_sub (str "unpause") (r_path r).

Definition do_pause_topic (c : cfg) (st : state) (r : request) : hres :=
  match new_req_params r with
  | None => herr 400 "INVALID_REQUEST"
  | Some ps =>
      match qget k_topic ps with
      | None => herr 400 "MISSING_ARG_TOPIC"
      | Some t =>
          if negb (topic_exists st t) then herr 404 "TOPIC_NOT_FOUND"
          else ((200, []), [EPauseTopic t (negb (unpause_path r)); EPersist])
      end
  end.

(* getExistingTopicFromQuery = NewReqParams + GetTopicChannelArgs + GetExistingTopic *)
Definition existing_topic_from_query (st : state) (r : request) : (Z * bytes) + (bytes * bytes) :=
  match new_req_params r with
  | None => inl (400, str "INVALID_REQUEST")
  | Some ps =>
      match qget k_topic ps with
      | None => inl (400, str "MISSING_ARG_TOPIC")
      | Some t =>
          if negb (is_valid_name t) then inl (400, str "INVALID_ARG_TOPIC")
          else match qget k_channel ps with
          | None => inl (400, str "MISSING_ARG_CHANNEL")
          | Some ch =>
              if negb (is_valid_name ch) then inl (400, str "INVALID_ARG_CHANNEL")
              else if negb (topic_exists st t) then inl (404, str "TOPIC_NOT_FOUND")
              else inr (t, ch)
          end
      end
  end.

Definition do_create_channel (c : cfg) (st : state) (r : request) : hres :=
  match existing_topic_from_query st r with
  | inl e => (e, [])
  | inr (t, ch) => ((200, []), [ECreateChannel t ch])
  end.

Definition do_empty_channel (c : cfg) (st : state) (r : request) : hres :=
  match existing_topic_from_query st r with
  | inl e => (e, [])
  | inr (t, ch) =>
      if negb (chan_exists st t ch) then herr 404 "CHANNEL_NOT_FOUND"
      else if negb (env_backend_ok c) then ((500, str "INTERNAL_ERROR"), [EEmptyChannel t ch])
      else ((200, []), [EEmptyChannel t ch])
  end.

Definition do_delete_channel (c : cfg) (st : state) (r : request) : hres :=
  match existing_topic_from_query st r with
  | inl e => (e, [])
  | inr (t, ch) =>
      if negb (chan_exists st t ch) then herr 404 "CHANNEL_NOT_FOUND"
      else ((200, []), [EDeleteChannel t ch])
  end.

Definition do_pause_channel (c : cfg) (st : state) (r : request) : hres :=
  match existing_topic_from_query st r with
  | inl e => (e, [])
  | inr (t, ch) =>
      if negb (chan_exists st t ch) then herr 404 "CHANNEL_NOT_FOUND"
      else ((200, []), [EPauseChannel t ch (negb (unpause_path r)); EPersist])
  end.

Definition do_stats (c : cfg) (r : request) : hres :=
  match new_req_params r with
  | None => herr 400 "INVALID_REQUEST"
  | Some _ => ((200, []), [])
  end.

Definition log_level_ok (b : bytes) : bool :=
  let l := lower b in
  bytes_eqb l (str "debug") || bytes_eqb l (str "info") || bytes_eqb l (str "warn")
  || bytes_eqb l (str "error") || bytes_eqb l (str "fatal").

Definition opt_lookupd := str "nsqlookupd_tcp_addresses".
Definition opt_log_level := str "log_level".

Definition do_config (c : cfg) (rt : route) (r : request) : hres :=
  let opt := param_value rt (r_path r) in
  let get (effs : list effect) : hres :=
    if existsb (bytes_eqb opt) (cfg_names c) then ((200, []), effs) else ((400, str "INVALID_OPTION"), effs) in
  if method_eqb (r_method r) MPut then
    match read_limited r (max_msg c + 1) with
    | ReadErr => herr 400 "INVALID_REQUEST"
    | ReadOk body =>
        if (blen body =? max_msg c + 1) || (blen body =? 0) then herr 413 "INVALID_VALUE"
        else if bytes_eqb opt opt_lookupd then
          (if r_json_ok r then get [ESetConfig opt body] else herr 400 "INVALID_VALUE")
        else if bytes_eqb opt opt_log_level then
          (if log_level_ok body then get [ESetConfig opt body] else herr 400 "INVALID_VALUE")
        else herr 400 "INVALID_OPTION"
    end
  else get [].

Definition do_ping (c : cfg) : hres :=
  if env_healthy c then ((200, str "OK"), []) else ((500, str "NOK"), []).
Definition do_info (c : cfg) : hres :=
  if env_hostname_ok c then ((200, []), []) else ((500, str "INTERNAL_ERROR"), []).

(* setBlockRateHandler: req.FormValue("rate") (the URL query part; a form-encoded body is
   not modelled), strconv.Atoi *)
Definition do_set_block_rate (r : request) : hres :=
  let ps := match r_query r with QOk ps => ps | QErr ps => ps end in
  let v := match qget k_rate ps with Some v => v | None => [] end in
  match parse_int v with
  | None => ((400, str "invalid block rate "), [])
  | Some _ => ((200, []), [])
  end.

Inductive response := Resp (status : Z) (token : bytes) | Pass.

Definition run_handler (c : cfg) (st : state) (rt : route) (r : request) : response * list effect :=
  let lift (h : hres) := (Resp (fst (fst h)) (snd (fst h)), snd h) in
  match rt_handler rt with
  | HPing => lift (do_ping c)
  | HInfo => lift (do_info c)
  | HPub => lift (do_pub c r)
  | HMpub => lift (do_mpub c r)
  | HStats => lift (do_stats c r)
  | HCreateTopic => lift (do_create_topic c r)
  | HDeleteTopic => lift (do_delete_topic c st r)
  | HEmptyTopic => lift (do_empty_topic c st r)
  | HPauseTopic => lift (do_pause_topic c st r)
  | HCreateChannel => lift (do_create_channel c st r)
  | HDeleteChannel => lift (do_delete_channel c st r)
  | HEmptyChannel => lift (do_empty_channel c st r)
  | HPauseChannel => lift (do_pause_channel c st r)
  | HConfig => lift (do_config c rt r)
  | HSetBlockRate => lift (do_set_block_rate r)
  | HFreeMemory => (Resp 200 [], [])
  | HPprof => (Pass, [])
  | HUnknown => (Pass, [])
  end.

(* httpServer.ServeHTTP *)
Definition serve (c : cfg) (st : state) (r : request) : response * list effect :=
  if tls_gate c then (Resp 403 (str "TLS_REQUIRED"), [])
  else match route_request (r_method r) (r_path r) with
  | RHandle rt => run_handler c st rt r
  | RRedirect code => (Resp code [], [])
  | ROptionsOk => (Resp 200 [], [])
  | RMethodNotAllowed => (Resp 405 (str "METHOD_NOT_ALLOWED"), [])
  | RNotFound => (Resp 404 (str "NOT_FOUND"), [])
  end.

(* the request, then the topic pumps at quiescence *)
Definition run (c : cfg) (st : state) (r : request) : response * state :=
  let '(resp, effs) := serve c st r in (resp, settle (apply_effects st effs)).

(* ------------------------------------------------------------------ the documented status rule (DESIGN 8a) *)
Definition is_suffix (sfx b : bytes) : bool := is_prefix (rev sfx) (rev b).
(* does this (status, error token) pair obey the documented table? *)
Definition status_rule (status : Z) (tok : bytes) : bool :=
  if status =? 400 then
    is_prefix (str "MISSING_ARG_") tok || is_prefix (str "INVALID_") tok
    || bytes_eqb tok (str "MSG_EMPTY") || is_prefix (str "invalid block rate") tok
  else if status =? 404 then is_suffix (str "NOT_FOUND") tok
  else if status =? 413 then
    is_suffix (str "_TOO_BIG") tok || bytes_eqb tok (str "BAD_BODY") || bytes_eqb tok (str "BAD_MESSAGE")
    || bytes_eqb tok (str "INVALID_VALUE")
  else if status =? 405 then bytes_eqb tok (str "METHOD_NOT_ALLOWED")
  else if status =? 403 then bytes_eqb tok (str "TLS_REQUIRED")
  else (status =? 200) || (status =? 301) || (status =? 307).
(* ... and conversely the class of a token fixes the status *)
Definition token_class_status (tok : bytes) : option Z :=
  if is_prefix (str "MISSING_ARG_") tok then Some 400
  else if is_suffix (str "NOT_FOUND") tok then Some 404
  else if is_suffix (str "_TOO_BIG") tok then Some 413
  else None.

Definition allowed_status (s : Z) : bool :=
  (s =? 200) || (s =? 301) || (s =? 307) || (s =? 400) || (s =? 403) || (s =? 404) || (s =? 405) || (s =? 413).

(* ------------------------------------------------------------------ what an error token asserts (documented argument table) *)
(* "400 for bad or missing arguments, 404 for an unknown topic/channel" read the other way
   round: an argument-error token is a statement about the request (and the daemon state
   it met), and the statement has to be true.  Names: 1..64 bytes of [.a-zA-Z0-9_-] with an
   optional #ephemeral suffix (Names.is_valid_name); defer: a decimal number of
   milliseconds in [0, max-req-timeout]; the first value of a repeated argument counts. *)
Definition qpairs (q : query) : list (bytes * bytes) := match q with QOk ps => ps | QErr ps => ps end.

Definition defer_documented (c : cfg) (ds : bytes) : bool :=
  match parse_int ds with
  | Some di => (0 <=? di) && (di * ns_per_ms <=? max_req c)
  | None => false
  end.

Inductive arg_token :=
| TkInvalidRequest | TkMissingTopic | TkMissingChannel | TkInvalidTopic | TkInvalidChannel
| TkTopicNotFound | TkChannelNotFound | TkInvalidDefer
| TkInvalidOption | TkInvalidValue | TkBlockRate | TkOther.

Definition arg_token_of (tok : bytes) : arg_token :=
  if bytes_eqb tok (str "INVALID_REQUEST") then TkInvalidRequest
  else if bytes_eqb tok (str "MISSING_ARG_TOPIC") then TkMissingTopic
  else if bytes_eqb tok (str "MISSING_ARG_CHANNEL") then TkMissingChannel
  else if bytes_eqb tok (str "INVALID_TOPIC") || bytes_eqb tok (str "INVALID_ARG_TOPIC") then TkInvalidTopic
  else if bytes_eqb tok (str "INVALID_ARG_CHANNEL") then TkInvalidChannel
  else if bytes_eqb tok (str "TOPIC_NOT_FOUND") then TkTopicNotFound
  else if bytes_eqb tok (str "CHANNEL_NOT_FOUND") then TkChannelNotFound
  else if bytes_eqb tok (str "INVALID_DEFER") then TkInvalidDefer
  else if bytes_eqb tok (str "INVALID_OPTION") then TkInvalidOption
  else if bytes_eqb tok (str "INVALID_VALUE") then TkInvalidValue
  else if is_prefix (str "invalid block rate") tok then TkBlockRate
  else TkOther.

(* the remaining tokens of the API (closed world): no body / "OK", the router's and the TLS
   gate's answers, the size tokens (their conditions are in the publish monitor and in
   C10_pub_oversize_413 ff.), and the tokens of the 5xx answers that the healthy-backend
   hypothesis excludes (never an allowed status) *)
Definition other_tokens : list bytes :=
  [[]; str "OK"; str "NOT_FOUND"; str "METHOD_NOT_ALLOWED"; str "TLS_REQUIRED";
   str "MSG_TOO_BIG"; str "MSG_EMPTY"; str "BODY_TOO_BIG"; str "BAD_BODY"; str "BAD_MESSAGE";
   str "NOK"; str "INTERNAL_ERROR"; str "EXITING"].

(* PUT /config/:opt knows two options *)
Definition config_opt (r : request) : bytes := skipn 8 (r_path r).      (* after "/config/" *)

Definition token_justified (c : cfg) (st : state) (r : request) (tok : bytes) : bool :=
  let ps := qpairs (r_query r) in
  let topic := qget k_topic ps in
  let chan := qget k_channel ps in
  match arg_token_of tok with
  | TkInvalidRequest => (match r_query r with QErr _ => true | QOk _ => false end) || r_body_err r
  | TkMissingTopic => match topic with None => true | Some _ => false end
  | TkMissingChannel => match chan with None => true | Some _ => false end
  | TkInvalidTopic => match topic with Some t => negb (is_valid_name t) | None => false end
  | TkInvalidChannel => match chan with Some ch => negb (is_valid_name ch) | None => false end
  | TkTopicNotFound => match topic with Some t => negb (topic_exists st t) | None => false end
  | TkChannelNotFound => match topic, chan with
                         | Some t, Some ch => negb (chan_exists st t ch)
                         | _, _ => false
                         end
  | TkInvalidDefer => match qget k_defer ps with Some ds => negb (defer_documented c ds) | None => false end
  | TkInvalidOption =>
      negb (existsb (bytes_eqb (config_opt r)) (cfg_names c)) ||
      (method_eqb (r_method r) MPut &&
       negb (bytes_eqb (config_opt r) opt_lookupd || bytes_eqb (config_opt r) opt_log_level))
  | TkInvalidValue =>
      method_eqb (r_method r) MPut &&
      ((blen (r_body r) =? 0) || (max_msg c <? blen (r_body r))
       || (bytes_eqb (config_opt r) opt_lookupd && negb (r_json_ok r))
       || (bytes_eqb (config_opt r) opt_log_level && negb (log_level_ok (r_body r))))
  | TkBlockRate =>
      match parse_int (match qget k_rate ps with Some v => v | None => [] end) with
      | None => true
      | Some _ => false
      end
  | TkOther => existsb (bytes_eqb tok) other_tokens
  end.

(* ... and the other way round for the ten admin endpoints: a well-formed POST (parsable
   query, body read without error) whose named object satisfies the endpoint's documented
   precondition must be answered 200 *)
Definition admin_precondition (path : bytes) (st : state) (t : option bytes) (ch : option bytes) : option bool :=
  let is (p : bytes) := bytes_eqb path p in
  match t with
  | None => if is_prefix (str "/topic/") path || is_prefix (str "/channel/") path then Some false else None
  | Some t =>
      if is (str "/topic/create") then Some (is_valid_name t)
      else if is (str "/topic/delete") || is (str "/topic/pause") || is (str "/topic/unpause") then Some (topic_exists st t)
      else if is (str "/topic/empty") then Some (is_valid_name t && topic_exists st t)
      else match ch with
           | None => if is_prefix (str "/channel/") path then Some false else None
           | Some ch =>
               if is (str "/channel/create") then Some (is_valid_name t && is_valid_name ch && topic_exists st t)
               else if is (str "/channel/delete") || is (str "/channel/empty") || is (str "/channel/pause") || is (str "/channel/unpause")
               then Some (is_valid_name t && is_valid_name ch && chan_exists st t ch)
               else None
           end
  end.
