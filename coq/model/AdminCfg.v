(* Model of how nsqadmin's options come to their values when the program is started
   (apps/nsqadmin/main.go program.Start, github.com/mreiferson/go-options Resolve,
   nsqadmin.New's start-up checks), as far as C17 needs it: the admin list, the ACL header
   name, the CIDR /config is served to, the nsqlookupd / nsqd HTTP addresses.

     - a LAUNCH is what the operator wrote: the command-line arguments (flag name, value;
       a repeatable flag appears several times) and the decoded config file (key, value);
     - [resolve_launch] follows options.Resolve over the struct tags of nsqadmin.Options,
       the flags of nsqadminFlagSet and the defaults of NewOptions, all three REGENERATED
       from the source (gen/AdminOptTable.v): command-line flag, else config-file value
       under the field's `cfg` tag (default: the flag name with '-' replaced by '_'), else
       the flag's default; a `flag` tag naming a flag the flag set does not define is a
       panic (no start);
     - [spec_config] is the DOCUMENTED interface, written with the documented names only
       (flags of `nsqadmin --help`, keys of contrib/nsqadmin.cfg.example); it does not
       mention the generated tables.  The judge's monitor configures the property with it.
   No proofs here. *)
From Coq Require Import String List NArith Bool Ascii.
From NSQV Require Import model.Judge gen.AdminOptTable model.Admin.
Import ListNotations.
Open Scope bool_scope.
Open Scope list_scope.
Open Scope N_scope.

Definition str_bytes (s : string) : bytes := map N_of_ascii (list_ascii_of_string s).

(* ------------------------------------------------------------------ what the operator wrote *)

(* a config-file value after TOML decoding: a string, or an array of strings *)
Inductive cfgval := CVStr (s : bytes) | CVList (l : list bytes).

Record launch := mkLaunch {
  l_args : list (string * bytes);     (* --<flag> <value>, in command-line order *)
  l_file : list (string * cfgval)     (* <key> = <value> of the --config file ([] = no file) *)
}.

(* flagSet.Visit: the values given for a flag on the command line ([] = not given) *)
Definition arg_values (name : string) (l : launch) : list bytes :=
  map snd (filter (fun kv => String.eqb (fst kv) name) (l_args l)).

Definition file_value (key : string) (l : launch) : option cfgval := assoc_str key (l_file l).

(* ------------------------------------------------------------------ go-options coercions *)

(* strings.Split(s, ",") *)
Fixpoint split_on (sep : N) (cur s : bytes) : list bytes :=
  match s with
  | [] => [rev cur]
  | c :: r => if c =? sep then rev cur :: split_on sep [] r else split_on sep (c :: cur) r
  end.
Definition split_comma (s : bytes) : list bytes := split_on 44 [] s.

(* fmt.Sprintf("%s", []string{..}) *)
Fixpoint join_sp (l : list bytes) : bytes :=
  match l with
  | [] => []
  | [x] => x
  | x :: r => x ++ 32 :: join_sp r
  end.
Definition bracketed (l : list bytes) : bytes := 91 :: join_sp l ++ [93].

(* coerceStringSlice / coerceString on what a flag or the file gave *)
Definition coerce_list (v : cfgval) : list bytes :=
  match v with CVList x => x | CVStr s => split_comma s end.
Definition coerce_str (v : cfgval) : bytes :=
  match v with CVStr s => s | CVList x => bracketed x end.

(* ------------------------------------------------------------------ options.Resolve over the tables *)

Record tables := mkTables {
  t_fields : list optfield; t_flags : list flagdef;
  t_sdef : list (string * string); t_ldef : list (string * list string) }.

Definition admin_tables : tables :=
  mkTables admin_opt_fields admin_flags admin_opt_str_defaults admin_opt_list_defaults.

(* strings.Replace(flagName, "-", "_", -1) *)
Fixpoint underscored (s : string) : string :=
  match s with
  | EmptyString => EmptyString
  | String c r => String (if Ascii.eqb c "-"%char then "_"%char else c) (underscored r)
  end.

Definition cfg_key (f : optfield) : string :=
  if String.eqb (of_cfg f) "" then underscored (of_flag f) else of_cfg f.

Definition find_flag (T : tables) (name : string) : option flagdef :=
  find (fun fd => String.eqb (fl_name fd) name) (t_flags T).
Definition find_field (T : tables) (name : string) : option optfield :=
  find (fun f => String.eqb (of_name f) name) (t_fields T).

Definition kind_list : string := "Var:app.StringArray".
Definition kind_str : string := "String".

(* flagInst.Value.(flag.Getter).Get() of a flag given on the command line: a repeatable
   flag yields all its values, a string flag the last one.  Other kinds are not options
   C17 depends on: None = not understood *)
Definition flag_given (fd : flagdef) (vals : list bytes) : option cfgval :=
  if String.eqb (fl_kind fd) kind_list then Some (CVList vals)
  else if String.eqb (fl_kind fd) kind_str then Some (CVStr (last vals []))
  else None.

Fixpoint drop_str (n : nat) (s : string) : string :=
  match n, s with
  | O, _ => s
  | S k, String _ r => drop_str k r
  | S _, EmptyString => EmptyString
  end.

(* the flag's default (its Get() when neither the command line nor the file sets it) *)
Definition flag_default (T : tables) (fd : flagdef) : option cfgval :=
  let d := fl_default fd in
  if String.eqb d "empty" then (if String.eqb (fl_kind fd) kind_list then Some (CVList []) else None)
  else if negb (String.eqb (fl_kind fd) kind_str) then None
  else if String.prefix "lit:" d then Some (CVStr (str_bytes (drop_str 4 d)))
  else if String.prefix "opts:" d then
    match assoc_str (drop_str 5 d) (t_sdef T) with
    | Some s => Some (CVStr (str_bytes s))
    | None => Some (CVStr [])                  (* the field's zero value *)
    end
  else None.

(* one field: the value Resolve assigns, before coercion to the field's type.
   None = Resolve panics (unknown flag) or the shape is not understood *)
Definition resolve_field (T : tables) (l : launch) (f : optfield) : option cfgval :=
  if negb (String.eqb (of_deprecated f) "") then None else
  match find_flag T (of_flag f) with
  | None => None
  | Some fd =>
      match arg_values (of_flag f) l with
      | (_ :: _) as vs => flag_given fd vs
      | [] =>
          match file_value (cfg_key f) l with
          | Some v => Some v
          | None => flag_default T fd
          end
      end
  end.

(* a field without a `flag` tag keeps its NewOptions value *)
Definition struct_default (T : tables) (f : optfield) : cfgval :=
  match assoc_str (of_name f) (t_ldef T) with
  | Some x => CVList (map str_bytes x)
  | None => match assoc_str (of_name f) (t_sdef T) with
            | Some s => CVStr (str_bytes s)
            | None => if String.eqb (of_type f) "[]string" then CVList [] else CVStr []
            end
  end.

Definition field_value (T : tables) (l : launch) (name : string) : option cfgval :=
  match find_field T name with
  | None => None
  | Some f => if String.eqb (of_flag f) "" then Some (struct_default T f) else resolve_field T l f
  end.

Definition field_list (T : tables) (l : launch) (name : string) : option (list bytes) :=
  match find_field T name, field_value T l name with
  | Some f, Some v => if String.eqb (of_type f) "[]string" then Some (coerce_list v) else None
  | _, _ => None
  end.
Definition field_str (T : tables) (l : launch) (name : string) : option bytes :=
  match find_field T name, field_value T l name with
  | Some f, Some v => if String.eqb (of_type f) "string" then Some (coerce_str v) else None
  | _, _ => None
  end.

(* Resolve looks every tagged flag up first: "it's a programming error if they aren't found
   (hence the panic)" *)
Definition flags_defined (T : tables) : bool :=
  forallb (fun f => String.eqb (of_flag f) "" ||
                    match find_flag T (of_flag f) with Some _ => true | None => false end) (t_fields T).

(* the options C17 depends on, after Resolve *)
Record rcfg := mkRcfg {
  rc_admins : list bytes; rc_header : bytes; rc_cidr : bytes;
  rc_lookupds : list bytes; rc_nsqds : list bytes }.

Definition resolve_launch (T : tables) (l : launch) : option rcfg :=
  if flags_defined T then
    match field_list T l "AdminUsers", field_str T l "ACLHTTPHeader", field_str T l "AllowConfigFromCIDR",
          field_list T l "NSQLookupdHTTPAddresses", field_list T l "NSQDHTTPAddresses" with
    | Some a, Some h, Some c, Some ls, Some ns => Some (mkRcfg a h c ls ns)
    | _, _, _, _, _ => None
    end
  else None.

(* ------------------------------------------------------------------ nsqadmin.New *)

(* the CIDR texts of a case with what net.ParseCIDR makes of them (None = error) *)
Definition cidr_table := list (bytes * option cidr).

Fixpoint assoc_bytes {A : Type} (k : bytes) (l : list (bytes * A)) : option A :=
  match l with
  | [] => None
  | (k', v) :: r => if bytes_eqb k k' then Some v else assoc_bytes k r
  end.

(* Some None: no CIDR configured; None: New refuses to start *)
Definition cidr_of (cp : cidr_table) (text : bytes) : option (option cidr) :=
  match text with
  | [] => Some None
  | _ => match assoc_bytes text cp with
         | Some (Some c) => Some (Some c)
         | _ => None
         end
  end.

(* New: one of the two address lists, not both; the CIDR must parse *)
Definition startup (cp : cidr_table) (rc : rcfg) : option acfg :=
  match rc_lookupds rc, rc_nsqds rc with
  | [], [] => None
  | _ :: _, _ :: _ => None
  | _, _ =>
      match cidr_of cp (rc_cidr rc) with
      | Some c => Some (mkCfg (rc_admins rc) (rc_header rc) c)
      | None => None
      end
  end.

(* the running nsqadmin's configuration, None = it does not come up *)
Definition launch_cfg (T : tables) (cp : cidr_table) (l : launch) : option (acfg * rcfg) :=
  match resolve_launch T l with
  | Some rc => match startup cp rc with Some c => Some (c, rc) | None => None end
  | None => None
  end.

(* ------------------------------------------------------------------ the documented interface *)

Definition default_acl_header : bytes := [88;45;70;111;114;119;97;114;100;101;100;45;85;115;101;114].  (* X-Forwarded-User *)
Definition default_config_cidr : bytes := [49;50;55;46;48;46;48;46;49;47;56].                           (* 127.0.0.1/8 *)

(* command line over config file over default *)
Definition spec_list (flag key : string) (l : launch) : list bytes :=
  match arg_values flag l with
  | (_ :: _) as vs => vs
  | [] => match file_value key l with Some v => coerce_list v | None => [] end
  end.
Definition spec_str (flag key : string) (dflt : bytes) (l : launch) : bytes :=
  match arg_values flag l with
  | (_ :: _) as vs => last vs []
  | [] => match file_value key l with Some v => coerce_str v | None => dflt end
  end.

Definition spec_config (l : launch) : rcfg :=
  mkRcfg (spec_list "admin-user" "admin_users" l)
         (spec_str "acl-http-header" "acl_http_header" default_acl_header l)
         (spec_str "allow-config-from-cidr" "allow_config_from_cidr" default_config_cidr l)
         (spec_list "lookupd-http-address" "nsqlookupd_http_addresses" l)
         (spec_list "nsqd-http-address" "nsqd_http_addresses" l).

(* ------------------------------------------------------------------ table obligations *)

(* one documented binding: the field exists with that type, its flag is the documented flag,
   defined on the flag set with the kind and default that make "not given" mean [dflt], and
   its config key is the documented key *)
Definition binding_ok (T : tables) (field ty flag key : string) (dflt : cfgval) : bool :=
  match find_field T field with
  | Some f =>
      String.eqb (of_type f) ty && String.eqb (of_flag f) flag && String.eqb (cfg_key f) key &&
      String.eqb (of_deprecated f) "" &&
      match find_flag T flag with
      | Some fd =>
          (if String.eqb ty "[]string" then String.eqb (fl_kind fd) kind_list else String.eqb (fl_kind fd) kind_str) &&
          match flag_default T fd, dflt with
          | Some (CVList a), CVList b => bytess_eqb a b
          | Some (CVStr a), CVStr b => bytes_eqb a b
          | _, _ => false
          end
      | None => false
      end
  | None => false
  end.

Definition bindings_ok (T : tables) : bool :=
  flags_defined T &&
  binding_ok T "AdminUsers" "[]string" "admin-user" "admin_users" (CVList []) &&
  binding_ok T "ACLHTTPHeader" "string" "acl-http-header" "acl_http_header" (CVStr default_acl_header) &&
  binding_ok T "AllowConfigFromCIDR" "string" "allow-config-from-cidr" "allow_config_from_cidr" (CVStr default_config_cidr) &&
  binding_ok T "NSQLookupdHTTPAddresses" "[]string" "lookupd-http-address" "nsqlookupd_http_addresses" (CVList []) &&
  binding_ok T "NSQDHTTPAddresses" "[]string" "nsqd-http-address" "nsqd_http_addresses" (CVList []).

(* the whole table against contrib/nsqadmin.cfg.example: every documented key is the config
   key of exactly one resolvable field, of the documented shape; every resolvable field is
   documented (dev_static_dir, "development use only", is the one exception); no two fields
   share a flag or a key *)
Definition tagged (T : tables) : list optfield := filter (fun f => negb (String.eqb (of_flag f) "")) (t_fields T).

Definition count_key (T : tables) (key : string) : nat :=
  length (filter (fun f => String.eqb (cfg_key f) key) (tagged T)).
Definition count_flag (T : tables) (flag : string) : nat :=
  length (filter (fun f => String.eqb (of_flag f) flag) (tagged T)).

Definition undocumented_keys : list string := ["dev_static_dir"%string].

Definition doc_key_ok (T : tables) (k : string * string) : bool :=
  Nat.eqb (count_key T (fst k)) 1 &&
  match find (fun f => String.eqb (cfg_key f) (fst k)) (tagged T) with
  | Some f => Bool.eqb (String.eqb (snd k) "list") (String.eqb (of_type f) "[]string")
  | None => false
  end.

Definition docs_ok (T : tables) (docs : list (string * string)) : bool :=
  forallb (doc_key_ok T) docs &&
  forallb (fun f => Nat.eqb (count_key T (cfg_key f)) 1 && Nat.eqb (count_flag T (of_flag f)) 1 &&
                    (existsb (fun k => String.eqb (fst k) (cfg_key f)) docs ||
                     existsb (String.eqb (cfg_key f)) undocumented_keys)) (tagged T).

(* program.Start builds the options in this order: defaults, flags, the decoded file,
   Validate (which only rewrites log_level), Resolve, New *)
Definition start_shape_expected : list string :=
  ["nsqadmin.NewOptions()"; "nsqadminFlagSet(opts)"; "flagSet.Parse(os.Args[1:])"; "flagSet.Lookup(""config"")";
   "toml.DecodeFile(configFile, &cfg)"; "cfg.Validate()"; "options.Resolve(opts, flagSet, cfg)"; "nsqadmin.New(opts)"]%string.
Definition validated_expected : list string := ["log_level"%string].
