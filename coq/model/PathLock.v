(* Model for the data-path lock clause of C06: "a second nsqd pointed at a data path that is
   in use refuses to start".

   Sources modelled (read /repo/nsqd/nsqd.go New / Exit, apps/nsqd/main.go, internal/dirlock):
     nsqd.New            n.dl.Lock() before anything else concerns the data path; failure = the
                         process ends ("failed to lock data-path")
     DirLock.Lock        os.Open(dir) ; flock(fd, LOCK_EX|LOCK_NB) ; the descriptor is KEPT
                         (a flock lives as long as its open file description)
     program.Start       LoadMetadata ; PersistMetadata ; go Main (lookupLoop, queueScanLoop,
                         statsdLoop, the servers and, later, every Notify goroutine are in
                         n.waitGroup: from here on the daemon may write the path at any instant)
     NSQD.Exit           close the listeners ; Lock ; PersistMetadata ; Close every topic ; Unlock ;
                         close(exitChan) ; waitGroup.Wait() ; dl.Unlock()
     DirLock.Unlock      flock(LOCK_UN) ; close
     SIGKILL / exit      the kernel drops the flock with the descriptor

   Any number of daemon processes on ONE data path; a schedule is a list of events; every
   interleaving is a schedule.  The life of a daemon is a list of steps BUILT FROM THE SOURCE
   TABLE gen/MetaShape.v (new_path_calls, start_calls, exit_calls, dirlock_lock_calls ...), so a change of the
   order in Exit or of what DirLock.Lock does changes the model.  No proofs here. *)
From Coq Require Import List String Bool Arith.
From NSQV Require Import gen.MetaShape model.MetaSrc.
Import ListNotations.
Local Open Scope string_scope.

Inductive lkind :=
| LsFlock      (* flock(LOCK_EX|LOCK_NB) on the data path, descriptor kept; busy = the process ends *)
| LsTouch      (* reads or writes files of the data path (LoadMetadata, PersistMetadata, Topic.Close) *)
| LsSpawn      (* starts the background goroutines: they may write the path until they are joined *)
| LsJoin       (* waitGroup.Wait(): every background goroutine has ended *)
| LsUnflock    (* flock(LOCK_UN), close *)
| LsOther.     (* does not concern the data path *)

Definition lstep := (lkind * string)%type.      (* the label is the call in the source *)

(* DirLock.Lock keeps the descriptor it locked; DirLock.Unlock unlocks *)
Definition dirlock_src : bool :=
  strs_eqb dirlock_lock_calls ["Open"; "Flock"]
  && String.eqb dirlock_lock_how "syscall.LOCK_EX | syscall.LOCK_NB"
  && strs_eqb dirlock_unlock_calls ["Close"; "Flock"]
  && String.eqb dirlock_unlock_how "syscall.LOCK_UN".

Definition has_suffix (suf s : string) : bool :=
  let n := String.length s in let m := String.length suf in
  Nat.leb m n && String.eqb (substring (n - m) m s) suf.

Definition classify_new (c : string) : lstep :=
  if has_suffix ".dl.Lock" c then ((if dirlock_src then LsFlock else LsOther), c)
  else if has_suffix ".dl.Unlock" c then (LsUnflock, c)
  else if has_suffix ".LoadMetadata" c || has_suffix ".PersistMetadata" c then (LsTouch, c)
  else if has_suffix ".Main" c then (LsSpawn, c)
  else (LsOther, c).
Definition classify_start (c : string) : lstep :=
  if String.eqb c "LoadMetadata" || String.eqb c "PersistMetadata" then (LsTouch, "start:" ++ c)
  else if String.eqb c "Main" then (LsSpawn, "start:" ++ c)
  else (LsOther, "start:" ++ c).
Definition classify_exit (c : string) : lstep :=
  if has_suffix ".dl.Unlock" c then (LsUnflock, c)
  else if has_suffix ".dl.Lock" c then (LsFlock, c)
  else if has_suffix ".waitGroup.Wait" c then (LsJoin, c)
  else if has_suffix ".PersistMetadata" c || has_suffix ".LoadMetadata" c || String.eqb c "topic.Close" then (LsTouch, c)
  else (LsOther, c).

Definition signal_step : lstep := (LsOther, "signal").      (* serving until SIGINT / SIGTERM *)
Definition life_of (nw st ex : list string) : list lstep :=
  map classify_new nw ++ map classify_start st ++ [signal_step] ++ map classify_exit ex.
Definition life_src : list lstep := life_of new_path_calls start_calls exit_calls.

(* ---------------------------------------------------------------- processes on one data path *)
Record proc := mkP { todo : list lstep; bg : bool }.
Record world := mkW {
  procs : nat -> option proc;
  owner : option nat;        (* which process holds the flock *)
  clash : bool               (* ghost: some process touched the path, or had background goroutines
                                running, at an instant at which it did not hold the flock *)
}.
Definition linit : world := mkW (fun _ => None) None false.

Definition upd (f : nat -> option proc) (d : nat) (v : option proc) : nat -> option proc :=
  fun x => if Nat.eqb x d then v else f x.
Definition holds (w : world) (d : nat) : bool :=
  match owner w with Some o => Nat.eqb o d | None => false end.
Definition release (w : world) (d : nat) : option nat := if holds w d then None else owner w.

Inductive lev :=
| EvStart (d : nat)      (* process d is started (exec) *)
| EvStep (d : nat)       (* its main goroutine performs its next step; the last one is the process exit *)
| EvBg (d : nat)         (* one of its background goroutines writes the data path *)
| EvKill (d : nat).      (* SIGKILL *)

Definition lstep_ (life : list lstep) (w : world) (e : lev) : world :=
  match e with
  | EvStart d =>
      match procs w d with
      | None => mkW (upd (procs w) d (Some (mkP life false))) (owner w) (clash w)
      | Some _ => w
      end
  | EvKill d =>
      match procs w d with
      | Some _ => mkW (upd (procs w) d None) (release w d) (clash w)
      | None => w
      end
  | EvBg d =>
      match procs w d with
      | Some p => if bg p then mkW (procs w) (owner w) (clash w || negb (holds w d)) else w
      | None => w
      end
  | EvStep d =>
      match procs w d with
      | None => w
      | Some p =>
          match todo p with
          | [] => mkW (upd (procs w) d None) (release w d) (clash w)        (* exit: descriptors closed *)
          | (k, _) :: r =>
              let go b := upd (procs w) d (Some (mkP r b)) in
              match k with
              | LsFlock =>
                  match owner w with
                  | None => mkW (go (bg p)) (Some d) (clash w)
                  | Some _ => mkW (upd (procs w) d None) (owner w) (clash w)   (* EWOULDBLOCK: New fails, the process ends *)
                  end
              | LsTouch => mkW (go (bg p)) (owner w) (clash w || negb (holds w d))
              | LsSpawn => mkW (go true) (owner w) (clash w || negb (holds w d))
              | LsJoin => mkW (go false) (owner w) (clash w)
              | LsUnflock => mkW (go (bg p)) (release w d) (clash w || bg p)
              | LsOther => mkW (go (bg p)) (owner w) (clash w)
              end
          end
      end
  end.

Definition lstep_src : world -> lev -> world := lstep_ life_src.
Definition lrun_ (life : list lstep) (w : world) (evs : list lev) : world := fold_left (lstep_ life) evs w.
Definition lrun : world -> list lev -> world := lrun_ life_src.

(* ---------------------------------------------------------------- what the theorems talk about *)
Definition is_flock (s : lstep) : bool := match fst s with LsFlock => true | _ => false end.
Definition touchy (s : lstep) : bool := match fst s with LsTouch | LsSpawn => true | _ => false end.
(* process p has got past its flock and is not yet done with the path: it still has
   background goroutines, or steps ahead that read or write the path *)
Definition past (p : proc) : bool := negb (existsb is_flock (todo p)).
Definition needs (p : proc) : bool := bg p || existsb touchy (todo p).
Definition in_use (w : world) (d : nat) : Prop :=
  exists p, procs w d = Some p /\ past p = true /\ needs p = true.
(* process d is serving (its Main has been started) *)
Definition serving (w : world) (d : nat) : bool :=
  match procs w d with Some p => bg p | None => false end.

(* the static check the proofs reduce to: walking through the rest of a program, every step that
   concerns the path is made while the flock is held, and the flock is given up only when
   no background goroutine is left *)
Fixpoint ok_from (h b : bool) (l : list lstep) : bool :=
  match l with
  | [] => true
  | (k, _) :: r =>
      match k with
      | LsFlock => negb h && negb b && ok_from true b r
      | LsTouch => h && ok_from h b r
      | LsSpawn => h && ok_from h true r
      | LsJoin => ok_from h false r
      | LsUnflock => negb b && ok_from false false r
      | LsOther => ok_from h b r
      end
  end.
Definition life_ok (life : list lstep) : bool := ok_from false false life.

(* ---------------------------------------------------------------- driving the model for the judge *)
(* process d steps until the label of its next step is [stop] (or it is gone) *)
Fixpoint until_label (fuel : nat) (life : list lstep) (stop : string) (d : nat) (w : world) : world :=
  match fuel with
  | O => w
  | S f =>
      match procs w d with
      | Some p =>
          match todo p with
          | (_, l) :: _ => if String.eqb l stop then w else until_label f life stop d (lstep_ life w (EvStep d))
          | [] => until_label f life stop d (lstep_ life w (EvStep d))
          end
      | None => w
      end
  end.
Fixpoint steps_of (life : list lstep) (n : nat) (d : nat) (w : world) : world :=
  match n with O => w | S k => steps_of life k d (lstep_ life w (EvStep d)) end.

(* where the harness holds the first daemon (process 0) when it starts the second (process 1) *)
Definition lbl_boot_persist : string := "start:PersistMetadata".   (* inside the start-up persist *)
Definition lbl_signal : string := "signal".                        (* serving *)
Definition lbl_topics_closed : string := "point:exit:topics-closed". (* Exit parked at the verif hook *)
Definition lbl_wait : string := "n.waitGroup.Wait".                (* Exit waits for the goroutines *)
Definition lfuel : nat := 64.
Definition first_until (l : string) : world :=
  until_label lfuel life_src l 0 (lstep_src linit (EvStart 0)).
Definition first_gone : world :=
  steps_of life_src (S (List.length life_src)) 0 (lstep_src linit (EvStart 0)).
(* the second daemon runs as far as it gets: does it come to serve? *)
Definition second_serves (w : world) : bool :=
  serving (until_label lfuel life_src lbl_signal 1 (lstep_src w (EvStart 1))) 1.
Definition path_in_use (w : world) : bool :=
  match procs w 0 with Some p => past p && needs p | None => false end.
