(* Model of nsqlookupd's registry (C14, C15): nsqlookupd/registration_db.go, the effects
   of the V1 TCP handlers of nsqlookupd/lookup_protocol_v1.go (PING / IDENTIFY /
   REGISTER / UNREGISTER / the IOLoop exit path) and the HTTP handlers of
   nsqlookupd/http.go.  Time is explicit ([now], nanoseconds as Z); "time passes" is
   the op [Advance d].

   Go's map[Registration]ProducerMap is an association list; Go's map iteration order is
   arbitrary, so every list-valued answer is to be read as a (multi)set: theorems speak
   about membership, the judge compares sorted/multiset views.  The only places where the
   iteration order changes the *content* of an answer is FindProducers with a wildcard
   key, reachable only through /lookup with the wildcard as topic (the admin handlers
   refuse an invalid topic name since the fix commit 109669a): there the model exhibits
   one enabled behaviour (first registration in list order wins).

   Pointers: a Go Producer holds a *PeerInfo shared by all registrations of one
   connection; here a producer holds the connection id and the PeerInfo objects live in
   [peers] (id -> lastUpdate, info).  A connection that has not IDENTIFYed has no
   PeerInfo (client.peerInfo == nil) and is absent from [peers].
   No proofs here. *)
From Coq Require Import List NArith ZArith Bool.
From NSQV Require Import model.Judge model.Names.
Import ListNotations.
Open Scope bool_scope.
Open Scope Z_scope.

Definition name := bytes.
Definition peer := N.

Inductive cat := CClient | CTopic | CChannel.
Record reg := mkReg { r_cat : cat; r_key : name; r_sub : name }.

(* the fields of PeerInfo that nsqlookupd itself looks at *)
Record pinfo := mkInfo {
  pi_baddr : bytes;      (* broadcast_address *)
  pi_tcp : Z;            (* tcp_port *)
  pi_http : Z;           (* http_port *)
  pi_version : bytes     (* version *)
}.

Record client := mkClient { c_last : Z; c_info : pinfo }.
Record producer := mkProd { p_id : peer; p_tomb : bool; p_at : Z }.

Definition dbmap := list (reg * list producer).
Record state := mkState { now : Z; peers : list (peer * client); db : dbmap }.

Definition init : state := mkState 0 [] [].

(* ------------------------------------------------------------------ keys *)
Definition star : name := [42%N].
Definition is_star (n : name) : bool := bytes_eqb n star.

Definition cat_eqb (a b : cat) : bool :=
  match a, b with
  | CClient, CClient | CTopic, CTopic | CChannel, CChannel => true
  | _, _ => false
  end.
Definition reg_eqb (a b : reg) : bool :=
  cat_eqb (r_cat a) (r_cat b) && bytes_eqb (r_key a) (r_key b) && bytes_eqb (r_sub a) (r_sub b).

Definition client_key : reg := mkReg CClient [] [].
Definition topic_key (t : name) : reg := mkReg CTopic t [].
Definition chan_key (t c : name) : reg := mkReg CChannel t c.

(* Registration.IsMatch *)
Definition is_match (c : cat) (key sub : name) (k : reg) : bool :=
  cat_eqb c (r_cat k)
  && (is_star key || bytes_eqb (r_key k) key)
  && (is_star sub || bytes_eqb (r_sub k) sub).

Definition need_filter (key sub : name) : bool := is_star key || is_star sub.

(* ------------------------------------------------------------------ RegistrationDB *)
Fixpoint get (k : reg) (m : dbmap) : option (list producer) :=
  match m with
  | [] => None
  | (k', ps) :: r => if reg_eqb k' k then Some ps else get k r
  end.
Definition has_key (k : reg) (m : dbmap) : bool :=
  match get k m with Some _ => true | None => false end.

(* replace the producer list stored under k *)
Fixpoint upd (k : reg) (f : list producer -> list producer) (m : dbmap) : dbmap :=
  match m with
  | [] => []
  | (k', ps) :: r => if reg_eqb k' k then (k', f ps) :: r else (k', ps) :: upd k f r
  end.

Definition has_prod (id : peer) (ps : list producer) : bool :=
  existsb (fun pr => N.eqb (p_id pr) id) ps.
Definition drop_prod (id : peer) (ps : list producer) : list producer :=
  filter (fun pr => negb (N.eqb (p_id pr) id)) ps.

(* AddRegistration *)
Definition add_registration (k : reg) (m : dbmap) : dbmap :=
  if has_key k m then m else m ++ [(k, [])].

(* AddProducer: returns the new map and "added" *)
Definition add_producer (k : reg) (pr : producer) (m : dbmap) : dbmap * bool :=
  match get k m with
  | None => (m ++ [(k, [pr])], true)
  | Some ps =>
      if has_prod (p_id pr) ps then (m, false)
      else (upd k (fun ps => ps ++ [pr]) m, true)
  end.

(* RemoveProducer: (map, removed, left) *)
Definition remove_producer (k : reg) (id : peer) (m : dbmap) : dbmap * bool * nat :=
  match get k m with
  | None => (m, false, O)
  | Some ps => (upd k (drop_prod id) m, has_prod id ps, length (drop_prod id ps))
  end.

(* RemoveRegistration *)
Definition remove_registration (k : reg) (m : dbmap) : dbmap :=
  filter (fun e => negb (reg_eqb (fst e) k)) m.

(* FindRegistrations *)
Definition find_registrations (c : cat) (key sub : name) (m : dbmap) : list reg :=
  if need_filter key sub then filter (is_match c key sub) (map fst m)
  else let k := mkReg c key sub in if has_key k m then [k] else [].

(* FindProducers, together with the registration each producer object lives in (the Go
   code returns pointers to the stored Producer objects; doTombstoneTopicProducer
   mutates through them) *)
Fixpoint dedup_by_id (seen : list peer) (l : list (reg * producer)) : list (reg * producer) :=
  match l with
  | [] => []
  | (k, pr) :: r =>
      if existsb (N.eqb (p_id pr)) seen then dedup_by_id seen r
      else (k, pr) :: dedup_by_id (p_id pr :: seen) r
  end.
Definition find_producers_k (c : cat) (key sub : name) (m : dbmap) : list (reg * producer) :=
  if need_filter key sub then
    dedup_by_id []
      (flat_map (fun e => map (fun pr => (fst e, pr)) (snd e))
                (filter (fun e => is_match c key sub (fst e)) m))
  else
    let k := mkReg c key sub in
    match get k m with Some ps => map (fun pr => (k, pr)) ps | None => [] end.
Definition find_producers (c : cat) (key sub : name) (m : dbmap) : list producer :=
  map snd (find_producers_k c key sub m).

(* LookupRegistrations *)
Definition lookup_registrations (id : peer) (m : dbmap) : list reg :=
  map fst (filter (fun e => has_prod id (snd e)) m).

(* Registrations.Filter / Keys / SubKeys *)
Definition filter_regs (c : cat) (key sub : name) (l : list reg) : list reg :=
  filter (is_match c key sub) l.
Definition keys (l : list reg) : list name := map r_key l.
Definition subkeys (l : list reg) : list name := map r_sub l.

(* ------------------------------------------------------------------ peers *)
Fixpoint find_peer (id : peer) (l : list (peer * client)) : option client :=
  match l with
  | [] => None
  | (q, c) :: r => if N.eqb q id then Some c else find_peer id r
  end.
Definition is_node (s : state) (id : peer) : bool :=
  match find_peer id (peers s) with Some _ => true | None => false end.
Definition set_last (id : peer) (t : Z) (l : list (peer * client)) : list (peer * client) :=
  map (fun e => if N.eqb (fst e) id then (fst e, mkClient t (c_info (snd e))) else e) l.
Definition drop_peer (id : peer) (l : list (peer * client)) : list (peer * client) :=
  filter (fun e => negb (N.eqb (fst e) id)) l.

(* Producer.IsTombstoned(lifetime) at time [t] *)
Definition is_tombstoned (lifetime t : Z) (pr : producer) : bool :=
  p_tomb pr && (t - p_at pr <? lifetime).

(* Producers.FilterByActive(inactivityTimeout, tombstoneLifetime) *)
Definition active (inactive lifetime : Z) (s : state) (pr : producer) : bool :=
  match find_peer (p_id pr) (peers s) with
  | Some c => negb ((now s - c_last c >? inactive) || is_tombstoned lifetime (now s) pr)
  | None => false     (* a producer always points at a PeerInfo; unreachable, see wf *)
  end.
Definition filter_by_active (inactive lifetime : Z) (s : state) (ps : list producer) : list producer :=
  filter (active inactive lifetime s) ps.

(* ------------------------------------------------------------------ TCP handlers *)
Inductive code := E_INVALID | E_BAD_TOPIC | E_BAD_CHANNEL | E_BAD_BODY.
Inductive resp := ROk | RIdentified | RErr (c : code).

(* IOLoop exit path: every registration of the client is removed (keys stay) *)
Definition disconnect_db (id : peer) (m : dbmap) : dbmap :=
  fold_left (fun m r => fst (fst (remove_producer r id m))) (lookup_registrations id m) m.
Definition disconnect (s : state) (p : peer) : state :=
  if is_node s p then mkState (now s) (drop_peer p (peers s)) (disconnect_db p (db s))
  else s.

(* every error of this protocol is a FatalClientErr: answer, then leave the IOLoop *)
Definition fail (s : state) (p : peer) (c : code) : state * resp := (disconnect s p, RErr c).

Definition tcp_ping (s : state) (p : peer) : state * resp :=
  (if is_node s p then mkState (now s) (set_last p (now s) (peers s)) (db s) else s, ROk).

Definition nonempty (b : bytes) : bool := match b with [] => false | _ => true end.

Definition fields_missing (i : pinfo) : bool :=
  negb (nonempty (pi_baddr i)) || (pi_tcp i =? 0) || (pi_http i =? 0) || negb (nonempty (pi_version i)).

(* IDENTIFY, from the point where the body has been read and decoded *)
Definition tcp_identify (s : state) (p : peer) (i : pinfo) : state * resp :=
  if is_node s p then fail s p E_INVALID
  else if fields_missing i then fail s p E_BAD_BODY
  else
    let '(m, _) := add_producer client_key (mkProd p false 0) (db s) in
    (mkState (now s) (peers s ++ [(p, mkClient (now s) i)]) m, RIdentified).

(* getTopicChan on (params[0], params[1] or "") *)
Definition check_names (t c : name) : option code :=
  if negb (is_valid_name t) then Some E_BAD_TOPIC
  else if nonempty c && negb (is_valid_name c) then Some E_BAD_CHANNEL
  else None.

Definition tcp_register (s : state) (p : peer) (t c : name) : state * resp :=
  if negb (is_node s p) then fail s p E_INVALID
  else match check_names t c with
  | Some e => fail s p e
  | None =>
      let m1 := if nonempty c then fst (add_producer (chan_key t c) (mkProd p false 0) (db s)) else db s in
      let m2 := fst (add_producer (topic_key t) (mkProd p false 0) m1) in
      (mkState (now s) (peers s) m2, ROk)
  end.

Definition tcp_unregister (s : state) (p : peer) (t c : name) : state * resp :=
  if negb (is_node s p) then fail s p E_INVALID
  else match check_names t c with
  | Some e => fail s p e
  | None =>
      let m' :=
        if nonempty c then
          let k := chan_key t c in
          let '(m1, _, nleft) := remove_producer k p (db s) in
          if Nat.eqb nleft 0 && has_ephemeral_suffix c then remove_registration k m1 else m1
        else
          let m1 := fold_left (fun m r => fst (fst (remove_producer r p m)))
                              (find_registrations CChannel t star (db s)) (db s) in
          let k := topic_key t in
          let '(m2, _, nleft) := remove_producer k p m1 in
          if Nat.eqb nleft 0 && has_ephemeral_suffix t then remove_registration k m2 else m2 in
      (mkState (now s) (peers s) m', ROk)
  end.

(* ------------------------------------------------------------------ HTTP handlers *)
(* the parsed query: QBad = url.ParseQuery failed; an argument is None when the key is
   absent (Get returns the first value, possibly the empty string) *)
Inductive query := QBad | QArgs (topic channel node : option name).

Definition set_db (s : state) (m : dbmap) : state := mkState (now s) (peers s) m.

Definition remove_all (l : list reg) (m : dbmap) : dbmap :=
  fold_left (fun m r => remove_registration r m) l m.

(* GetTopicChannelArgs: Some (t,c) or the 400 *)
Definition topic_channel_args (topic channel : option name) : option (name * name) :=
  match topic with
  | None => None
  | Some t =>
      if negb (is_valid_name t) then None
      else match channel with
           | None => None
           | Some c => if negb (is_valid_name c) then None else Some (t, c)
           end
  end.

Definition h_create_topic (s : state) (q : query) : state * N :=
  match q with
  | QBad => (s, 400%N)
  | QArgs None _ _ => (s, 400%N)
  | QArgs (Some t) _ _ =>
      if negb (is_valid_name t) then (s, 400%N)
      else (set_db s (add_registration (topic_key t) (db s)), 200%N)
  end.

Definition h_delete_topic (s : state) (q : query) : state * N :=
  match q with
  | QBad => (s, 400%N)
  | QArgs None _ _ => (s, 400%N)
  | QArgs (Some t) _ _ =>
      if negb (is_valid_name t) then (s, 400%N)       (* since the fix: the wildcard is refused *)
      else
      let m1 := remove_all (find_registrations CChannel t star (db s)) (db s) in
      let m2 := remove_all (find_registrations CTopic t [] m1) m1 in
      (set_db s m2, 200%N)
  end.

Definition h_create_channel (s : state) (q : query) : state * N :=
  match q with
  | QBad => (s, 400%N)
  | QArgs topic channel _ =>
      match topic_channel_args topic channel with
      | None => (s, 400%N)
      | Some (t, c) =>
          (set_db s (add_registration (topic_key t) (add_registration (chan_key t c) (db s))), 200%N)
      end
  end.

Definition h_delete_channel (s : state) (q : query) : state * N :=
  match q with
  | QBad => (s, 400%N)
  | QArgs topic channel _ =>
      match topic_channel_args topic channel with
      | None => (s, 400%N)
      | Some (t, c) =>
          match find_registrations CChannel t c (db s) with
          | [] => (s, 404%N)
          | l => (set_db s (remove_all l (db s)), 200%N)
          end
      end
  end.

(* fmt.Sprintf("%s:%d", BroadcastAddress, HTTPPort) *)
Fixpoint dec_digits (fuel : nat) (n : N) (acc : bytes) : bytes :=
  match fuel with
  | O => acc
  | S f => let acc' := (48 + n mod 10)%N :: acc in
           if (n / 10 =? 0)%N then acc' else dec_digits f (n / 10)%N acc'
  end.
Definition dec_N (n : N) : bytes := dec_digits (S (N.size_nat n)) n [].
Definition dec_Z (z : Z) : bytes := if z <? 0 then 45%N :: dec_N (Z.abs_N z) else dec_N (Z.to_N z).
Definition node_of (i : pinfo) : bytes := pi_baddr i ++ [58%N] ++ dec_Z (pi_http i).

Definition node_matches (s : state) (node : bytes) (id : peer) : bool :=
  match find_peer id (peers s) with
  | Some c => bytes_eqb (node_of (c_info c)) node
  | None => false
  end.

(* Producer.Tombstone() on the stored object *)
Definition tombstone_in (k : reg) (id : peer) (t : Z) (m : dbmap) : dbmap :=
  upd k (map (fun pr => if N.eqb (p_id pr) id then mkProd (p_id pr) true t else pr)) m.

Definition h_tombstone (s : state) (q : query) : state * N :=
  match q with
  | QBad => (s, 400%N)
  | QArgs None _ _ => (s, 400%N)
  | QArgs (Some t) _ onode =>
      if negb (is_valid_name t) then (s, 400%N)       (* since the fix: the wildcard is refused *)
      else match onode with
      | None => (s, 400%N)
      | Some node =>
      let hits := filter (fun kp => node_matches s node (p_id (snd kp)))
                         (find_producers_k CTopic t [] (db s)) in
      (set_db s (fold_left (fun m kp => tombstone_in (fst kp) (p_id (snd kp)) (now s) m) hits (db s)), 200%N)
      end
  end.

(* ------------------------------------------------------------------ queries *)
Definition q_topics (s : state) : list name :=
  keys (find_registrations CTopic star [] (db s)).

Definition q_channels (s : state) (t : name) : list name :=
  subkeys (find_registrations CChannel t star (db s)).

(* /lookup: None = 404 TOPIC_NOT_FOUND; Some (channels, producer ids) *)
Definition q_lookup (inactive lifetime : Z) (s : state) (t : name) : option (list name * list peer) :=
  match find_registrations CTopic t [] (db s) with
  | [] => None
  | _ => Some (q_channels s t,
               map p_id (filter_by_active inactive lifetime s (find_producers CTopic t [] (db s))))
  end.

(* /nodes: per active client its topics and, for each, the tombstone flag *)
Definition node_tombstone (lifetime : Z) (s : state) (id : peer) (t : name) : bool :=
  match find (fun pr => N.eqb (p_id pr) id) (find_producers CTopic t [] (db s)) with
  | Some pr => is_tombstoned lifetime (now s) pr
  | None => false
  end.
Definition q_nodes (inactive lifetime : Z) (s : state) : list (peer * list (name * bool)) :=
  map (fun pr =>
         let topics := keys (filter_regs CTopic star [] (lookup_registrations (p_id pr) (db s))) in
         (p_id pr, map (fun t => (t, node_tombstone lifetime s (p_id pr) t)) topics))
      (filter_by_active inactive 0 s (find_producers CClient [] [] (db s))).

(* /debug: every (registration, producer) pair with its raw tombstone flag *)
Definition q_debug (s : state) : list (reg * peer * bool) :=
  flat_map (fun e => map (fun pr => (fst e, p_id pr, p_tomb pr)) (snd e)) (db s).

(* ------------------------------------------------------------------ operations *)
Inductive op :=
| Identify (p : peer) (i : pinfo)
| Register (p : peer) (t c : name)        (* c = [] : no channel *)
| Unregister (p : peer) (t c : name)
| Ping (p : peer)
| Disconnect (p : peer)                   (* EOF, or any refused command line *)
| HCreateTopic (q : query)
| HDeleteTopic (q : query)
| HCreateChannel (q : query)
| HDeleteChannel (q : query)
| HTombstone (q : query)
| Advance (d : Z).

Inductive out := OResp (r : resp) | OStatus (n : N) | ONone.

Definition step (s : state) (o : op) : state * out :=
  match o with
  | Identify p i => let '(s', r) := tcp_identify s p i in (s', OResp r)
  | Register p t c => let '(s', r) := tcp_register s p t c in (s', OResp r)
  | Unregister p t c => let '(s', r) := tcp_unregister s p t c in (s', OResp r)
  | Ping p => let '(s', r) := tcp_ping s p in (s', OResp r)
  | Disconnect p => (disconnect s p, ONone)
  | HCreateTopic q => let '(s', n) := h_create_topic s q in (s', OStatus n)
  | HDeleteTopic q => let '(s', n) := h_delete_topic s q in (s', OStatus n)
  | HCreateChannel q => let '(s', n) := h_create_channel s q in (s', OStatus n)
  | HDeleteChannel q => let '(s', n) := h_delete_channel s q in (s', OStatus n)
  | HTombstone q => let '(s', n) := h_tombstone s q in (s', OStatus n)
  | Advance d => (mkState (now s + d) (peers s) (db s), ONone)
  end.

Definition run (s : state) (h : list op) : state := fold_left (fun s o => fst (step s o)) h s.
