(* C15: "invalid names are refused" as a statement about the registry: every key of the
   registration map carries names that pass the name rule of internal/protocol/names.go
   (model/Names.v): a topic key a valid topic, a channel key a valid topic and a valid
   channel; the client key carries none.  [view_names_ok]-style checks of the judge use
   [key_ok] on what the daemon's own HTTP views list.
   No proofs here. *)
From Coq Require Import List NArith Bool.
From NSQV Require Import model.Judge model.Names model.Lookupd.
Import ListNotations.
Open Scope bool_scope.

Definition key_ok (k : reg) : bool :=
  match r_cat k with
  | CClient => true
  | CTopic => is_valid_name (r_key k)
  | CChannel => is_valid_name (r_key k) && is_valid_name (r_sub k)
  end.

Definition db_names_ok (m : dbmap) : bool := forallb (fun e => key_ok (fst e)) m.
Definition names_ok (s : state) : bool := db_names_ok (db s).
