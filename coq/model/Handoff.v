(* The lock protocol that keeps a message from falling between two structures while the
   structure's owner is being closed (graceful Exit) or emptied.

   nsqd moves a message from one place to another in two steps with the message "in the hand"
   of a goroutine in between: REQ and the two timeout scans pop it from the in-flight /
   deferred set and put it on the channel's queue; a publish takes it from the request and
   puts it on the topic's memory queue.  The closer (Topic.exit, Channel.exit) writes what
   the structures hold to disk.  What keeps the two apart is a RWMutex and a flag:

     mover:   RLock; if flag { RUnlock; refuse }; [pop;] put; RUnlock; [acknowledge]
     closer:  some order of  set flag / Lock / flush / Unlock

   This file is the executable model: any number of movers, one closer, one step of one
   thread at a time, under ANY schedule.  proofs/HandoffProofs.v proves that with the write
   lock nothing a mover touched is missed by the flush, and exhibits the losing schedule for
   a closer that takes only the read lock (F20, before its repair) and for a mover that takes
   no lock at all (K3: the consumer pump). *)
From Coq Require Import List Bool Arith.
Import ListNotations.

Inductive lockmode := RMode | WMode.
Inductive finstr := FSetFlag | FLock (m : lockmode) | FUnlock (m : lockmode)
                  | FFlush      (* write what the structures hold to disk: the closer's last look at them *)
                  | FDiscard.   (* drop what the structures hold (Channel.Empty); the structure lives on *)

Inductive kind := Publish    (* the message comes from outside; acknowledged after the put *)
                | Move       (* the message is popped from a structure the closer flushes *)
                | Bare.      (* a Move without the lock and without the check *)

Inductive loc := Outside | InSrc | InHand | InDst | Flushed.

Inductive mstate :=
| MS0        (* not started *)
| MS1        (* holds the read lock, flag not yet looked at *)
| MS2        (* saw the flag clear *)
| MS3        (* has the message in hand *)
| MS4        (* has put it; still holds the read lock *)
| MS5        (* released the lock; about to acknowledge *)
| MSdone     (* acknowledged (Publish) / finished (Move) *)
| MSref1     (* refused (flag set, or nothing to pop); still holds the read lock *)
| MSref.     (* refused; done *)

Record mover := mkMover { m_kind : kind; m_st : mstate; m_loc : loc }.

Definition holds (m : mover) : bool :=
  match m_kind m, m_st m with
  | Bare, _ => false
  | _, (MS1 | MS2 | MS3 | MS4 | MSref1) => true
  | _, _ => false
  end.

Definition start_loc (k : kind) : loc := match k with Publish => Outside | _ => InSrc end.
Definition new_mover (k : kind) : mover := mkMover k MS0 (start_loc k).

Record state := mkState {
  movers : list mover;
  flag : bool;
  fw : bool;            (* the closer holds the write lock *)
  fr : bool;            (* the closer holds a read lock *)
  rest : list finstr;   (* what the closer still has to do *)
  sealed : bool;        (* ghost: the flag was set and the write lock held at the same time *)
  flushdone : bool;
  missed : bool }.      (* ghost: a flush or a discard ran while some mover had a message in its hand *)

Definition init (ks : list kind) (prog : list finstr) : state :=
  mkState (map new_mover ks) false false false prog false false false.

(* one step of a mover; None = not enabled / nothing left to do *)
Definition mstep (fl w : bool) (m : mover) : option mover :=
  match m_kind m with
  | Bare =>
      match m_st m with
      | MS0 => if match m_loc m with InSrc => true | _ => false end
               then Some (mkMover Bare MS3 InHand) else Some (mkMover Bare MSref (m_loc m))
      | MS3 => Some (mkMover Bare MSdone InDst)
      | _ => None
      end
  | k =>
      match m_st m with
      | MS0 => if w then None else Some (mkMover k MS1 (m_loc m))
      | MS1 => if fl then Some (mkMover k MSref1 (m_loc m)) else Some (mkMover k MS2 (m_loc m))
      | MS2 => match k, m_loc m with
               | Publish, _ => Some (mkMover k MS4 InDst)             (* no pop: straight to the put *)
               | _, InSrc => Some (mkMover k MS3 InHand)
               | _, _ => Some (mkMover k MSref1 (m_loc m))             (* nothing to pop *)
               end
      | MS3 => Some (mkMover k MS4 InDst)
      | MS4 => Some (mkMover k MS5 (m_loc m))
      | MS5 => Some (mkMover k MSdone (m_loc m))
      | MSref1 => Some (mkMover k MSref (m_loc m))
      | MSdone | MSref => None
      end
  end.

Fixpoint upd {A} (i : nat) (f : A -> A) (l : list A) : list A :=
  match l, i with
  | [], _ => []
  | x :: r, O => f x :: r
  | x :: r, S j => x :: upd j f r
  end.

Definition flush_mover (m : mover) : mover :=
  match m_loc m with
  | InSrc | InDst => mkMover (m_kind m) (m_st m) Flushed
  | _ => m
  end.

Definition in_hand (m : mover) : bool := match m_loc m with InHand => true | _ => false end.

Definition fstep (st : state) : state :=
  match rest st with
  | [] => st
  | FSetFlag :: r =>
      mkState (movers st) true (fw st) (fr st) r (sealed st || fw st) (flushdone st) (missed st)
  | FLock WMode :: r =>
      if forallb (fun m => negb (holds m)) (movers st) && negb (fr st) && negb (fw st)
      then mkState (movers st) (flag st) true (fr st) r (sealed st || flag st) (flushdone st) (missed st)
      else st
  | FLock RMode :: r =>
      if fw st then st else mkState (movers st) (flag st) (fw st) true r (sealed st) (flushdone st) (missed st)
  | FUnlock WMode :: r => mkState (movers st) (flag st) false (fr st) r (sealed st) (flushdone st) (missed st)
  | FUnlock RMode :: r => mkState (movers st) (flag st) (fw st) false r (sealed st) (flushdone st) (missed st)
  | FFlush :: r =>
      mkState (map flush_mover (movers st)) (flag st) (fw st) (fr st) r (sealed st) true
              (missed st || existsb in_hand (movers st))
  | FDiscard :: r =>
      mkState (map flush_mover (movers st)) (flag st) (fw st) (fr st) r (sealed st) (flushdone st)
              (missed st || existsb in_hand (movers st))
  end.

(* who moves: None = the closer, Some i = mover i.  A thread that is not enabled (or does
   not exist) leaves the state as it is. *)
Definition step (st : state) (who : option nat) : state :=
  match who with
  | None => fstep st
  | Some i =>
      match nth_error (movers st) i with
      | Some m => match mstep (flag st) (fw st) m with
                  | Some m' => mkState (upd i (fun _ => m') (movers st)) (flag st) (fw st) (fr st) (rest st) (sealed st) (flushdone st) (missed st)
                  | None => st
                  end
      | None => st
      end
  end.

Definition run (st : state) (sched : list (option nat)) : state := fold_left step sched st.

(* the closer's programs, as the source has them (proofs/HandoffSrc.v ties them to the
   generated statement skeletons) *)
Definition topic_exit_prog (m : lockmode) : list finstr := [FSetFlag; FLock m; FUnlock m; FFlush].
Definition channel_exit_prog (m : lockmode) : list finstr := [FLock m; FSetFlag; FFlush; FUnlock m].
Definition channel_empty_prog (m : lockmode) : list finstr := [FLock m; FDiscard; FUnlock m].

(* a closer's program is in order when it flushes only after the flag and the write lock
   have been in force together, discards only under the write lock or after that moment, and only unlocks what it holds *)
Fixpoint ok_rest (r : list finstr) (fl w rd sl : bool) : bool :=
  match r with
  | [] => true
  | FSetFlag :: r => ok_rest r true w rd (sl || w)
  | FLock WMode :: r => negb w && negb rd && ok_rest r fl true rd (sl || fl)
  | FLock RMode :: r => negb w && negb rd && ok_rest r fl w true sl
  | FUnlock WMode :: r => w && ok_rest r fl false rd sl
  | FUnlock RMode :: r => rd && ok_rest r fl w false sl
  | FFlush :: r => sl && ok_rest r fl w rd sl
  | FDiscard :: r => (sl || w) && ok_rest r fl w rd sl
  end.
Definition ok_prog (p : list finstr) : bool := ok_rest p false false false false.

(* what "lost" means: the closer has flushed, and a message that was handed over (moved, or
   published and acknowledged) is not among what it wrote *)
Definition lost (st : state) (m : mover) : bool :=
  flushdone st &&
  match m_kind m with
  | Publish => match m_st m, m_loc m with MSdone, Flushed => false | MSdone, _ => true | _, _ => false end
  | _ => match m_loc m with Flushed => false | _ => true end
  end.
