(* The consumer's in-flight count against the channel's in-flight set, step by step (F23).

   nsqd keeps, per consumer, an atomic count of the messages it holds; the channel keeps the
   in-flight set under inFlightMutex.  The two are updated in SEPARATE steps:

     delivery:            insert into the set | count + 1
     FIN / REQ / timeout: pop from the set (one critical section; fails if it is not there) |
                          if it was there: count - 1
     Channel.Empty:       take the whole set (one critical section) | for each message taken:
                          count - 1                      (since 72b06c9)
                          ... | count := 0                (before)

   One consumer, any number of such threads, any schedule.  The rule that makes the count
   come out right is: whoever REMOVES a message from the set takes it off the count. *)
From Coq Require Import List Bool ZArith Lia.
Import ListNotations.
Open Scope Z_scope.

Inductive thread :=
| Deliver (m : nat) (pc : nat)            (* pc 0: insert; 1: count+1; 2: done *)
| Remove (m : nat) (pc : nat)             (* pc 0: pop; 1: count-1 (it popped); 2: done *)
| EmptyT (zeroing : bool) (pc : nat) (taken : list nat).  (* pc 0: take all; 1: release; 2: done *)

Record st := mkSt { inflight : list nat; count : Z; threads : list thread }.

Fixpoint remove_one (m : nat) (l : list nat) : option (list nat) :=
  match l with
  | [] => None
  | x :: r => if Nat.eqb x m then Some r
              else match remove_one m r with Some r' => Some (x :: r') | None => None end
  end.

Definition tstep (s : list nat) (c : Z) (t : thread) : list nat * Z * thread :=
  match t with
  | Deliver m 0 => (m :: s, c, Deliver m 1)
  | Deliver m 1 => (s, c + 1, Deliver m 2)
  | Remove m 0 => match remove_one m s with
                  | Some s' => (s', c, Remove m 1)
                  | None => (s, c, Remove m 2)
                  end
  | Remove m 1 => (s, c - 1, Remove m 2)
  | EmptyT z 0 _ => ([], c, EmptyT z 1 s)
  | EmptyT true 1 _ => (s, 0, EmptyT true 2 [])
  | EmptyT false 1 [] => (s, c, EmptyT false 2 [])
  | EmptyT false 1 (_ :: r) => (s, c - 1, EmptyT false 1 r)
  | t => (s, c, t)
  end.

Fixpoint upd {A} (i : nat) (x : A) (l : list A) : list A :=
  match l, i with
  | [], _ => []
  | _ :: r, O => x :: r
  | y :: r, S j => y :: upd j x r
  end.

Definition step (x : st) (i : nat) : st :=
  match nth_error (threads x) i with
  | Some t => let '(s, c, t') := tstep (inflight x) (count x) t in mkSt s c (upd i t' (threads x))
  | None => x
  end.
Definition run (x : st) (sched : list nat) : st := fold_left step sched x.

Definition finished (t : thread) : bool :=
  match t with Deliver _ 2 | Remove _ 2 | EmptyT _ 2 _ => true | _ => false end.
Definition init (ts : list thread) : st := mkSt [] 0 ts.

(* what a thread still owes the count *)
Definition owes (t : thread) : Z :=
  match t with
  | Deliver _ 1 => 1                     (* inserted, not yet counted *)
  | Remove _ 1 => -1                     (* popped, not yet taken off *)
  | EmptyT false 1 l => - Z.of_nat (length l)
  | _ => 0
  end.
Definition fresh (t : thread) : bool :=
  match t with Deliver _ 0 | Remove _ 0 | EmptyT _ 0 _ => true | _ => false end.
Definition no_zeroing (t : thread) : bool := match t with EmptyT true _ _ => false | _ => true end.
