(* Model of apps/nsq_to_file/file_logger.go (C19): router loop, needsRotation,
   updateFile, Sync, Close, Write, the file name computation, composed with the
   file-operation model of FileOS.v.  Every file operation the Go code performs is
   emitted as an [op] (and applied to the modelled file system) in program order, so
   "a stop at any instant" is "any prefix of the emitted trace".

   Go code followed (file_logger.go):
     router       one event per call of [step]; the [sync]/[closeFile]/[exit] flags
                  are the locals of the loop body
     HandleMessage  DisableAutoResponse: the only FIN is the one in router after Sync
     Write        gzip: bytes go to the gzip writer (process memory, not decompressible
                  until the member is closed); plain: write(2); filesize += n
     Sync         gzip: gzipWriter.Close (member complete), fsync, new gzip writer;
                  plain: fsync
     Close        nil check; gzip close; fsync; close; work-dir != output-dir: link-based
                  exclusive rename, rev bump from f.rev+1 on EEXIST; *returns without
                  clearing f.out after a successful first rename* (handle stays, stale)
     updateFile   Close; filename/rev/openTime; loop: output-dir Stat check, exclusive
                  create (gzip or rotate-interval) or append, size check
   Failing system calls: the configuration carries a fault schedule [fault_at w n] = "the
   n-th call of kind w made by the logger fails" (w: write of a message, write inside
   gzipWriter.Close, fsync, close, link, unlink, open; n counts from 1 over the whole run, the
   counters are the [cnt] field of the state), and [wpartial n] = how many bytes of the line
   the n-th message write put into the file before it failed.  Every such error is fatal in
   the Go code (router: Write / Sync error -> FATAL, os.Exit(1); Close and updateFile exit
   themselves): the model emits [OFail] and [OExit 1] and stops.  The theorems quantify over
   all configurations, hence over all fault schedules.
   Simplifications: body and newline are one write (a failure after the body is a partial
   write of the line); mkdir/stat errors are not modelled; <REV> is assumed to be in the base
   name.  The clock is an argument of the event (one reading per event).
   There is no Kill event: a SIGKILL / power loss at any instant is "stop after any prefix
   of the emitted trace, then FileOS.crash" (the theorems quantify over all prefixes), which
   also covers instants inside an event (between two system calls).  No proofs here. *)
From Coq Require Import List ZArith NArith Bool.
From NSQV Require Import model.Judge model.FileOS.
Import ListNotations.
Open Scope bool_scope.
Open Scope Z_scope.

(* ---------- byte-string helpers (strings.Replace, fmt "-%06d") ---------- *)
Fixpoint replace_go (pat rep s : bytes) (skip : nat) : bytes :=
  match s with
  | [] => []
  | b :: r =>
      match skip with
      | S k => replace_go pat rep r k
      | O => if prefixb pat s then rep ++ replace_go pat rep r (length pat - 1)
             else b :: replace_go pat rep r 0
      end
  end.
(* strings.Replace(s, pat, rep, -1) for a non-empty pat *)
Definition replace_all (pat rep s : bytes) : bytes := replace_go pat rep s 0.

Fixpoint dec_digits (fuel : nat) (n : N) (acc : bytes) : bytes :=
  match fuel with
  | O => acc
  | S f =>
      let d := (48 + N.modulo n 10)%N in
      if N.ltb n 10 then d :: acc else dec_digits f (N.div n 10) (d :: acc)
  end.
Definition dec (n : N) : bytes := dec_digits (S (N.size_nat n)) n [].
Definition pad6 (b : bytes) : bytes := repeat 48%N (6 - length b) ++ b.
Definition fmt_rev (n : N) : bytes := 45%N :: pad6 (dec n).            (* "-%06d" *)

Definition REV : bytes := [60;82;69;86;62]%N.                           (* "<REV>" *)
Definition DATETIME : bytes := [60;68;65;84;69;84;73;77;69;62]%N.        (* "<DATETIME>" *)

(* ---------- configuration ---------- *)
Record cfg := mkCfg {
  gzip : bool;
  rotate_size : Z;
  rotate_interval : Z;              (* ns *)
  use_work : bool;                  (* opts.WorkDir != opts.OutputDir *)
  skip_empty : bool;
  max_in_flight : nat;              (* cap(output) *)
  fname_fmt : bytes;                (* f.filenameFormat, see compute_fname_fmt *)
  dt_of : Z -> bytes;               (* strftime(opts.DatetimeFormat, clock reading) *)
  fault_at : fkind -> N -> bool;    (* the n-th (from 1) system call of that kind fails *)
  wpartial : N -> nat               (* bytes of the line written before the n-th message write failed *)
}.

Definition wdir (c : cfg) : dirT := if use_work c then DWork else DOut.
Definition excl_mode (c : cfg) : bool := gzip c || (0 <? rotate_interval c).

(* computeFilenameFormat (hostname/identifier and pid passed in) *)
Definition TOPIC : bytes := [60;84;79;80;73;67;62]%N.
Definition HOST : bytes := [60;72;79;83;84;62]%N.
Definition PID : bytes := [60;80;73;68;62]%N.
Definition GZ : bytes := [46;103;122]%N.
Definition has_infix (p s : bytes) : bool := infixb p s.
Definition has_suffix (p s : bytes) : bool := prefixb (rev p) (rev s).

Definition compute_fname_fmt (gz : bool) (rsize rint : Z) (work : bool)
           (fmt topic ident pid : bytes) : option bytes :=
  let need := gz || (0 <? rsize) || (0 <? rint) || work in
  if need && negb (has_infix REV fmt) then None
  else
    let c0 := if need then fmt else replace_all REV [] fmt in
    let c1 := replace_all TOPIC topic c0 in
    let c2 := replace_all HOST ident c1 in
    let c3 := replace_all PID pid c2 in
    Some (if gz && negb (has_suffix GZ c3) then c3 ++ GZ else c3).

(* ---------- logger state ---------- *)
Inductive hstate := HNone | HOpen (k : key) | HStale (k : key).
Inductive status := Running | Exited | Fatal | Panicked | Hung.

Record st := mkSt {
  fs : fsT;
  rtrace : list op;                 (* emitted operations, newest first *)
  out : hstate;                     (* f.out: nil / open / closed but still referenced *)
  gzbuf : list chunk;               (* bytes inside the open gzip member *)
  pending : list msg;               (* output[0..pos) *)
  finished : list msg;              (* newest first *)
  filename : bytes;                 (* f.filename (still contains <REV>) *)
  rev_ : N;
  open_time : Z;
  size : Z;                         (* f.filesize *)
  status_ : status;
  cnt : fkind -> N                  (* system calls of each kind made so far (fault schedule position) *)
}.

Definition init (fs0 : fsT) : st :=
  mkSt fs0 [] HNone [] [] [] [] 0%N 0 0 Running (fun _ => 0%N).

Definition emit (s : st) (o : op) : st :=
  mkSt (apply_op (fs s) o) (o :: rtrace s) (out s) (gzbuf s) (pending s)
       (match o with OFin m => m :: finished s | _ => finished s end)
       (filename s) (rev_ s) (open_time s) (size s) (status_ s) (cnt s).

Definition set_out (s : st) (h : hstate) : st :=
  mkSt (fs s) (rtrace s) h (gzbuf s) (pending s) (finished s) (filename s) (rev_ s) (open_time s) (size s) (status_ s) (cnt s).
Definition set_gzbuf (s : st) (g : list chunk) : st :=
  mkSt (fs s) (rtrace s) (out s) g (pending s) (finished s) (filename s) (rev_ s) (open_time s) (size s) (status_ s) (cnt s).
Definition set_pending (s : st) (p : list msg) : st :=
  mkSt (fs s) (rtrace s) (out s) (gzbuf s) p (finished s) (filename s) (rev_ s) (open_time s) (size s) (status_ s) (cnt s).
Definition set_name (s : st) (fn : bytes) (r : N) (t : Z) : st :=
  mkSt (fs s) (rtrace s) (out s) (gzbuf s) (pending s) (finished s) fn r t (size s) (status_ s) (cnt s).
Definition set_rev (s : st) (r : N) : st :=
  mkSt (fs s) (rtrace s) (out s) (gzbuf s) (pending s) (finished s) (filename s) r (open_time s) (size s) (status_ s) (cnt s).
Definition set_size (s : st) (z : Z) : st :=
  mkSt (fs s) (rtrace s) (out s) (gzbuf s) (pending s) (finished s) (filename s) (rev_ s) (open_time s) z (status_ s) (cnt s).
Definition set_status (s : st) (x : status) : st :=
  mkSt (fs s) (rtrace s) (out s) (gzbuf s) (pending s) (finished s) (filename s) (rev_ s) (open_time s) (size s) x (cnt s).
(* one more system call of kind w *)
Definition bump (s : st) (w : fkind) : st :=
  mkSt (fs s) (rtrace s) (out s) (gzbuf s) (pending s) (finished s) (filename s) (rev_ s) (open_time s) (size s) (status_ s)
       (fun w' => if fkind_eqb w w' then N.succ (cnt s w) else cnt s w').

(* logf(FATAL) ; os.Exit(1) *)
Definition fatal (s : st) : st := set_status (emit s (OExit 1)) Fatal.

Definition running (s : st) : bool := match status_ s with Running => true | _ => false end.

(* ---------- failing system calls ---------- *)
(* does the next call of kind w fail? *)
Definition faulty (c : cfg) (s : st) (w : fkind) : bool := fault_at c w (N.succ (cnt s w)).

(* it fails: no effect on the files; every caller logs FATAL and exits with status 1 *)
Definition fail_at (s : st) (w : fkind) (k : key) : st := fatal (emit (bump s w) (OFail (sys_of w) k)).

(* ---------- file names ---------- *)
Definition cur_filename (c : cfg) (t : Z) : bytes := replace_all DATETIME (dt_of c t) (fname_fmt c).
Definition with_rev (tmpl : bytes) (r : N) : bytes := replace_all REV (fmt_rev r) tmpl.

(* ---------- Sync ---------- *)
Definition gz_close (s : st) (k : key) : st := set_gzbuf (emit s (OMember k (gzbuf s))) [].

(* (gzip: gzipWriter.Close()) ; f.out.Sync() -- the common part of Sync and Close.  An error
   of either is fatal: Sync returns it and router exits, Close exits itself.  (After a failed
   gzipWriter.Close the member is incomplete: nothing decompressible was added.) *)
Definition flush (c : cfg) (s : st) (k : key) : st :=
  let s1 := if gzip c then
              (if faulty c s FGzClose then fail_at s FGzClose k else gz_close (bump s FGzClose) k)
            else s in
  if negb (running s1) then s1
  else if faulty c s1 FFsync then fail_at s1 FFsync k
  else emit (bump s1 FFsync) (OFsync k).

Definition sync_file (c : cfg) (s : st) : st :=
  match out s with
  | HOpen k => flush c s k
  | _ => fatal s                      (* fsync of a nil or closed *os.File fails *)
  end.

(* for pos > 0 { pos--; output[pos].Finish() } *)
Definition fin_all (s : st) : st :=
  set_pending (fold_left (fun a m => emit a (OFin m)) (rev (pending s)) s) [].

Definition do_sync (c : cfg) (s : st) : st :=
  match pending s with
  | [] => s
  | _ => let s1 := sync_file c s in if running s1 then fin_all s1 else s1
  end.

(* ---------- Close ---------- *)
(* the rev-bump loop of Close: for i := f.rev+1; ; i++ { exclusiveRename(src, tmpl(i)) } *)
(* exclusiveRename(src, dst) when dst exists: link(2) says EEXIST (unless it fails otherwise) *)
Definition link_eexist (c : cfg) (s : st) (src dst : key) : st :=
  if faulty c s FLink then fail_at s FLink src else emit (bump s FLink) (OLink src dst false).

(* exclusiveRename(src, dst) when dst does not exist: link(2), then unlink(2) of src; Close
   exits on any error of either *)
Definition move (c : cfg) (s : st) (src dst : key) : st :=
  if faulty c s FLink then fail_at s FLink src
  else let s1 := emit (bump s FLink) (OLink src dst true) in
       if faulty c s1 FUnlink then fail_at s1 FUnlink src
       else emit (bump s1 FUnlink) (OUnlink src).

Fixpoint close_bump (fuel : nat) (c : cfg) (s : st) (src : key) (i : N) : st :=
  match fuel with
  | O => set_status s Hung
  | S f =>
      let dst := (DOut, with_rev (filename s) i) in
      if exists_ (fs s) dst then
        let s1 := link_eexist c s src dst in
        if running s1 then close_bump f c s1 src (N.succ i) else s1
      else set_out (move c s src dst) HNone        (* f.out = nil (of no interest after a fatal exit) *)
  end.

Definition close_file (c : cfg) (s : st) : st :=
  match out s with
  | HNone => s
  | HStale _ => fatal s               (* gzip Close is a no-op, then fsync of a closed file *)
  | HOpen k =>
      let s1 := flush c s k in
      if negb (running s1) then s1
      else if faulty c s1 FClose then fail_at s1 FClose k
      else
      let s2 := set_out (emit (bump s1 FClose) (OClose k)) (HStale k) in
      if use_work c then
        let dst := (DOut, snd k) in
        if exists_ (fs s2) dst then
          let s3 := link_eexist c s2 k dst in
          if running s3 then close_bump (S (length (fs s2))) c s3 k (N.succ (rev_ s2)) else s3
        else
          (* Close returns here without f.out = nil: the handle stays, closed *)
          move c s2 k dst
      else set_out s2 HNone
  end.

(* ---------- updateFile ---------- *)
Fixpoint open_loop (fuel : nat) (c : cfg) (s : st) : st :=
  match fuel with
  | O => set_status s Hung
  | S f =>
      let name := with_rev (filename s) (rev_ s) in
      let next := set_rev s (N.succ (rev_ s)) in
      if use_work c && exists_ (fs s) (DOut, name) then open_loop f c next
      else
        let k := (wdir c, name) in
        let excl := excl_mode c in
        if faulty c s FOpen then fail_at s FOpen k       (* os.OpenFile: an error other than EEXIST *)
        else
        let s0 := bump s FOpen in
        if excl && exists_ (fs s) k then
          open_loop f c (set_rev (emit s0 (OCreate k excl (negb excl) false false)) (N.succ (rev_ s)))
        else
          let s1 := emit s0 (OCreate k excl (negb excl) false true) in
          let sz := match lookup (fs s1) k with Some fl => fsize fl | None => 0 end in
          let s2 := set_size (set_gzbuf (set_out s1 (HOpen k)) []) sz in
          if (0 <? rotate_size c) && (rotate_size c <? sz) then
            open_loop f c (set_rev s2 (N.succ (rev_ s)))
          else s2
  end.

Definition update_file (c : cfg) (s : st) (t : Z) : st :=
  let s1 := close_file c s in
  if running s1 then
    let fn := cur_filename c t in
    let r := if bytes_eqb fn (filename s1) then N.succ (rev_ s1) else 0%N in
    open_loop (S (S (length (fs s1)))) c (set_name s1 fn r t)
  else s1.

Definition needs_rotation (c : cfg) (s : st) (t : Z) : bool :=
  match out s with
  | HNone => true
  | _ =>
      if negb (bytes_eqb (cur_filename c t) (filename s)) then true
      else if (0 <? rotate_interval c) && (rotate_interval c <? t - open_time s) then true
      else (0 <? rotate_size c) && (rotate_size c <? size s)
  end.

(* ---------- Write ---------- *)
Definition write_msg (c : cfg) (s : st) (m : msg) : st :=
  match out s with
  | HOpen k =>
      if faulty c s FWrite then
        (* f.Write(m.Body) or f.Write("\n") returns an error.  Plain: a part of the line may be
           in the file (the body without the newline, or a short write); gzip: at most an
           incomplete member *)
        let part := firstn (wpartial c (N.succ (cnt s FWrite))) (snd (line m)) in
        fail_at (if gzip c then s else emit s (OWrite k (None, part))) FWrite k
      else
      let s0 := bump s FWrite in
      let s1 := if gzip c then set_gzbuf s0 (gzbuf s ++ [line m]) else emit s0 (OWrite k (line m)) in
      set_size s1 (size s + Z.of_nat (length (snd (line m))))
  | _ => fatal s                      (* write to a closed file / closed gzip writer *)
  end.

(* ---------- router ---------- *)
Inductive event :=
| Msg (m : msg) (t : Z) (starved : bool)   (* a message arrives; consumer.IsStarved() after it *)
| Tick (t : Z)
| Hup
| Term
| Stopped                                  (* consumer.StopChan closed *)
| External (k : key) (b : bytes).          (* another process exclusively creates, writes and
                                              fsyncs a file that does not exist yet *)

Definition external (s : st) (k : key) (b : bytes) : st :=
  if exists_ (fs s) k then emit s (OCreate k true false false false)
  else emit (emit (emit s (OCreate k true false false true)) (OWrite k (None, b))) (OFsync k).

Definition tail_ (c : cfg) (s : st) (sync closef exit_ : bool) : st :=
  let s1 := if sync then do_sync c s else s in
  if running s1 then
    let s2 := if closef then close_file c s1 else s1 in
    if running s2 then (if exit_ then set_status s2 Exited else s2) else s2
  else s1.

Definition step (c : cfg) (s : st) (e : event) : st :=
  match e with External k b => external s k b | _ =>
  if negb (running s) then s else
  match e with
  | External _ _ => s
  | Stopped => tail_ c s true true true
  | Term => tail_ c s true false false
  | Hup => tail_ c s true true false
  | Tick t =>
      if needs_rotation c s t then
        if skip_empty c then tail_ c s true true false
        else let s1 := update_file c s t in
             if running s1 then tail_ c s1 true false false else s1
      else tail_ c s true false false
  | Msg m t starved =>
      let rot := needs_rotation c s t in
      let s1 := if rot then update_file c s t else s in
      if negb (running s1) then s1 else
      let s2 := write_msg c s1 m in
      if negb (running s2) then s2 else
      if Nat.leb (max_in_flight c) (length (pending s2)) then set_status s2 Panicked  (* output[pos]: index out of range *)
      else
        let s3 := set_pending s2 (pending s2 ++ [m]) in
        let full := Nat.eqb (length (pending s3)) (max_in_flight c) in
        tail_ c s3 (rot || full || starved) false false
  end end.

Definition run (c : cfg) (fs0 : fsT) (es : list event) : st := fold_left (step c) es (init fs0).

(* the trace in program order *)
Definition trace (s : st) : list op := rev (rtrace s).
