(* Model for C06 — hard-kill consistency of the persisted metadata (nsqd.dat).

   Sources modelled (read /repo/nsqd/nsqd.go, topic.go, channel.go, http.go, apps/nsqd/main.go):
     PersistMetadata + writeSyncFile   open(O_TRUNC) tmp ; write ; fsync ; close ; rename tmp nsqd.dat
                                       (always called with NSQD.Lock held, or alone at boot)
     GetMetadata(false)                topicMap is stable (NSQD.Lock), each topic is read under ITS lock:
                                       the document is assembled topic by topic, NOT atomically
     Notify(v, persist)                goroutine: hand v to notifyChan, THEN Lock ; PersistMetadata ; Unlock
     GetTopic / Topic.GetChannel       map insert + Notify in one critical section
     DeleteExistingTopic               lookup ; Topic.exit(true) [CAS exitFlag, Notify, drop channels] ;
                                       Lock, delete from map, Unlock ; persistAfterDelete (non-ephemeral)
     Topic.DeleteExistingChannel       lookup ; Channel.exit(true) [CAS, Notify] ; delete from map (by NAME) ;
                                       persistAfterDelete (channel and topic non-ephemeral)
     doPauseTopic / doPauseChannel     lookup ; flip the atomic flag ; Lock ; PersistMetadata ; Unlock ; answer
     LoadMetadata                      missing file = fresh start ; undecodable = fatal ; invalid names skipped ;
                                       a repeated topic/channel is get-or-create, paused flags accumulate (or)
     main.go Start                     LoadMetadata ; PersistMetadata ; then Main (listeners served)

   The daemon is a set of client threads (one per request, each a list of atomic
   micro-steps in program order), a count of pending Notify goroutines, at most one
   persist job (the NSQD.Lock holder) and a file system; a schedule is a list of
   events; EVERY interleaving is a schedule.  Disabled events leave the state
   unchanged.  Kill = SIGKILL (process state lost, files stay).  No proofs here. *)
From Coq Require Import List NArith Bool Arith.
From NSQV Require Import model.Judge model.Names model.MetaSrc.
Import ListNotations.
Open Scope nat_scope.
Open Scope bool_scope.

Definition name := bytes.
Definition name_eqb (a b : name) : bool := bytes_eqb a b.
Definition eph (n : name) : bool := has_ephemeral_suffix n.   (* strings.HasSuffix(name, "#ephemeral") *)
Definition valid (n : name) : bool := is_valid_name n.

(* ---------------------------------------------------------------- documents *)
Record dchan := mkDC { dc_name : name; dc_paused : bool }.
Record dtopic := mkDT { dt_name : name; dt_paused : bool; dt_chans : list dchan }.
Definition doc := list dtopic.

(* ---------------------------------------------------------------- live state *)
(* ids distinguish incarnations (a deleted and re-created topic is another object) *)
Record chan := mkC { c_id : N; c_name : name; c_paused : bool; c_exiting : bool }.
Record topic := mkT { t_id : N; t_name : name; t_paused : bool; t_exiting : bool; t_chans : list chan }.
Definition live := list topic.

Definition keep_chan (c : chan) : bool := negb (eph (c_name c)).
Definition keep_topic (t : topic) : bool := negb (eph (t_name t)).
Definition snap_chan (c : chan) : dchan := mkDC (c_name c) (c_paused c).
Definition snap_topic (t : topic) : dtopic :=
  mkDT (t_name t) (t_paused t) (map snap_chan (filter keep_chan (t_chans t))).
(* GetMetadata(false) if it were read at one instant *)
Definition snapshot (l : live) : doc := map snap_topic (filter keep_topic l).

Definition is_topic (g : N) (n : name) (t : topic) : bool := N.eqb (t_id t) g && name_eqb (t_name t) n.
Definition is_chan (h : N) (n : name) (c : chan) : bool := N.eqb (c_id c) h && name_eqb (c_name c) n.
Definition find_topic (n : name) (l : live) : option topic := find (fun t => name_eqb (t_name t) n) l.
Definition find_chan (n : name) (cs : list chan) : option chan := find (fun c => name_eqb (c_name c) n) cs.
Definition get_topic (g : N) (n : name) (l : live) : option topic := find (is_topic g n) l.
Definition upd_topic (g : N) (n : name) (f : topic -> topic) (l : live) : live :=
  map (fun t => if is_topic g n t then f t else t) l.
Definition upd_chan (h : N) (n : name) (f : chan -> chan) (cs : list chan) : list chan :=
  map (fun c => if is_chan h n c then f c else c) cs.
Definition remove_topic (n : name) (l : live) : live := filter (fun t => negb (name_eqb (t_name t) n)) l.
Definition remove_chan (n : name) (cs : list chan) : list chan := filter (fun c => negb (name_eqb (c_name c) n)) cs.

Definition set_chans (cs : list chan) (t : topic) : topic := mkT (t_id t) (t_name t) (t_paused t) (t_exiting t) cs.
Definition set_tpaused (b : bool) (t : topic) : topic := mkT (t_id t) (t_name t) b (t_exiting t) (t_chans t).
Definition set_texiting (t : topic) : topic := mkT (t_id t) (t_name t) (t_paused t) true (t_chans t).
Definition set_cpaused (b : bool) (c : chan) : chan := mkC (c_id c) (c_name c) b (c_exiting c).
Definition set_cexiting (c : chan) : chan := mkC (c_id c) (c_name c) (c_paused c) true.

(* ---------------------------------------------------------------- files *)
(* a file holds the first f_written bytes of the serialisation of f_doc *)
Record content := mkF { f_doc : doc; f_written : nat; f_synced : bool }.
Definition doc_size (d : doc) : nat := S (length d).          (* any positive size *)
Definition complete (c : content) : bool := Nat.eqb (f_written c) (doc_size (f_doc c)).
Record fsys := mkFS { dat : option content; tmps : list (N * content) }.

Fixpoint lookup (k : N) (m : list (N * content)) : option content :=
  match m with [] => None | (k', v) :: r => if N.eqb k' k then Some v else lookup k r end.
Fixpoint upsert (k : N) (v : content) (m : list (N * content)) : list (N * content) :=
  match m with
  | [] => [(k, v)]
  | (k', v') :: r => if N.eqb k' k then (k, v) :: r else (k', v') :: upsert k v r
  end.
Fixpoint delete (k : N) (m : list (N * content)) : list (N * content) :=
  match m with [] => [] | (k', v) :: r => if N.eqb k' k then delete k r else (k', v) :: delete k r end.

(* the file-system operations PersistMetadata performs, in order *)
Inductive fop := FOpen (tmp : N) | FWrite (tmp : N) | FFsync (tmp : N) | FClose (tmp : N) | FRename (tmp : N).
Definition persist_ops (tmp : N) : list fop := [FOpen tmp; FWrite tmp; FFsync tmp; FClose tmp; FRename tmp].

(* ---------------------------------------------------------------- requests and their micro-steps *)
Inductive op :=
| OCreateTopic (t : name) | ODeleteTopic (t : name) | OPauseTopic (t : name) (b : bool)
| OCreateChan (t c : name) | ODeleteChan (t c : name) | OPauseChan (t c : name) (b : bool)
| OSync.   (* a bare Lock;PersistMetadata;Unlock (over-approximates persists on orphaned objects) *)

Inductive chan_action := CADelete | CAPause (b : bool).

Inductive micro :=
| MEnter (o : op)                               (* NSQD.RLock ; topicMap lookup *)
| MFindChan (g : N) (t c : name) (a : chan_action)   (* Topic.RLock ; channelMap lookup *)
| MInsertTopic (t : name)                       (* NSQD.Lock ; re-check ; NewTopic (Notify) ; insert *)
| MInsertChan (g : N) (t c : name)              (* Topic.Lock ; getOrCreateChannel (Notify) *)
| MExitTopic (g : N) (t : name)                 (* CAS exitFlag ; Notify ; on CAS failure skip the teardown *)
| MDropChans (g : N) (t : name)                 (* Topic.Lock ; delete every channel, Channel.exit each *)
| MRemoveTopic (t : name)                       (* NSQD.Lock ; delete(topicMap, name) *)
| MExitChan (g : N) (t : name) (h : N) (c : name)   (* Channel.exit: CAS ; Notify *)
| MRemoveChan (g : N) (t c : name)              (* Topic.Lock ; delete(channelMap, name) *)
| MFlipTopic (g : N) (t : name) (b : bool)
| MFlipChan (g : N) (t : name) (h : N) (c : name) (b : bool)
| MSync                                         (* NSQD.Lock ; PersistMetadata ... *)
| MAwait                                        (* ... until the rename ; Unlock *)
| MAck (status : N).                            (* the HTTP answer *)

Definition enter (pad : bool) (o : op) (l : live) : list micro :=
  match o with
  | OCreateTopic t =>
      if valid t then
        match find_topic t l with Some _ => [MAck 200%N] | None => [MInsertTopic t; MAck 200%N] end
      else [MAck 400%N]
  | ODeleteTopic t =>
      match find_topic t l with
      | None => [MAck 404%N]
      | Some tp => [MExitTopic (t_id tp) t; MDropChans (t_id tp) t; MRemoveTopic t]
                   ++ (if pad && negb (eph t) then [MSync] else []) ++ [MAck 200%N]
      end
  | OPauseTopic t b =>
      match find_topic t l with
      | None => [MAck 404%N]
      | Some tp => [MFlipTopic (t_id tp) t b; MSync; MAck 200%N]
      end
  | OCreateChan t c =>
      if valid t && valid c then
        match find_topic t l with None => [MAck 404%N] | Some tp => [MInsertChan (t_id tp) t c; MAck 200%N] end
      else [MAck 400%N]
  | ODeleteChan t c =>
      if valid t && valid c then
        match find_topic t l with None => [MAck 404%N] | Some tp => [MFindChan (t_id tp) t c CADelete] end
      else [MAck 400%N]
  | OPauseChan t c b =>
      if valid t && valid c then
        match find_topic t l with None => [MAck 404%N] | Some tp => [MFindChan (t_id tp) t c (CAPause b)] end
      else [MAck 400%N]
  | OSync => [MSync; MAck 200%N]
  end.

Definition found_chan (pad : bool) (g : N) (t c : name) (a : chan_action) (l : live) : list micro :=
  match get_topic g t l with
  | None => [MAck 404%N]
  | Some tp =>
      match find_chan c (t_chans tp) with
      | None => [MAck 404%N]
      | Some ch =>
          match a with
          | CADelete => [MExitChan g t (c_id ch) c; MRemoveChan g t c]
                        ++ (if pad && negb (eph c) && negb (eph t) then [MSync] else []) ++ [MAck 200%N]
          | CAPause b => [MFlipChan g t (c_id ch) c b; MSync; MAck 200%N]
          end
      end
  end.

(* ---------------------------------------------------------------- the persist job (NSQD.Lock holder) *)
Inductive phase := PSnap | PWrite | PFsync | PClose | PRename.
Record job := mkJ {
  j_owner : option N;                        (* Some i: thread i waits for it; None: a Notify goroutine / boot *)
  j_slots : list (N * name * option dtopic); (* the non-ephemeral topics of the (stable) map, read or not yet *)
  j_phase : phase;
  j_tmp : N;
  j_doc : doc;                               (* the marshalled document once every topic has been read *)
  j_lo : nat                                 (* ghost: length of the history when the job began *)
}.

Definition slot_of (t : topic) : N * name * option dtopic := (t_id t, t_name t, None).
Definition new_job (owner : option N) (l : live) (lo : nat) : job :=
  mkJ owner (map slot_of (filter keep_topic l)) PSnap 0%N [] lo.

Definition unread (sl : N * name * option dtopic) : bool := match snd sl with None => true | Some _ => false end.
Fixpoint first_unread (sl : list (N * name * option dtopic)) : option nat :=
  match sl with
  | [] => None
  | x :: r => if unread x then Some 0 else option_map S (first_unread r)
  end.
Definition read_slot (l : live) (sl : N * name * option dtopic) : N * name * option dtopic :=
  let '(g, n, _) := sl in
  match get_topic g n l with
  | Some t => (g, n, Some (snap_topic t))
  | None => (g, n, Some (mkDT n false []))       (* unreachable: the map is stable while locked *)
  end.
Fixpoint fill (l : live) (i : nat) (sl : list (N * name * option dtopic)) : list (N * name * option dtopic) :=
  match sl, i with
  | [], _ => []
  | x :: r, O => read_slot l x :: r
  | x :: r, S i' => x :: fill l i' r
  end.
Definition slot_doc (sl : list (N * name * option dtopic)) : doc :=
  flat_map (fun x => match snd x with Some e => [e] | None => [] end) sl.

(* ---------------------------------------------------------------- daemon + files *)
Record st := mkS {
  up : bool;
  broken : bool;                 (* a restart found an undecodable nsqd.dat (LoadMetadata fatal) *)
  live_ : live;
  next_id : N;
  threads : list (N * list micro);
  pending : nat;                 (* Notify goroutines that will persist *)
  lock : option job;
  fs : fsys;
  hist : list live;              (* ghost: every value of live_, newest first *)
  acks : list (N * N);           (* ghost: answered requests (thread, status), newest first *)
  dat_lo : nat;                  (* ghost: length hist when the job that produced nsqd.dat began *)
  commits : nat                  (* ghost: number of completed renames onto nsqd.dat since the last start *)
}.

Definition init : st := mkS false false [] 1%N [] 0 None (mkFS None []) [] [] 0 0.

Definition w_live (s : st) (l : live) : st :=
  mkS (up s) (broken s) l (next_id s) (threads s) (pending s) (lock s) (fs s) (l :: hist s) (acks s) (dat_lo s) (commits s).
Definition w_threads (s : st) (ths : list (N * list micro)) : st :=
  mkS (up s) (broken s) (live_ s) (next_id s) ths (pending s) (lock s) (fs s) (hist s) (acks s) (dat_lo s) (commits s).
Definition w_pending (s : st) (p : nat) : st :=
  mkS (up s) (broken s) (live_ s) (next_id s) (threads s) p (lock s) (fs s) (hist s) (acks s) (dat_lo s) (commits s).
Definition w_lock (s : st) (j : option job) : st :=
  mkS (up s) (broken s) (live_ s) (next_id s) (threads s) (pending s) j (fs s) (hist s) (acks s) (dat_lo s) (commits s).
Definition w_fs (s : st) (f : fsys) : st :=
  mkS (up s) (broken s) (live_ s) (next_id s) (threads s) (pending s) (lock s) f (hist s) (acks s) (dat_lo s) (commits s).
Definition w_next (s : st) (n : N) : st :=
  mkS (up s) (broken s) (live_ s) n (threads s) (pending s) (lock s) (fs s) (hist s) (acks s) (dat_lo s) (commits s).
Definition w_acks (s : st) (a : list (N * N)) : st :=
  mkS (up s) (broken s) (live_ s) (next_id s) (threads s) (pending s) (lock s) (fs s) (hist s) a (dat_lo s) (commits s).
Definition w_lo (s : st) (n : nat) : st :=
  mkS (up s) (broken s) (live_ s) (next_id s) (threads s) (pending s) (lock s) (fs s) (hist s) (acks s) n (S (commits s)).

Fixpoint get_thread (i : N) (ths : list (N * list micro)) : option (list micro) :=
  match ths with [] => None | (k, p) :: r => if N.eqb k i then Some p else get_thread i r end.
Fixpoint set_thread (i : N) (p : list micro) (ths : list (N * list micro)) : list (N * list micro) :=
  match ths with
  | [] => []
  | (k, q) :: r => if N.eqb k i then (k, p) :: r else (k, q) :: set_thread i p r
  end.
Fixpoint del_thread (i : N) (ths : list (N * list micro)) : list (N * list micro) :=
  match ths with [] => [] | (k, q) :: r => if N.eqb k i then r else (k, q) :: del_thread i r end.

(* a thread whose program is exhausted is gone *)
Definition put_thread (i : N) (p : list micro) (ths : list (N * list micro)) : list (N * list micro) :=
  match p with [] => del_thread i ths | _ => set_thread i p ths end.
(* Topic.exit returned "exiting": DeleteExistingTopic skips the teardown it would have done *)
Definition skip_drop (p : list micro) : list micro :=
  match p with MDropChans _ _ :: r => r | _ => p end.

Definition spawn (b : bool) (s : st) : st := if b then w_pending s (S (pending s)) else s.
Definition lock_free (s : st) : bool := match lock s with None => true | Some _ => false end.

(* number of Notify(…, persist=true) calls made while dropping the channels of a topic *)
Definition drop_spawns (cs : list chan) : nat :=
  length (filter (fun c => negb (c_exiting c) && keep_chan c) cs).

(* one micro-step of thread i whose program is m :: rest; a step that is not enabled
   (needs the NSQD lock while a persist job holds it) leaves the state unchanged *)
Definition exec (pad : bool) (s : st) (i : N) (m : micro) (rest : list micro) : st :=
  let continue s' := w_threads s' (put_thread i rest (threads s')) in
  let goto p s' := w_threads s' (put_thread i p (threads s')) in
  match m with
  | MEnter o =>
      if lock_free s then goto (enter pad o (live_ s) ++ rest) s else s
  | MFindChan g t c a =>
      goto (found_chan pad g t c a (live_ s) ++ rest) s
  | MInsertTopic t =>
      if lock_free s then
        match find_topic t (live_ s) with
        | Some _ => continue s
        | None =>
            let s1 := w_live s (live_ s ++ [mkT (next_id s) t false false []]) in
            continue (spawn (negb (eph t)) (w_next s1 (N.succ (next_id s))))
        end
      else s
  | MInsertChan g t c =>
      match get_topic g t (live_ s) with
      | None => continue (spawn (negb (eph c)) s)     (* the topic object has left the map: invisible *)
      | Some tp =>
          match find_chan c (t_chans tp) with
          | Some _ => continue s
          | None =>
              let l' := upd_topic g t (fun tp' => set_chans (t_chans tp' ++ [mkC (next_id s) c false false]) tp') (live_ s) in
              continue (spawn (negb (eph c)) (w_next (w_live s l') (N.succ (next_id s))))
          end
      end
  | MExitTopic g t =>
      match get_topic g t (live_ s) with
      | Some tp =>
          if t_exiting tp then goto (skip_drop rest) s
          else continue (spawn (negb (eph t)) (w_live s (upd_topic g t set_texiting (live_ s))))
      | None => goto (skip_drop rest) s
      end
  | MDropChans g t =>
      match get_topic g t (live_ s) with
      | Some tp =>
          let s1 := w_live s (upd_topic g t (set_chans []) (live_ s)) in
          continue (w_pending s1 (pending s1 + drop_spawns (t_chans tp)))
      | None => continue s
      end
  | MRemoveTopic t =>
      if lock_free s then continue (w_live s (remove_topic t (live_ s))) else s
  | MExitChan g t h c =>
      match get_topic g t (live_ s) with
      | Some tp =>
          match find (is_chan h c) (t_chans tp) with
          | Some ch =>
              if c_exiting ch then continue s
              else continue (spawn (negb (eph c))
                     (w_live s (upd_topic g t (fun tp' => set_chans (upd_chan h c set_cexiting (t_chans tp')) tp') (live_ s))))
          | None => continue s
          end
      | None => continue s
      end
  | MRemoveChan g t c =>
      continue (w_live s (upd_topic g t (fun tp => set_chans (remove_chan c (t_chans tp)) tp) (live_ s)))
  | MFlipTopic g t b =>
      continue (w_live s (upd_topic g t (set_tpaused b) (live_ s)))
  | MFlipChan g t h c b =>
      continue (w_live s (upd_topic g t (fun tp => set_chans (upd_chan h c (set_cpaused b) (t_chans tp)) tp) (live_ s)))
  | MSync =>
      if lock_free s then
        w_threads (w_lock s (Some (new_job (Some i) (live_ s) (length (hist s)))))
                  (set_thread i (MAwait :: rest) (threads s))
      else s
  | MAwait => s
  | MAck status => continue (w_acks s ((i, status) :: acks s))
  end.

(* one step of the persist job; k = which unread topic to read next / the random temp
   name / how many more bytes this write call manages before the next event *)
Definition persist_step (s : st) (j : job) (k : N) : st :=
  let setj j' := w_lock s (Some j') in
  match j_phase j with
  | PSnap =>
      match first_unread (j_slots j) with
      | Some i0 =>
          let i := match nth_error (j_slots j) (N.to_nat k) with
                   | Some x => if unread x then N.to_nat k else i0
                   | None => i0 end in
          setj (mkJ (j_owner j) (fill (live_ s) i (j_slots j)) PSnap (j_tmp j) (j_doc j) (j_lo j))
      | None =>
          (* json.Marshal, then OpenFile(tmp, O_WRONLY|O_CREATE|O_TRUNC) *)
          let d := slot_doc (j_slots j) in
          w_fs (setj (mkJ (j_owner j) (j_slots j) PWrite k d (j_lo j)))
               (mkFS (dat (fs s)) (upsert k (mkF d 0 false) (tmps (fs s))))
      end
  | PWrite =>
      match lookup (j_tmp j) (tmps (fs s)) with
      | Some c =>
          let w := Nat.min (doc_size (f_doc c)) (f_written c + S (N.to_nat k)) in
          let s1 := w_fs s (mkFS (dat (fs s)) (upsert (j_tmp j) (mkF (f_doc c) w false) (tmps (fs s)))) in
          if Nat.eqb w (doc_size (f_doc c))
          then w_lock s1 (Some (mkJ (j_owner j) (j_slots j) PFsync (j_tmp j) (j_doc j) (j_lo j)))
          else s1
      | None => s
      end
  | PFsync =>
      match lookup (j_tmp j) (tmps (fs s)) with
      | Some c =>
          w_lock (w_fs s (mkFS (dat (fs s)) (upsert (j_tmp j) (mkF (f_doc c) (f_written c) true) (tmps (fs s)))))
                 (Some (mkJ (j_owner j) (j_slots j) PClose (j_tmp j) (j_doc j) (j_lo j)))
      | None => s
      end
  | PClose => setj (mkJ (j_owner j) (j_slots j) PRename (j_tmp j) (j_doc j) (j_lo j))
  | PRename =>
      match lookup (j_tmp j) (tmps (fs s)) with
      | Some c =>
          let s1 := w_lo (w_lock (w_fs s (mkFS (Some c) (delete (j_tmp j) (tmps (fs s))))) None) (j_lo j) in
          match j_owner j with
          | Some i =>
              match get_thread i (threads s1) with
              | Some (MAwait :: rest) => w_threads s1 (put_thread i rest (threads s1))
              | _ => s1
              end
          | None => s1
          end
      | None => s
      end
  end.

(* A write fault (ENOSPC, EDQUOT, EFBIG, EIO): the write of the temp file stores at most k
   more bytes -- never the whole document -- and returns an error; writeSyncFile skips the
   fsync (`if err == nil`), closes and returns the error; PersistMetadata returns before
   the rename.  The lock holder is done (its caller logs the error or ignores it):
   nsqd.dat is not touched, the cut-off temp file stays behind. *)
Definition fail_step (s : st) (j : job) (k : N) : st :=
  match j_phase j with
  | PWrite =>
      match lookup (j_tmp j) (tmps (fs s)) with
      | Some c =>
          let w := Nat.min (pred (doc_size (f_doc c))) (f_written c + N.to_nat k) in
          let s1 := w_lock (w_fs s (mkFS (dat (fs s)) (upsert (j_tmp j) (mkF (f_doc c) w false) (tmps (fs s))))) None in
          match j_owner j with
          | Some i =>
              match get_thread i (threads s1) with
              | Some (MAwait :: rest) => w_threads s1 (put_thread i rest (threads s1))
              | _ => s1
              end
          | None => s1
          end
      | None => s
      end
  | _ => s
  end.

(* ---------------------------------------------------------------- load (LoadMetadata) *)
Fixpoint load_chans (cs : list dchan) (acc : list chan) (nid : N) : list chan * N :=
  match cs with
  | [] => (acc, nid)
  | c :: r =>
      if valid (dc_name c) then
        match find_chan (dc_name c) acc with
        | Some ch => load_chans r (upd_chan (c_id ch) (c_name ch) (set_cpaused (c_paused ch || dc_paused c)) acc) nid
        | None => load_chans r (acc ++ [mkC nid (dc_name c) (dc_paused c) false]) (N.succ nid)
        end
      else load_chans r acc nid
  end.
Fixpoint load_topics (d : doc) (acc : live) (nid : N) : live * N :=
  match d with
  | [] => (acc, nid)
  | e :: r =>
      if valid (dt_name e) then
        match find_topic (dt_name e) acc with
        | Some tp =>
            let '(cs, nid') := load_chans (dt_chans e) (t_chans tp) nid in
            load_topics r (upd_topic (t_id tp) (t_name tp)
                             (fun t => set_chans cs (set_tpaused (t_paused t || dt_paused e) t)) acc) nid'
        | None =>
            let '(cs, nid') := load_chans (dt_chans e) [] (N.succ nid) in
            load_topics r (acc ++ [mkT nid (dt_name e) (dt_paused e) false cs]) nid'
        end
      else load_topics r acc nid
  end.
Definition load (d : doc) (nid : N) : live * N := load_topics d [] nid.

(* ---------------------------------------------------------------- events *)
Inductive ev :=
| EStart (i : N) (o : op)     (* a request arrives (also: internal triggers such as ephemeral auto-deletion, SUB) *)
| EStep (i : N)               (* thread i performs its next micro-step *)
| ETask                       (* a pending Notify goroutine gets the NSQD lock and starts persisting *)
| EPersist (k : N)            (* the lock holder performs its next step *)
| EFault (k : N)              (* the lock holder's write of the temp file fails after at most k more bytes *)
| EKill                       (* SIGKILL *)
| ERestart.                   (* the daemon is started again on the same data path *)

Definition kill (s : st) : st :=
  mkS false (broken s) [] (next_id s) [] 0 None (fs s) (hist s) (acks s) (dat_lo s) (commits s).

Definition boot (s : st) (l : live) (nid : N) : st :=
  mkS true false l nid [] 0 (Some (new_job None l (S (length (hist s))))) (fs s) (l :: hist s) (acks s) (dat_lo s) 0.

Definition restart (s : st) : st :=
  match dat (fs s) with
  | None => boot s [] (next_id s)
  | Some c =>
      if complete c then let '(l, nid) := load (f_doc c) (next_id s) in boot s l nid
      else mkS false true [] (next_id s) [] 0 None (fs s) (hist s) (acks s) (dat_lo s) (commits s)
  end.

Definition step_ (pad : bool) (s : st) (e : ev) : st :=
  match e with
  | EKill => if up s then kill s else s
  | ERestart => if up s || broken s then s else restart s
  | EStart i o =>
      if up s then
        match get_thread i (threads s) with
        | None => w_threads s (threads s ++ [(i, [MEnter o])])
        | Some _ => s
        end
      else s
  | EStep i =>
      match get_thread i (threads s) with
      | Some (m :: rest) => exec pad s i m rest
      | _ => s
      end
  | ETask =>
      match lock s, pending s with
      | None, S p => w_lock (w_pending s p) (Some (new_job None (live_ s) (length (hist s))))
      | _, _ => s
      end
  | EPersist k =>
      match lock s with Some j => persist_step s j k | None => s end
  | EFault k =>
      match lock s with Some j => fail_step s j k | None => s end
  end.

(* Does the source (gen/MetaShape.v, regenerated from the repository on every run) persist
   again AFTER a deleted topic / channel has left its map (fix d8e666b)?  The model follows
   the source: were the call removed or moved before the map removal, [step] would be the
   pre-fix behaviour and the proofs of C06_idle_full would no longer go through. *)
Definition step : st -> ev -> st := step_ pad_src.
Definition run (s : st) (evs : list ev) : st := fold_left step evs s.
(* the code before the fix (kept to show the old witness) *)
Definition run_old (s : st) (evs : list ev) : st := fold_left (step_ false) evs s.

(* ---------------------------------------------------------------- what the theorems talk about *)
Definition idle (s : st) : Prop :=
  up s = true /\ threads s = [] /\ pending s = 0 /\ lock s = None.
