(* Model of internal/protocol/byte_base10.go and of the millisecond/Duration range
   logic of RDY / REQ / DPUB / HTTP defer / IDENTIFY msg_timeout (C03, C04, C09, C10),
   as the code is after the repair commit "fix: decimal parsing and ms-to-Duration
   conversion saturate instead of wrapping".  Go's fixed-width arithmetic is explicit.
   No proofs here. *)
From Coq Require Import List NArith ZArith Bool.
From NSQV Require Import model.Judge.
Import ListNotations.

Definition max_u64 : N := 18446744073709551615%N.
Definition max_i64 : Z := 9223372036854775807%Z.
Definition two64Z : Z := 18446744073709551616%Z.
Definition ns_per_ms : Z := 1000000%Z.

Definition is_digit (c : N) : bool := ((48 <=? c) && (c <=? 57))%N.

(* ByteToBase10: None = errBase10 (a non-digit byte); values that do not fit in 64
   bits saturate at 2^64-1.  The empty string parses to 0 (as in the code). *)
Fixpoint b10_from (acc : N) (b : bytes) : option N :=
  match b with
  | [] => Some acc
  | c :: r =>
      if is_digit c then
        let v := (c - 48)%N in
        if (((max_u64 - v) / 10) <? acc)%N then b10_from max_u64 r
        else b10_from (acc * 10 + v)%N r
      else None
  end.
Definition byte_to_base10 (b : bytes) : option N := b10_from 0%N b.

(* the mathematical value of a digit string, unbounded *)
Fixpoint dec_value_from (acc : N) (b : bytes) : N :=
  match b with
  | [] => acc
  | c :: r => dec_value_from (acc * 10 + (c - 48))%N r
  end.
Definition dec_value (b : bytes) : N := dec_value_from 0%N b.
Definition all_digits (b : bytes) : bool := forallb is_digit b.

(* int64(x) for a uint64 x *)
Definition u64_to_i64 (n : N) : Z :=
  let z := Z.of_N n in if (z <=? max_i64)%Z then z else (z - two64Z)%Z.

(* msToDuration (nsqd/protocol_v2.go): saturating *)
Definition ms_to_duration (ms : N) : Z :=
  if (Z.of_N ms >? max_i64 / ns_per_ms)%Z then max_i64 else (Z.of_N ms * ns_per_ms)%Z.

(* RDY: count := int64(b10); refused iff count < 0 || count > max_rdy *)
Inductive rdy_res := RdyInvalid | RdyOk (count : Z).
Definition rdy_param (max_rdy : Z) (p : bytes) : rdy_res :=
  match byte_to_base10 p with
  | None => RdyInvalid
  | Some n => let c := u64_to_i64 n in
              if ((c <? 0) || (c >? max_rdy))%Z then RdyInvalid else RdyOk c
  end.

(* REQ: the delay actually used (ns), or invalid (non-digit parameter) *)
Inductive req_res := ReqInvalid | ReqDelay (ns : Z).
Definition req_param (max_req : Z) (p : bytes) : req_res :=
  match byte_to_base10 p with
  | None => ReqInvalid
  | Some n => let d := ms_to_duration n in
              ReqDelay (if (d <? 0)%Z then 0%Z else if (d >? max_req)%Z then max_req else d)
  end.

(* DPUB: accepted delay (ns) or E_INVALID *)
Inductive dpub_res := DpubInvalid | DpubDelay (ns : Z).
Definition dpub_param (max_req : Z) (p : bytes) : dpub_res :=
  match byte_to_base10 p with
  | None => DpubInvalid
  | Some n => let d := ms_to_duration n in
              if ((d <? 0) || (d >? max_req))%Z then DpubInvalid else DpubDelay d
  end.

(* HTTP /pub?defer=: the parameter has already been parsed by strconv.ParseInt(s,10,64)
   (stdlib; its result is this model's input): [None] = parse error *)
Definition http_defer (max_req : Z) (parsed : option Z) : dpub_res :=
  match parsed with
  | None => DpubInvalid
  | Some di =>
      if (di <? 0)%Z then DpubInvalid
      else let d := ms_to_duration (Z.to_N di) in
           if ((d <? 0) || (d >? max_req))%Z then DpubInvalid else DpubDelay d
  end.
