(* A TOUCH racing the in-flight timeout scan, statement by statement (F22).

   Both run under the read side of the channel's exit lock, so nothing keeps them apart but
   inFlightMutex, which each takes for ONE step at a time:

     scan (clock t):   peek+shift the priority queue | pop from the in-flight set |
                       [re-read the deadline: not expired -> push back (set, then queue)] | re-queue
     TOUCH:            pop from the in-flight set (and the queue) | new deadline | push (set) | push (queue)

   The model follows one message through EVERY interleaving of one scan round and one TOUCH
   (the only two parties that can move that message's timeout entry).  Deadlines are compared
   with the scan's clock only, so a deadline is abstracted to "the one from before the TOUCH"
   or "the one the TOUCH set", and the two comparisons to two booleans. *)
From Coq Require Import List Bool.
Import ListNotations.

Inductive who := Scan | Touch.
Inductive pri := Old | New.

Record st := mkSt {
  in_set : bool;          (* in inFlightMessages *)
  in_pq : nat;            (* entries for it in inFlightPQ (the two pushes of a set-then-queue pair are separate
                             critical sections, so a second, stale entry can arise; it only costs an aborted scan round) *)
  deadline : pri;
  scan_pc : nat;          (* 0 peek, 1 pop, 2 decide, 3 push-back (queue), 9 done *)
  touch_pc : nat;         (* 0 pop, 1 new deadline, 2 push (set), 3 push (queue), 9 done *)
  scan_has : bool;        (* the scan holds the message *)
  touch_has : bool;
  touch_ok : option bool; (* the TOUCH's answer *)
  requeued : bool }.

Definition init : st := mkSt true 1 Old 0 0 false false None false.

Section Run.
  Variables (recheck : bool)       (* the scan re-reads the deadline after its pop (the repaired source) *)
            (old_expired new_expired : bool).
  Definition expired (p : pri) : bool := match p with Old => old_expired | New => new_expired end.

  Definition step (s : st) (w : who) : st :=
    match w with
    | Scan =>
        match scan_pc s with
        | 0 => if negb (Nat.eqb (in_pq s) 0) && expired (deadline s)
               then mkSt (in_set s) (pred (in_pq s)) (deadline s) 1 (touch_pc s) false (touch_has s) (touch_ok s) (requeued s)
               else mkSt (in_set s) (in_pq s) (deadline s) 9 (touch_pc s) false (touch_has s) (touch_ok s) (requeued s)
        | 1 => if in_set s
               then mkSt false (in_pq s) (deadline s) 2 (touch_pc s) true (touch_has s) (touch_ok s) (requeued s)     (* its queue entry is already shifted: index -1 *)
               else mkSt (in_set s) (in_pq s) (deadline s) 9 (touch_pc s) false (touch_has s) (touch_ok s) (requeued s)   (* not in flight: a stale entry, dropped; the round goes on with the next message *)
        | 2 => if recheck && negb (expired (deadline s))
               then mkSt true (in_pq s) (deadline s) 3 (touch_pc s) false (touch_has s) (touch_ok s) (requeued s)        (* pushInFlightMessage *)
               else mkSt (in_set s) (in_pq s) (deadline s) 9 (touch_pc s) false (touch_has s) (touch_ok s) true          (* c.put *)
        | 3 => mkSt (in_set s) (S (in_pq s)) (deadline s) 9 (touch_pc s) false (touch_has s) (touch_ok s) (requeued s)     (* addToInFlightPQ *)
        | _ => s
        end
    | Touch =>
        match touch_pc s with
        | 0 => if in_set s
               then mkSt false (pred (in_pq s)) (deadline s) (scan_pc s) 1 (scan_has s) true (Some true) (requeued s)   (* pred 0 = 0: already shifted by the scan *)
               else mkSt (in_set s) (in_pq s) (deadline s) (scan_pc s) 9 (scan_has s) false (Some false) (requeued s)
        | 1 => mkSt (in_set s) (in_pq s) New (scan_pc s) 2 (scan_has s) (touch_has s) (touch_ok s) (requeued s)
        | 2 => mkSt true (in_pq s) (deadline s) (scan_pc s) 3 (scan_has s) (touch_has s) (touch_ok s) (requeued s)
        | 3 => mkSt (in_set s) (S (in_pq s)) (deadline s) (scan_pc s) 9 (scan_has s) false (touch_ok s) (requeued s)
        | _ => s
        end
    end.
  Definition run (sched : list who) : st := fold_left step sched init.
End Run.

(* every way of merging n steps of the one with m steps of the other *)
Fixpoint merges (n m : nat) : list (list who) :=
  match n with
  | O => [repeat Touch m]
  | S n' => (fix inner (m : nat) : list (list who) :=
               match m with
               | O => [repeat Scan (S n')]
               | S m' => map (cons Scan) (merges n' (S m')) ++ map (cons Touch) (inner m')
               end) m
  end.

(* at the end: the message is in exactly one place - back on the queue, or in the in-flight
   set WITH an entry in the timeout queue (without one it would never time out) - and if the
   TOUCH was accepted and the deadline it set has not passed on the scan's clock, this scan
   round did not time it out *)
Definition good_end (new_expired : bool) (s : st) : bool :=
  (Nat.eqb (scan_pc s) 9) && (Nat.eqb (touch_pc s) 9)
  && negb (scan_has s) && negb (touch_has s)
  && (if requeued s then negb (in_set s) else in_set s && negb (Nat.eqb (in_pq s) 0))
  && match touch_ok s with
     | Some true => new_expired || negb (requeued s)
     | _ => true
     end.
