(* C17: the upstream addresses nsqadmin acts upon are not fixed at start.  nsqadmin.New wants
   exactly one of the two lists (--lookupd-http-address / --nsqd-http-address), but
   PUT /config/nsqlookupd_http_addresses (nsqadmin/http.go doConfig: json.Unmarshal of the body
   into a copy of the options, swapOpts) REPLACES the nsqlookupd list of a running nsqadmin,
   whatever it was started with; the nsqd list can not be set that way (nor can the admin list,
   the header name or the CIDR: `switch opt` knows nsqlookupd_http_addresses and log_level).
   Every handler reads both lists from the options in force when the request arrives, and
   clusterinfo chooses: nsqlookupd mode iff the nsqlookupd list is not empty.

   Here: the history of /config requests a running nsqadmin has answered, the address lists in
   force after it, and the upstream world an action sees through them.  The choice itself is
   Admin.get_topic_producers; its source shape, the arguments the handlers pass and the options
   doConfig can set are regenerated into gen/AdminModes.v and compared with the tables below.
   No proofs here. *)
From Coq Require Import String List NArith Bool.
From NSQV Require Import model.Judge model.Names gen.AdminRoutes gen.AdminModes model.Admin.
Import ListNotations.
Open Scope bool_scope.
Open Scope list_scope.
Open Scope N_scope.

(* the two lists in force *)
Record addrs := mkAddrs { ad_lookupds : list bytes; ad_nsqds : list bytes }.

(* one request to /config/:opt: PUT or GET, the option named, the body class and, for a body
   that decodes into a list of strings, that list; the client address *)
Record cfgreq := mkCfgReq {
  q_put : bool; q_opt : optname; q_body : putbody; q_value : list bytes; q_remote : option ipaddr }.

Definition no_world : world := mkWorld [] [] NodeInfoFail [].

Definition cfgreq_req (q : cfgreq) : areq :=
  mkReq (if q_put q then "PUT" else "GET") [] (q_remote q) [] [] [] BodyBad (q_opt q) (q_body q).

(* doConfig touches no upstream: the world is irrelevant *)
Definition cfgreq_outcome (cfg : acfg) (routes : list aroute) (q : cfgreq) : outcome :=
  handle cfg no_world routes "/config/:opt" (cfgreq_req q).

(* swapOpts with the decoded list in opts.NSQLookupdHTTPAddresses; a swapped log_level leaves
   the lists alone *)
Definition apply_cfgreq (cfg : acfg) (routes : list aroute) (ad : addrs) (q : cfgreq) : addrs :=
  if o_swapped (cfgreq_outcome cfg routes q) then
    match q_opt q with
    | OptLookupdAddrs => mkAddrs (q_value q) (ad_nsqds ad)
    | _ => ad
    end
  else ad.

Definition run_cfgreqs (cfg : acfg) (routes : list aroute) (ad : addrs) (qs : list cfgreq) : addrs :=
  fold_left (apply_cfgreq cfg routes) qs ad.

(* the request that is accepted as a new nsqlookupd list, said directly *)
Definition sets_lookupds (cfg : acfg) (q : cfgreq) : bool :=
  q_put q &&
  match config_gate (cf_cidr cfg) (q_remote q) with GatePass => true | _ => false end &&
  match q_opt q with OptLookupdAddrs => true | _ => false end &&
  match q_body q with PutValid => true | _ => false end.

(* how every address answers ([univ]), seen through the lists in force; an address nobody
   described does not answer *)
Fixpoint assoc_addr {A : Type} (k : bytes) (l : list (bytes * A)) : option A :=
  match l with
  | [] => None
  | (k', v) :: r => if bytes_eqb k k' then Some v else assoc_addr k r
  end.

Definition pick {A : Type} (dflt : A) (univ : list (bytes * A)) (addrs : list bytes) : list (bytes * A) :=
  map (fun a => (a, match assoc_addr a univ with Some x => x | None => dflt end)) addrs.

Definition world_at (univ : world) (ad : addrs) : world :=
  mkWorld (pick LFail (w_lookupds univ) (ad_lookupds ad)) (pick NFail (w_nsqds univ) (ad_nsqds ad))
          (w_node univ) (w_post_fail univ).

(* ------------------------------------------------------------------ the source, as expected *)

Definition opt_lookupds : string := "s.nsqadmin.getOpts().NSQLookupdHTTPAddresses".
Definition opt_nsqds : string := "s.nsqadmin.getOpts().NSQDHTTPAddresses".

(* GetProducers / GetTopicProducers: nsqlookupd mode iff the nsqlookupd list is not empty *)
Definition mode_choice_model : list (string * list string * list string) := [
  ("GetProducers", ["lookupdHTTPAddrs"; "nsqdHTTPAddrs"],
   ["if len(lookupdHTTPAddrs) != 0 {"; "return c.GetLookupdProducers(lookupdHTTPAddrs)"; "}";
    "return c.GetNSQDProducers(nsqdHTTPAddrs)"]);
  ("GetTopicProducers", ["topicName"; "lookupdHTTPAddrs"; "nsqdHTTPAddrs"],
   ["if len(lookupdHTTPAddrs) != 0 {"; "return c.GetLookupdTopicProducers(topicName, lookupdHTTPAddrs)"; "}";
    "return c.GetNSQDTopicProducers(topicName, nsqdHTTPAddrs)"])
]%string.

(* which lists a clusterinfo method is handed by a handler, in order *)
Definition lists_of_method (m : string) : option (list string) :=
  let both := ["GetTopicProducers"; "GetProducers"; "DeleteTopic"; "DeleteChannel"; "PauseTopic"; "UnPauseTopic";
               "EmptyTopic"; "PauseChannel"; "UnPauseChannel"; "EmptyChannel"]%string in
  let lookupd_only := ["GetLookupdTopics"; "GetLookupdTopicProducers"; "GetLookupdTopicChannels";
                       "CreateTopicChannel"; "TombstoneNodeForTopic"]%string in
  if existsb (String.eqb m) both then Some [opt_lookupds; opt_nsqds]
  else if existsb (String.eqb m) lookupd_only then Some [opt_lookupds]
  else if String.eqb m "GetNSQDTopics" then Some [opt_nsqds]
  else if String.eqb m "GetNSQDStats" then Some []
  else None.

Definition call_opts_ok (c : string * string * list string) : bool :=
  match c with
  | (_, m, args) =>
      match lists_of_method m with
      | Some want => list_eqb String.eqb (filter (fun a => negb (String.eqb a "_")) args) want
      | None => false
      end
  end.

(* every mutating action of the fan-out table is called by some handler (so the check above
   is about all of them) *)
Definition actions_called : bool :=
  forallb (fun a => existsb (fun c => String.eqb (snd (fst c)) (fst a)) ci_call_opts) ci_model.

(* doConfig: what PUT can set *)
Definition put_options_model : list (list string * list string) := [
  (["nsqlookupd_http_addresses"],
   ["err := json.Unmarshal(body, &opts.NSQLookupdHTTPAddresses)"; "if err != nil {";
    "return nil, http_api.Err{400, ""INVALID_VALUE""}"; "}"]);
  (["log_level"],
   ["logLevelStr := string(body)"; "logLevel, err := lg.ParseLogLevel(logLevelStr)"; "if err != nil {";
    "return nil, http_api.Err{400, ""INVALID_VALUE""}"; "}"; "opts.LogLevel = logLevel"]);
  (["<default>"], ["return nil, http_api.Err{400, ""INVALID_OPTION""}"])
]%string.
