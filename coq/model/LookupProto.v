(* Byte-level model of what nsqlookupd does with one TCP connection and with one HTTP
   request (C15): nsqlookupd/tcp.go Handle (protocol magic), lookup_protocol_v1.go IOLoop /
   Exec / IDENTIFY (line read, strings.TrimSpace, strings.Split, dispatch, the int32 body
   size with the `bodyLen <= 0` refusal, make, io.ReadFull, the JSON field check), and
   http.go's router + handlers.

   [exec_conn decode s p input] : the whole byte stream [input] arrives on connection p
   and is followed by EOF.  Every partial Go operation on the way is written with an
   explicit [Panic] outcome (make([]byte, n) with n < 0; indexing params[0]); a panic in a
   connection goroutine has no recover and kills the process, so "the daemon survives" is
   the theorem [exec_conn ... <> Panic], not an artefact of totalisation.
   JSON decoding of the IDENTIFY body is an arbitrary function [decode] (encoding/json is
   trusted, not modelled): the theorems hold for every such function.
   No proofs here. *)
From Coq Require Import List NArith ZArith Bool String.
From NSQV Require Import model.Judge model.Names model.Lookupd.
Import ListNotations.
Open Scope bool_scope.
Open Scope N_scope.

(* ------------------------------------------------------------------ strings.TrimSpace *)
Definition ascii_space (c : N) : bool := ((9 <=? c) && (c <=? 13) || (c =? 32))%N.

(* the UTF-8 encodings of the non-ASCII code points with unicode.IsSpace:
   U+0085 U+00A0 U+1680 U+2000..U+200A U+2028 U+2029 U+202F U+205F U+3000 *)
Definition uspaces : list bytes :=
  [[194;133]; [194;160]; [225;154;128];
   [226;128;128]; [226;128;129]; [226;128;130]; [226;128;131]; [226;128;132]; [226;128;133];
   [226;128;134]; [226;128;135]; [226;128;136]; [226;128;137]; [226;128;138];
   [226;128;168]; [226;128;169]; [226;128;175]; [226;129;159]; [227;128;128]]%N.

Fixpoint is_prefix (u l : bytes) : bool :=
  match u, l with
  | [], _ => true
  | a :: u', b :: l' => N.eqb a b && is_prefix u' l'
  | _ :: _, [] => false
  end.

(* drop leading white space; [seqs] are the multi-byte white-space sequences *)
Fixpoint trim_left (seqs : list bytes) (fuel : nat) (l : bytes) : bytes :=
  match fuel with
  | O => l
  | S f =>
      match l with
      | [] => []
      | c :: r =>
          if ascii_space c then trim_left seqs f r
          else match find (fun u => is_prefix u l) seqs with
               | Some u => trim_left seqs f (skipn (List.length u) l)
               | None => l
               end
      end
  end.

(* the right end is scanned backwards rune by rune (utf8.DecodeLastRuneInString): a
   trailing sequence counts exactly when it is one of the encodings above *)
Definition trim_space (l : bytes) : bytes :=
  let l1 := trim_left uspaces (List.length l) l in
  rev (trim_left (map (@rev N) uspaces) (List.length l1) (rev l1)).

(* strings.Split(line, " "): always at least one field *)
Fixpoint split_sp (l : bytes) : list bytes :=
  match l with
  | [] => [[]]
  | b :: r =>
      if N.eqb b 32 then [] :: split_sp r
      else match split_sp r with
           | f :: fs => (b :: f) :: fs
           | [] => [[b]]
           end
  end.

(* bufio.Reader.ReadString('\n'): the line including the newline and the rest, or None
   when EOF comes first (the partial line is dropped, IOLoop ends) *)
Fixpoint read_line (l : bytes) : option (bytes * bytes) :=
  match l with
  | [] => None
  | b :: r =>
      if N.eqb b 10 then Some ([b], r)
      else match read_line r with
           | Some (line, rest) => Some (b :: line, rest)
           | None => None
           end
  end.

(* ------------------------------------------------------------------ IDENTIFY body *)
(* the decoded JSON body: BadJSON = json.Unmarshal returned an error *)
Inductive jres := BadJSON | Json (i : pinfo).

(* binary.Read(reader, BigEndian, &bodyLen) with bodyLen int32 *)
Definition be_int32 (b0 b1 b2 b3 : N) : Z :=
  let u := Z.of_N (((b0 * 256 + b1) * 256 + b2) * 256 + b3) in
  if (u <? 2147483648)%Z then u else (u - 4294967296)%Z.

(* make([]byte, n): panics ("makeslice: len out of range") for n < 0 *)
Inductive alloc := AllocPanic | AllocOk (n : nat).
Definition make_bytes (n : Z) : alloc := if (n <? 0)%Z then AllocPanic else AllocOk (Z.to_nat n).

Inductive frame := FOk | FIdentified | FErr (c : code) | FBadProtocol.

Inductive cres :=
| Panic                                              (* the process dies *)
| Done (s : state) (frames : list frame).            (* connection closed, daemon alive *)

(* the command words (ASCII) *)
Definition w_PING : bytes := [80;73;78;71]%N.
Definition w_IDENTIFY : bytes := [73;68;69;78;84;73;70;89]%N.
Definition w_REGISTER : bytes := [82;69;71;73;83;84;69;82]%N.
Definition w_UNREGISTER : bytes := [85;78;82;69;71;73;83;84;69;82]%N.
Definition magic_v1 : bytes := [32;32;86;49]%N.

Inductive cmd := CmdPing | CmdIdentify | CmdRegister | CmdUnregister | CmdInvalid.
Definition dispatch (w : bytes) : cmd :=
  if bytes_eqb w w_PING then CmdPing
  else if bytes_eqb w w_IDENTIFY then CmdIdentify
  else if bytes_eqb w w_REGISTER then CmdRegister
  else if bytes_eqb w w_UNREGISTER then CmdUnregister
  else CmdInvalid.

(* result of one command: the connection goes on (with the unread input), ends, or the
   process panics *)
Inductive one :=
| OnePanic
| OneGoOn (s : state) (f : frame) (rest : bytes)
| OneEnd (s : state) (f : frame).                    (* fatal error: answered, then IOLoop exit *)

Definition of_resp (s : state) (r : resp) (rest : bytes) : one :=
  match r with
  | ROk => OneGoOn s FOk rest
  | RIdentified => OneGoOn s FIdentified rest
  | RErr c => OneEnd s (FErr c)          (* the handler has already run the exit path *)
  end.

(* [guard] : whether IDENTIFY refuses bodyLen <= 0 before make (it does since commit
   "fix: nsqlookupd IDENTIFY refuses a non-positive body size"; the generated handler
   summary gen/LookupdTables.v is what ties this flag to the source) *)
Definition identify (guard : bool) (decode : bytes -> jres) (s : state) (p : peer) (rest : bytes) : one :=
  if is_node s p then OneEnd (disconnect s p) (FErr E_INVALID)
  else match rest with
  | b0 :: b1 :: b2 :: b3 :: rest' =>
      let n := be_int32 b0 b1 b2 b3 in
      if guard && (n <=? 0)%Z then OneEnd (disconnect s p) (FErr E_BAD_BODY)
      else match make_bytes n with
      | AllocPanic => OnePanic
      | AllocOk len =>
          if Nat.ltb (List.length rest') len then OneEnd (disconnect s p) (FErr E_BAD_BODY)  (* short body, then EOF *)
          else match decode (firstn len rest') with
          | BadJSON => OneEnd (disconnect s p) (FErr E_BAD_BODY)
          | Json i => let '(s', r) := tcp_identify s p i in of_resp s' r (skipn len rest')
          end
      end
  | _ => OneEnd (disconnect s p) (FErr E_BAD_BODY)    (* fewer than 4 size bytes before EOF *)
  end.

Definition exec_line (guard : bool) (decode : bytes -> jres) (s : state) (p : peer)
                     (line rest : bytes) : one :=
  match split_sp (trim_space line) with
  | [] => OnePanic                                     (* params[0]: index out of range *)
  | w :: params =>
      match dispatch w with
      | CmdPing => let '(s', r) := tcp_ping s p in of_resp s' r rest
      | CmdIdentify => identify guard decode s p rest
      | CmdRegister =>
          match params with
          | [] => OneEnd (disconnect s p) (FErr E_INVALID)
          | t :: more => let '(s', r) := tcp_register s p t (hd [] more) in of_resp s' r rest
          end
      | CmdUnregister =>
          match params with
          | [] => OneEnd (disconnect s p) (FErr E_INVALID)
          | t :: more => let '(s', r) := tcp_unregister s p t (hd [] more) in of_resp s' r rest
          end
      | CmdInvalid => OneEnd (disconnect s p) (FErr E_INVALID)
      end
  end.

(* IOLoop; fuel = number of lines that may still be read *)
Fixpoint io_loop (guard : bool) (decode : bytes -> jres) (fuel : nat) (s : state) (p : peer)
                 (input : bytes) (acc : list frame) : cres :=
  match fuel with
  | O => Done (disconnect s p) (rev acc)
  | S f =>
      match read_line input with
      | None => Done (disconnect s p) (rev acc)               (* EOF: exit path *)
      | Some (line, rest) =>
          match exec_line guard decode s p line rest with
          | OnePanic => Panic
          | OneGoOn s' fr rest' => io_loop guard decode f s' p rest' (fr :: acc)
          | OneEnd s' fr => Done s' (rev (fr :: acc))
          end
      end
  end.

(* tcp.go Handle *)
Definition exec_conn_g (guard : bool) (decode : bytes -> jres) (s : state) (p : peer) (input : bytes) : cres :=
  match input with
  | m0 :: m1 :: m2 :: m3 :: rest =>
      if bytes_eqb [m0; m1; m2; m3] magic_v1 then io_loop guard decode (S (List.length rest)) s p rest []
      else Done s [FBadProtocol]
  | _ => Done s []                                            (* short magic: closed silently *)
  end.

Definition exec_conn := exec_conn_g true.

(* ------------------------------------------------------------------ HTTP *)
Close Scope N_scope.
Open Scope string_scope.

Inductive handler :=
| HPing | HInfo | HDebug | HLookup | HTopics | HChannels | HNodes
| HCreateT | HDeleteT | HCreateC | HDeleteC | HTomb | HPprof.

(* the route table as the model has it; gen/LookupdTables.v must say the same *)
Definition routes : list (string * string * handler) :=
  [("GET", "/ping", HPing); ("GET", "/info", HInfo); ("GET", "/debug", HDebug);
   ("GET", "/lookup", HLookup); ("GET", "/topics", HTopics); ("GET", "/channels", HChannels);
   ("GET", "/nodes", HNodes);
   ("POST", "/topic/create", HCreateT); ("POST", "/topic/delete", HDeleteT);
   ("POST", "/channel/create", HCreateC); ("POST", "/channel/delete", HDeleteC);
   ("POST", "/topic/tombstone", HTomb);
   ("GET", "/debug/pprof", HPprof); ("GET", "/debug/pprof/cmdline", HPprof);
   ("GET", "/debug/pprof/symbol", HPprof); ("POST", "/debug/pprof/symbol", HPprof);
   ("GET", "/debug/pprof/profile", HPprof); ("GET", "/debug/pprof/heap", HPprof);
   ("GET", "/debug/pprof/goroutine", HPprof); ("GET", "/debug/pprof/block", HPprof);
   ("GET", "/debug/pprof/threadcreate", HPprof)].

Definition handler_name (h : handler) : string :=
  match h with
  | HPing => "pingHandler|log,http_api.PlainText" | HInfo => "doInfo|log,http_api.V1"
  | HDebug => "doDebug|log,http_api.V1" | HLookup => "doLookup|log,http_api.V1"
  | HTopics => "doTopics|log,http_api.V1" | HChannels => "doChannels|log,http_api.V1"
  | HNodes => "doNodes|log,http_api.V1"
  | HCreateT => "doCreateTopic|log,http_api.V1" | HDeleteT => "doDeleteTopic|log,http_api.V1"
  | HCreateC => "doCreateChannel|log,http_api.V1" | HDeleteC => "doDeleteChannel|log,http_api.V1"
  | HTomb => "doTombstoneTopicProducer|log,http_api.V1"
  | HPprof => "pprof"
  end.

(* status of the answer: an exact code, or [SRouter] = the router answered by itself
   without calling any handler (404, or a 301/307/308 redirect to the canonical path), or
   [SAny] = a pprof page (its status is not modelled) *)
Inductive hstatus := SCode (n : N) | SRouter | SAny.

Fixpoint find_route (m path : string) (l : list (string * string * handler)) : option handler :=
  match l with
  | [] => None
  | (m', p', h) :: r => if String.eqb m' m && String.eqb p' path then Some h else find_route m path r
  end.
Definition path_known (path : string) (l : list (string * string * handler)) : bool :=
  existsb (fun e => String.eqb (snd (fst e)) path) l.

(* the read-only handlers: status only *)
Definition h_lookup_status (s : state) (q : query) : N :=
  match q with
  | QBad => 400%N
  | QArgs None _ _ => 400%N
  | QArgs (Some t) _ _ =>
      match find_registrations CTopic t [] (db s) with [] => 404%N | _ => 200%N end
  end.
Definition h_channels_status (q : query) : N :=
  match q with QBad => 400%N | QArgs None _ _ => 400%N | _ => 200%N end.

Definition http_exec (s : state) (m path : string) (q : query) : state * hstatus :=
  match find_route m path routes with
  | Some h =>
      match h with
      | HPing | HInfo | HDebug | HTopics | HNodes => (s, SCode 200)
      | HLookup => (s, SCode (h_lookup_status s q))
      | HChannels => (s, SCode (h_channels_status q))
      | HCreateT => let '(s', n) := h_create_topic s q in (s', SCode n)
      | HDeleteT => let '(s', n) := h_delete_topic s q in (s', SCode n)
      | HCreateC => let '(s', n) := h_create_channel s q in (s', SCode n)
      | HDeleteC => let '(s', n) := h_delete_channel s q in (s', SCode n)
      | HTomb => let '(s', n) := h_tombstone s q in (s', SCode n)
      | HPprof => (s, SAny)
      end
  | None =>
      if path_known path routes then
        (* httprouter: OPTIONS on a known path is answered 200 with an Allow header;
           any other method gets MethodNotAllowed (HandleMethodNotAllowed = true) *)
        (s, SCode (if String.eqb m "OPTIONS" then 200 else 405))
      else (s, SRouter)
  end.

(* the handler summaries the models above transcribe (compared with the generated ones) *)
Definition identify_summary : list string :=
  ["if client.peerInfo != nil => E_INVALID";
   "call binary.Read";
   "if err != nil => E_BAD_BODY";
   "if bodyLen <= 0 => E_BAD_BODY";
   "call make";
   "call io.ReadFull";
   "if err != nil => E_BAD_BODY";
   "call json.Unmarshal";
   "if err != nil => E_BAD_BODY";
   "if peerInfo.BroadcastAddress == """" || peerInfo.TCPPort == 0 || peerInfo.HTTPPort == 0 || peerInfo.Version == """" => E_BAD_BODY";
   "call AddProducer";
   "call make"].
Definition register_summary : list string :=
  ["if client.peerInfo == nil => E_INVALID"; "call getTopicChan"; "call AddProducer"; "call AddProducer"].
Definition unregister_summary : list string :=
  ["if client.peerInfo == nil => E_INVALID"; "call getTopicChan";
   "call RemoveProducer"; "call HasSuffix"; "call RemoveRegistration";
   "call FindRegistrations"; "call RemoveProducer";
   "call RemoveProducer"; "call HasSuffix"; "call RemoveRegistration"].
Definition get_topic_chan_summary : list string :=
  ["if len(params) == 0 => E_INVALID";
   "if !protocol.IsValidTopicName(topicName) => E_BAD_TOPIC"; "call protocol.IsValidTopicName";
   "if channelName != """" && !protocol.IsValidChannelName(channelName) => E_BAD_CHANNEL";
   "call protocol.IsValidChannelName"].
Definition ioloop_exit_summary : list string :=
  ["if client.peerInfo != nil"; "call LookupRegistrations"; "call RemoveProducer"].
Definition ioloop_read_summary : list string :=
  ["call ReadString"; "call TrimSpace"; "call Split"; "call Exec"].
(* the identity of a connection: in the models above a producer entry carries the number of
   the connection it arrived on ([mkProd p ...]) and the decoded body only supplies the four
   checked fields.  In the source that is: peerInfo.id is set from the socket BEFORE
   json.Unmarshal (which cannot reach the unexported field) and nothing writes it afterwards;
   the exported RemoteAddress is overwritten from the socket after decoding; every registry
   call of the connection handlers is keyed by client.peerInfo(.id). *)
Definition identify_identity : list string :=
  ["peerInfo := PeerInfo{id: client.RemoteAddr().String()}";
   "call json.Unmarshal(&peerInfo)";
   "peerInfo.RemoteAddress = client.RemoteAddr().String()";
   "call StoreInt64(&peerInfo.lastUpdate)";
   "client.peerInfo = &peerInfo"].
Definition identity_uses : list string :=
  ["IDENTIFY: AddProducer(Registration{""client"", """", """"}, &Producer{peerInfo: client.peerInfo})";
   "REGISTER: AddProducer(key, &Producer{peerInfo: client.peerInfo})";
   "REGISTER: AddProducer(key, &Producer{peerInfo: client.peerInfo})";
   "UNREGISTER: RemoveProducer(key, client.peerInfo.id)";
   "UNREGISTER: RemoveProducer(r, client.peerInfo.id)";
   "UNREGISTER: RemoveProducer(key, client.peerInfo.id)";
   "IOLoop: LookupRegistrations(client.peerInfo.id)";
   "IOLoop: RemoveProducer(r, client.peerInfo.id)"].
(* tcp.go Handle as [exec_conn_g] transcribes it (log calls left out): a short read closes
   and RETURNS; the magic switch has the one accepted magic; every other magic is answered
   E_BAD_PROTOCOL, closed, and the function RETURNS - what follows the switch calls
   prot.NewClient, with prot the nil interface after the default clause (a nil-interface
   method call panics, and a panic in a connection goroutine kills the daemon) *)
Definition handle_shape : list string :=
  ["call make"; "call io.ReadFull";
   "if err != nil {"; "call Close"; "return"; "}";
   "call string";
   "switch protocolMagic {";
   "case ""  V1"":"; "set prot";
   "default:"; "call protocol.SendResponse E_BAD_PROTOCOL"; "call Close"; "return";
   "}";
   "call NewClient"; "call Store"; "call IOLoop"; "if err != nil {"; "}"; "call Delete"; "call Close"].
Definition exec_table : list (string * string * string) :=
  [("PING", "PING", "client,params");
   ("IDENTIFY", "IDENTIFY", "client,reader,params[1:]");
   ("REGISTER", "REGISTER", "client,reader,params[1:]");
   ("UNREGISTER", "UNREGISTER", "client,reader,params[1:]")].
Definition http_summaries : list (list string) :=
  [ (* doCreateTopic *)
    ["call http_api.NewReqParams"; "if err != nil => 400"; "call Get"; "if err != nil => 400";
     "if !protocol.IsValidTopicName(topicName) => 400"; "call protocol.IsValidTopicName"; "call AddRegistration"];
    (* doDeleteTopic *)
    ["call http_api.NewReqParams"; "if err != nil => 400"; "call Get"; "if err != nil => 400";
     "if !protocol.IsValidTopicName(topicName) => 400"; "call protocol.IsValidTopicName";
     "call FindRegistrations"; "call RemoveRegistration"; "call FindRegistrations"; "call RemoveRegistration"];
    (* doCreateChannel *)
    ["call http_api.NewReqParams"; "if err != nil => 400"; "call http_api.GetTopicChannelArgs"; "if err != nil => 400";
     "call AddRegistration"; "call AddRegistration"];
    (* doDeleteChannel *)
    ["call http_api.NewReqParams"; "if err != nil => 400"; "call http_api.GetTopicChannelArgs"; "if err != nil => 400";
     "call FindRegistrations"; "if len(registrations) == 0 => 404"; "call RemoveRegistration"];
    (* doTombstoneTopicProducer *)
    ["call http_api.NewReqParams"; "if err != nil => 400"; "call Get"; "if err != nil => 400";
     "if !protocol.IsValidTopicName(topicName) => 400"; "call protocol.IsValidTopicName";
     "call Get"; "if err != nil => 400"; "call FindProducers"; "call Tombstone"];
    (* doLookup *)
    ["call http_api.NewReqParams"; "if err != nil => 400"; "call Get"; "if err != nil => 400";
     "call FindRegistrations"; "if len(registration) == 0 => 404";
     "call FindRegistrations"; "call FindProducers"; "call FilterByActive"];
    (* doChannels *)
    ["call http_api.NewReqParams"; "if err != nil => 400"; "call Get"; "if err != nil => 400"; "call FindRegistrations"] ].
Definition filter_skip_cond : string := "now.Sub(cur) > inactivityTimeout || p.IsTombstoned(tombstoneLifetime)".
Definition is_tombstoned_expr : string := "p.tombstoned && time.Since(p.tombstonedAt) < lifetime".
