(* The shared nsqd core model (C01, C02, C03, C05, C08, C13): topics, channels,
   consumers, in-flight / deferred bookkeeping, counters — the linearised ("coarse")
   state machine whose steps are the quiescent-to-quiescent effects of
   nsqd/topic.go, nsqd/channel.go, nsqd/client_v2.go and the consumer side of
   nsqd/protocol_v2.go.

   Message identity is the publish sequence number chosen by the harness (carried
   in the body); topics, channels and consumers are named by numbers.  Queue
   placement (memory vs disk) is abstracted: a channel's queue is the multiset of
   messages waiting on it (no property depends on order or placement), except for
   ephemeral channels/topics whose only store is the bounded memory queue (the one
   deliberate overflow loss), modelled by [memcap].

   Time is explicit: every operation carries the wall-clock reading [now] (ns).
   Ghost fields (c_fin, c_emptied, c_lost) are used only by theorems/monitors.
   No proofs here. *)
From Coq Require Import List NArith ZArith Bool.
From RecordUpdate Require Import RecordUpdate.
Import ListNotations.
Open Scope bool_scope.
Open Scope N_scope.

Record config := mkCfg {
  memcap : N;                 (* --mem-queue-size *)
  max_msg_timeout : Z         (* --max-msg-timeout, ns *)
}.

Record msg := mkMsg { m_id : N; m_att : N; m_defer : Z }.

Record ifl := mkIfl { i_msg : msg; i_cid : N; i_deadline : Z; i_dts : Z }.
Record dfr := mkDfr { d_msg : msg; d_release : Z }.

Record chan := mkChan {
  c_id : N; c_eph : bool; c_paused : bool;
  c_queue : list msg;
  c_ifl : list ifl;
  c_dfr : list dfr;
  c_clients : list N;
  c_msgcount : N; c_requeue : N; c_timeout : N;
  c_fin : list N;             (* ghost: ids whose FIN was accepted *)
  c_emptied : list N;         (* ghost: ids discarded by an explicit empty *)
  c_lost : list N             (* ghost: ids dropped by ephemeral overflow *)
}.
#[export] Instance eta_chan : Settable _ :=
  settable! mkChan <c_id; c_eph; c_paused; c_queue; c_ifl; c_dfr; c_clients; c_msgcount; c_requeue; c_timeout; c_fin; c_emptied; c_lost>.

Record topic := mkTopic {
  t_id : N; t_eph : bool; t_paused : bool;
  t_queue : list msg;
  t_mem : N;                  (* how many of the queued messages sit in the memory queue *)
  t_chans : list chan;
  t_msgcount : N; t_bytes : N;
  t_lost : list N
}.
#[export] Instance eta_topic : Settable _ :=
  settable! mkTopic <t_id; t_eph; t_paused; t_queue; t_mem; t_chans; t_msgcount; t_bytes; t_lost>.

(* client states as in nsqd/client_v2.go *)
Definition st_init : N := 0.
Definition st_subscribed : N := 3.
Definition st_closing : N := 4.

Record client := mkClient {
  k_id : N; k_state : N; k_alive : bool;
  k_rdy : Z; k_ifl : Z;
  k_sub : option (N * N);
  k_timeout : Z;                       (* negotiated msg_timeout, ns *)
  k_fincount : N; k_reqcount : N; k_msgcount : N
}.
#[export] Instance eta_client : Settable _ :=
  settable! mkClient <k_id; k_state; k_alive; k_rdy; k_ifl; k_sub; k_timeout; k_fincount; k_reqcount; k_msgcount>.

Record state := mkState { s_topics : list topic; s_clients : list client }.
#[export] Instance eta_state : Settable _ := settable! mkState <s_topics; s_clients>.

Definition init : state := mkState [] [].

(* ------------------------------------------------------------------ lookups *)
Definition find_topic (s : state) (t : N) : option topic :=
  find (fun x => t_id x =? t) (s_topics s).
Definition find_chan (tp : topic) (c : N) : option chan :=
  find (fun x => c_id x =? c) (t_chans tp).
Definition find_client (s : state) (k : N) : option client :=
  find (fun x => k_id x =? k) (s_clients s).
Definition get_chan (s : state) (t c : N) : option chan :=
  match find_topic s t with Some tp => find_chan tp c | None => None end.

Definition upd_chan_in (tp : topic) (c : N) (f : chan -> chan) : topic :=
  tp <| t_chans ::= map (fun x => if c_id x =? c then f x else x) |>.
Definition upd_topic (s : state) (t : N) (f : topic -> topic) : state :=
  s <| s_topics ::= map (fun x => if t_id x =? t then f x else x) |>.
Definition upd_chan (s : state) (t c : N) (f : chan -> chan) : state :=
  upd_topic s t (fun tp => upd_chan_in tp c f).
Definition upd_client (s : state) (k : N) (f : client -> client) : state :=
  s <| s_clients ::= map (fun x => if k_id x =? k then f x else x) |>.

Definition new_chan (c : N) (eph : bool) : chan :=
  mkChan c eph false [] [] [] [] 0 0 0 [] [] [].
Definition new_topic (t : N) (eph : bool) : topic :=
  mkTopic t eph false [] 0 [] 0 0 [].
Definition new_client (k : N) (timeout : Z) : client :=
  mkClient k st_init true 0%Z 0%Z None timeout 0 0 0.

(* ------------------------------------------------------------------ channel-level steps *)
(* Channel.put: the only store of an ephemeral channel is its memory queue *)
Definition chan_put (cfg : config) (m : msg) (ch : chan) : chan :=
  if c_eph ch && (memcap cfg <=? N.of_nat (length (c_queue ch)))
  then ch <| c_lost ::= cons (m_id m) |>
  else ch <| c_queue ::= fun q => q ++ [m] |>.

(* what the topic pump does with one message for one channel *)
Definition chan_receive (cfg : config) (now : Z) (m : msg) (ch : chan) : chan :=
  let ch := ch <| c_msgcount ::= N.succ |> in
  if (m_defer m =? 0)%Z then chan_put cfg m ch
  else ch <| c_dfr ::= cons (mkDfr m (now + m_defer m)%Z) |>.

(* Topic.messagePump: every queued message goes to every current channel *)
Definition pump (cfg : config) (now : Z) (tp : topic) : topic :=
  if t_paused tp then tp
  else match t_chans tp with
       | [] => tp
       | _ =>
           tp <| t_chans ::= map (fun ch => fold_left (fun ch m => chan_receive cfg now m ch) (t_queue tp) ch) |>
              <| t_queue := [] |> <| t_mem := 0 |>
       end.

(* Topic.put.  While the pump can run (un-paused, at least one channel) a message is
   handed over through the memory queue.  While it cannot, messages pile up: in the
   memory queue while there is room, then in the backend, where a deferred message
   loses its timer (and an ephemeral topic, which has no backend, drops). *)
Definition pump_runs (tp : topic) : bool :=
  negb (t_paused tp) && match t_chans tp with [] => false | _ => true end.

Definition topic_put (cfg : config) (m : msg) (tp : topic) : topic :=
  if pump_runs tp then tp <| t_queue ::= fun q => q ++ [m] |>
  else if t_mem tp <? memcap cfg then tp <| t_queue ::= fun q => q ++ [m] |> <| t_mem ::= N.succ |>
  else if t_eph tp then tp <| t_lost ::= cons (m_id m) |>
  else tp <| t_queue ::= fun q => q ++ [mkMsg (m_id m) (m_att m) 0%Z] |>.

Fixpoint remove_msg (id : N) (q : list msg) : option (msg * list msg) :=
  match q with
  | [] => None
  | m :: r => if m_id m =? id then Some (m, r)
              else match remove_msg id r with
                   | Some (x, r') => Some (x, m :: r')
                   | None => None
                   end
  end.

Fixpoint remove_ifl (id : N) (l : list ifl) : option (ifl * list ifl) :=
  match l with
  | [] => None
  | e :: r => if m_id (i_msg e) =? id then Some (e, r)
              else match remove_ifl id r with
                   | Some (x, r') => Some (x, e :: r')
                   | None => None
                   end
  end.

Definition bump (m : msg) : msg := mkMsg (m_id m) ((m_att m + 1) mod 65536) (m_defer m).

(* ------------------------------------------------------------------ operations *)
Inductive op :=
| OCreateTopic (t : N) (eph : bool)
| OCreateChan (t c : N) (teph ceph : bool) (now : Z)
| OPub (t : N) (teph : bool) (ids : list N) (bytes : N) (defer : Z) (now : Z)
| OConnect (k : N) (timeout : Z)
| OSub (k t c : N) (teph ceph : bool) (now : Z)
| ORdy (k : N) (n : Z)
| ODeliver (k id : N) (now : Z)        (* the consumer pump hands message id to consumer k *)
| OFin (k id : N)
| OReq (k id : N) (delay : Z) (now : Z)
| OTouch (k id : N) (now : Z)
| OCls (k : N)
| ODisconnect (k : N)
| OPauseChan (t c : N) (p : bool)
| OPauseTopic (t : N) (p : bool) (now : Z)
| OEmptyChan (t c : N)
| OEmptyTopic (t : N)
| ODeleteChan (t c : N)
| ODeleteTopic (t : N)
| OScanInFlight (t c : N) (now : Z)
| OScanDeferred (t c : N) (now : Z).

Inductive resp :=
| ROk                         (* accepted (OK / CLOSE_WAIT / no answer expected) *)
| RFailed                     (* the non-fatal E_FIN_FAILED / E_REQ_FAILED / E_TOUCH_FAILED *)
| RInvalid                    (* fatal E_INVALID (wrong state) *)
| RNotFound                   (* HTTP 404 *)
| RDelivered (att : N)        (* frame sent with this attempts count *)
| RNotEnabled.                (* a delivery the model does not allow *)

Definition ensure_topic (s : state) (t : N) (eph : bool) : state :=
  match find_topic s t with
  | Some _ => s
  | None => s <| s_topics ::= fun l => l ++ [new_topic t eph] |>
  end.

Definition ensure_chan (s : state) (t c : N) (teph ceph : bool) : state :=
  let s := ensure_topic s t teph in
  upd_topic s t (fun tp => match find_chan tp c with
                           | Some _ => tp
                           | None => tp <| t_chans ::= fun l => l ++ [new_chan c ceph] |>
                           end).

Definition pump_topic (cfg : config) (now : Z) (s : state) (t : N) : state :=
  upd_topic s t (pump cfg now).

(* consumers of a channel are closed when it is deleted *)
Definition close_clients (ks : list N) (s : state) : state :=
  s <| s_clients ::= map (fun k => if existsb (N.eqb (k_id k)) ks then k <| k_alive := false |> else k) |>.

Definition chan_clients_of (tp : topic) : list N := flat_map c_clients (t_chans tp).

(* the client counter is decremented on timeout only if the holder is still subscribed *)
Definition dec_ifl (ks : list N) (holder : N) (s : state) : state :=
  if existsb (N.eqb holder) ks
  then upd_client s holder (fun k => k <| k_ifl ::= fun x => (x - 1)%Z |>)
  else s.

Definition expired_ifl (now : Z) (l : list ifl) : list ifl * list ifl :=
  partition (fun e => (i_deadline e <=? now)%Z) l.
Definition expired_dfr (now : Z) (l : list dfr) : list dfr * list dfr :=
  partition (fun e => (d_release e <=? now)%Z) l.

(* remove a client from its channel; an ephemeral channel disappears with its last
   consumer, an ephemeral topic with its last channel *)
Definition unsubscribe (k : client) (s : state) : state :=
  match k_sub k with
  | None => s
  | Some (t, c) =>
      let s := upd_chan s t c (fun ch => ch <| c_clients ::= filter (fun x => negb (x =? k_id k)) |>) in
      let s := upd_topic s t (fun tp =>
                 tp <| t_chans ::= filter (fun ch => negb ((c_id ch =? c) && c_eph ch &&
                                                          match c_clients ch with [] => true | _ => false end)) |>) in
      s <| s_topics ::= filter (fun tp => negb ((t_id tp =? t) && t_eph tp &&
                                                match t_chans tp with [] => true | _ => false end)) |>
  end.

(* ---- channel-local transformers (each recomputes what it needs from the channel it is
   applied to, so that per-channel invariants are proved once, channel by channel) ---- *)
Definition ch_deliver (k id : N) (deadline now : Z) (ch : chan) : chan :=
  match remove_msg id (c_queue ch) with
  | Some (m, q') => ch <| c_queue := q' |> <| c_ifl ::= cons (mkIfl (bump m) k deadline now) |>
  | None => ch
  end.

Definition ch_fin (k id : N) (ch : chan) : chan :=
  match remove_ifl id (c_ifl ch) with
  | Some (e, l') => if i_cid e =? k then ch <| c_ifl := l' |> <| c_fin ::= cons id |> else ch
  | None => ch
  end.

Definition ch_req (cfg : config) (k id : N) (delay now : Z) (ch : chan) : chan :=
  match remove_ifl id (c_ifl ch) with
  | Some (e, l') =>
      if i_cid e =? k then
        let ch := ch <| c_ifl := l' |> <| c_requeue ::= N.succ |> in
        if (delay =? 0)%Z then chan_put cfg (i_msg e) ch
        else ch <| c_dfr ::= cons (mkDfr (i_msg e) (now + delay)%Z) |>
      else ch
  | None => ch
  end.

Definition touch_deadline (cfg : config) (now timeout dts : Z) : Z :=
  let nd := (now + timeout)%Z in
  if (nd - dts >=? max_msg_timeout cfg)%Z then (dts + max_msg_timeout cfg)%Z else nd.

Definition ch_touch (cfg : config) (k id : N) (now timeout : Z) (ch : chan) : chan :=
  match remove_ifl id (c_ifl ch) with
  | Some (e, l') =>
      if i_cid e =? k
      then ch <| c_ifl := mkIfl (i_msg e) k (touch_deadline cfg now timeout (i_dts e)) (i_dts e) :: l' |>
      else ch
  | None => ch
  end.

Definition ch_empty (ch : chan) : chan :=
  let ids := map m_id (c_queue ch) ++ map (fun e => m_id (i_msg e)) (c_ifl ch)
             ++ map (fun e => m_id (d_msg e)) (c_dfr ch) in
  ch <| c_queue := [] |> <| c_ifl := [] |> <| c_dfr := [] |> <| c_emptied ::= app ids |>.

Definition ch_scan_ifl (cfg : config) (now : Z) (ch : chan) : chan :=
  let '(ex, keep) := expired_ifl now (c_ifl ch) in
  fold_left (fun ch e => chan_put cfg (i_msg e) (ch <| c_timeout ::= N.succ |>)) ex (ch <| c_ifl := keep |>).

Definition ch_scan_dfr (cfg : config) (now : Z) (ch : chan) : chan :=
  let '(ex, keep) := expired_dfr now (c_dfr ch) in
  fold_left (fun ch e => chan_put cfg (d_msg e) ch) ex (ch <| c_dfr := keep |>).

Definition holds (ch : chan) (k id : N) : bool :=
  match remove_ifl id (c_ifl ch) with
  | Some (e, _) => i_cid e =? k
  | None => false
  end.

Definition deliverable (s : state) (kl : client) (ch : chan) (id : N) : bool :=
  k_alive kl && negb (c_paused ch) && (0 <? k_rdy kl)%Z && (k_ifl kl <? k_rdy kl)%Z
  && existsb (N.eqb (k_id kl)) (c_clients ch)
  && match remove_msg id (c_queue ch) with Some _ => true | None => false end.

Definition att_after_delivery (ch : chan) (id : N) : N :=
  match remove_msg id (c_queue ch) with Some (m, _) => m_att (bump m) | None => 0 end.

Definition drop_empty_eph_topic (t : N) (s : state) : state :=
  s <| s_topics ::= filter (fun tp => negb ((t_id tp =? t) && t_eph tp &&
                                            match t_chans tp with [] => true | _ => false end)) |>.

(* the subscription of a consumer that may answer (FIN/REQ/TOUCH are accepted in states
   subscribed and closing) *)
Definition answering (s : state) (k : N) : option (client * N * N * chan) + bool :=
  match find_client s k with
  | Some kl =>
      if (k_state kl =? st_subscribed) || (k_state kl =? st_closing) then
        match k_sub kl with
        | Some (t, c) => match get_chan s t c with
                         | Some ch => inl (Some (kl, t, c, ch))
                         | None => inl None
                         end
        | None => inl None
        end
      else inr false
  | None => inr false
  end.

Definition step (cfg : config) (s : state) (o : op) : state * resp :=
  match o with
  | OCreateTopic t eph => (ensure_topic s t eph, ROk)
  | OCreateChan t c teph ceph now =>
      (* POST /channel/create needs an existing topic *)
      match find_topic s t with
      | Some _ => (pump_topic cfg now (ensure_chan s t c teph ceph) t, ROk)
      | None => (s, RNotFound)
      end
  | OPub t teph ids bytes defer now =>
      let s := ensure_topic s t teph in
      let s := upd_topic s t (fun tp =>
                 let tp := fold_left (fun tp id => topic_put cfg (mkMsg id 0 defer) tp) ids tp in
                 tp <| t_msgcount ::= N.add (N.of_nat (length ids)) |> <| t_bytes ::= N.add bytes |>) in
      (pump_topic cfg now s t, ROk)
  | OConnect k timeout =>
      (* connection ids are never reused (nsqd.clientIDSequence) *)
      match find_client s k with
      | Some _ => (s, RInvalid)
      | None => (s <| s_clients ::= fun l => l ++ [new_client k timeout] |>, ROk)
      end
  | OSub k t c teph ceph now =>
      match find_client s k with
      | Some kl =>
          if (k_state kl =? st_init) && k_alive kl then
            let s := ensure_chan s t c teph ceph in
            let s := upd_chan s t c (fun ch => ch <| c_clients ::= fun l => l ++ [k] |>) in
            let s := upd_client s k (fun x => x <| k_state := st_subscribed |> <| k_sub := Some (t, c) |>) in
            (pump_topic cfg now s t, ROk)
          else (s, RInvalid)
      | None => (s, RInvalid)
      end
  | ORdy k n =>
      match find_client s k with
      | Some kl =>
          if k_state kl =? st_closing then (s, ROk)
          else if k_state kl =? st_subscribed then (upd_client s k (fun x => x <| k_rdy := n |>), ROk)
          else (s, RInvalid)
      | None => (s, RInvalid)
      end
  | ODeliver k id now =>
      match find_client s k with
      | Some kl =>
          match k_sub kl with
          | Some (t, c) =>
              match get_chan s t c with
              | Some ch =>
                  if deliverable s kl ch id then
                    let s' := upd_chan s t c (ch_deliver k id (now + k_timeout kl)%Z now) in
                    let s' := upd_client s' k (fun x => x <| k_ifl ::= Z.succ |> <| k_msgcount ::= N.succ |>) in
                    (s', RDelivered (att_after_delivery ch id))
                  else (s, RNotEnabled)
              | None => (s, RNotEnabled)
              end
          | None => (s, RNotEnabled)
          end
      | None => (s, RNotEnabled)
      end
  | OFin k id =>
      match answering s k with
      | inl (Some (kl, t, c, ch)) =>
          if holds ch k id then
            (upd_client (upd_chan s t c (ch_fin k id)) k
                        (fun x => x <| k_ifl ::= Z.pred |> <| k_fincount ::= N.succ |>), ROk)
          else (s, RFailed)
      | inl None => (s, RFailed)
      | inr _ => (s, RInvalid)
      end
  | OReq k id delay now =>
      match answering s k with
      | inl (Some (kl, t, c, ch)) =>
          if holds ch k id then
            (upd_client (upd_chan s t c (ch_req cfg k id delay now)) k
                        (fun x => x <| k_ifl ::= Z.pred |> <| k_reqcount ::= N.succ |>), ROk)
          else (s, RFailed)
      | inl None => (s, RFailed)
      | inr _ => (s, RInvalid)
      end
  | OTouch k id now =>
      match answering s k with
      | inl (Some (kl, t, c, ch)) =>
          if holds ch k id then (upd_chan s t c (ch_touch cfg k id now (k_timeout kl)), ROk)
          else (s, RFailed)
      | inl None => (s, RFailed)
      | inr _ => (s, RInvalid)
      end
  | OCls k =>
      match find_client s k with
      | Some kl =>
          if k_state kl =? st_subscribed
          then (upd_client s k (fun x => x <| k_rdy := 0%Z |> <| k_state := st_closing |>), ROk)
          else (s, RInvalid)
      | None => (s, RInvalid)
      end
  | ODisconnect k =>
      match find_client s k with
      | Some kl => (upd_client (unsubscribe kl s) k (fun x => x <| k_alive := false |>), ROk)
      | None => (s, ROk)
      end
  | OPauseChan t c p =>
      match get_chan s t c with
      | Some _ => (upd_chan s t c (fun ch => ch <| c_paused := p |>), ROk)
      | None => (s, RNotFound)
      end
  | OPauseTopic t p now =>
      match find_topic s t with
      | Some _ => (pump_topic cfg now (upd_topic s t (fun tp => tp <| t_paused := p |>)) t, ROk)
      | None => (s, RNotFound)
      end
  | OEmptyChan t c =>
      match get_chan s t c with
      | Some ch =>
          let s := upd_chan s t c ch_empty in
          (s <| s_clients ::= map (fun k => if existsb (N.eqb (k_id k)) (c_clients ch)
                                            then k <| k_ifl := 0%Z |> else k) |>, ROk)
      | None => (s, RNotFound)
      end
  | OEmptyTopic t =>
      match find_topic s t with
      | Some _ => (upd_topic s t (fun tp => tp <| t_queue := [] |> <| t_mem := 0 |>), ROk)
      | None => (s, RNotFound)
      end
  | ODeleteChan t c =>
      match find_topic s t with
      | Some tp =>
          match find_chan tp c with
          | Some ch =>
              let s := close_clients (c_clients ch) s in
              let s := upd_topic s t (fun tp => tp <| t_chans ::= filter (fun x => negb (c_id x =? c)) |>) in
              (drop_empty_eph_topic t s, ROk)
          | None => (s, RNotFound)
          end
      | None => (s, RNotFound)
      end
  | ODeleteTopic t =>
      match find_topic s t with
      | Some tp =>
          let s := close_clients (chan_clients_of tp) s in
          (s <| s_topics ::= filter (fun x => negb (t_id x =? t)) |>, ROk)
      | None => (s, RNotFound)
      end
  | OScanInFlight t c now =>
      match get_chan s t c with
      | Some ch =>
          let ex := fst (expired_ifl now (c_ifl ch)) in
          let s := upd_chan s t c (ch_scan_ifl cfg now) in
          (fold_left (fun s e => dec_ifl (c_clients ch) (i_cid e) s) ex s, ROk)
      | None => (s, RNotFound)
      end
  | OScanDeferred t c now =>
      match get_chan s t c with
      | Some _ => (upd_chan s t c (ch_scan_dfr cfg now), ROk)
      | None => (s, RNotFound)
      end
  end.

Definition run (cfg : config) (s : state) (ops : list op) : state :=
  fold_left (fun s o => fst (step cfg s o)) ops s.

(* restart: graceful Exit flushes queue ++ in-flight ++ deferred of every non-ephemeral
   channel to its backend; ephemeral things vanish; consumers are gone; counters restart *)
Definition restart_chan (ch : chan) : chan :=
  mkChan (c_id ch) false (c_paused ch)
         (c_queue ch ++ map i_msg (c_ifl ch) ++ map d_msg (c_dfr ch)) [] [] [] 0 0 0
         (c_fin ch) (c_emptied ch) (c_lost ch).
Definition restart_topic (tp : topic) : topic :=
  mkTopic (t_id tp) false (t_paused tp) (map (fun m => mkMsg (m_id m) (m_att m) 0%Z) (t_queue tp)) 0
          (map restart_chan (filter (fun ch => negb (c_eph ch)) (t_chans tp))) 0 0 (t_lost tp).
Definition restart (s : state) : state :=
  mkState (map restart_topic (filter (fun tp => negb (t_eph tp)) (s_topics s))) [].


(* ------------------------------------------------------------------ observables *)
Definition depth (ch : chan) : N := N.of_nat (length (c_queue ch)).
Definition inflight_count (ch : chan) : N := N.of_nat (length (c_ifl ch)).
Definition deferred_count (ch : chan) : N := N.of_nat (length (c_dfr ch)).
Definition held (ch : chan) : N := depth ch + inflight_count ch + deferred_count ch.

(* is a delivery of some queued message to consumer k enabled? (used to check that the
   implementation is quiescent when the harness says so) *)
Definition client_ready (s : state) (kl : client) : bool :=
  match k_sub kl with
  | Some (t, c) =>
      match get_chan s t c with
      | Some ch => k_alive kl && negb (c_paused ch) && (0 <? k_rdy kl)%Z && (k_ifl kl <? k_rdy kl)%Z
                   && existsb (N.eqb (k_id kl)) (c_clients ch)
                   && match c_queue ch with [] => false | _ => true end
      | None => false
      end
  | None => false
  end.
Definition quiescent (s : state) : bool := negb (existsb (client_ready s) (s_clients s)).
