(* Model of the output side of one client connection (C07):

     nsqd/client_v2.go     clientV2.Writer (a bufio.Writer on top of the snappy / deflate / TLS
                           writer or the socket), clientV2.writeLock, clientV2.Flush
     nsqd/protocol_v2.go   protocolV2.Send: Lock, SendFramedResponse(client.Writer, ...),
                           Flush for everything that is not a message frame, Unlock
                           messagePump: the force flush when the client is not ready, the flush
                           on the output-buffer-timeout ticker (each Lock, Flush, Unlock)

   The buffered writer is shared by the goroutines of the connection: the consumer's
   messagePump (message frames, heartbeats, the two flushes) and the IOLoop (the response or
   error frame of every command the connection sends).  Any number of goroutines, each with a
   program of jobs; a schedule interleaves their steps in any order.

     JSend site frame flush   append the frame to the buffer (the three Writes of
                              SendFramedResponse; bufio's own flush of a frame that does
                              not fit happens inside the same call and is the job's flush),
                              then flush or not
     JFlush site              flush

   A flush is bufio.Writer.Flush: it takes the slice buf[0:n] as it is at the call, hands it
   to the transport -- which takes it piece by piece and may block between the pieces (a full
   TCP window), every piece being read from the array as it is AT THAT MOMENT -- and, when
   the transport has taken the n bytes, moves whatever the buffer holds behind them to the
   front (copy(buf[0:b.n-n], buf[n:b.n]); b.n -= n); finding more than n bytes there is
   io.ErrShortWrite, on which the goroutine gives up.  The array is buffered bytes followed
   by whatever it held before ([w_stale]).

   [locks site]: does the code at that site hold writeLock around its use of the writer.
   Site 0 = Send, 1 = the pump's not-ready flush, 2 = the pump's timed flush; what the Go
   source does at each is read from the source on every run (gen/WriteLock.v).  A site that
   locks waits while another goroutine holds the lock (its step is then a no-op).
   No proofs here. *)
From Coq Require Import List Arith Bool NArith.
From NSQV Require Import model.Judge model.Pool.
Import ListNotations.

Definition site_send : nat := 0.
Definition site_flush_notready : nat := 1.
Definition site_flush_timed : nat := 2.

Inductive wjob :=
| JSend (site : nat) (frame : bytes) (flush : bool)
| JFlush (site : nat).

Definition job_site (j : wjob) : nat :=
  match j with JSend s _ _ => s | JFlush s => s end.

Inductive wphase :=
| WStart                     (* before the job (and before its Lock) *)
| WIn                        (* past the Lock, nothing written yet *)
| WFlush (n sent : nat).     (* inside Flush: the slice is buf[0:n], sent bytes of it are out *)

Record wthread := mkThread {
  t_jobs : list wjob;        (* the current job and what follows *)
  t_phase : wphase;
  t_failed : bool            (* gave up on io.ErrShortWrite *)
}.

Record wstate := mkWS {
  w_buf : bytes;               (* buf[0:b.n] *)
  w_stale : bytes;             (* buf[b.n:] *)
  w_wire : bytes;              (* what the transport below has been handed, in order *)
  w_lock : option nat;         (* writeLock's holder *)
  w_log : list (nat * bytes);  (* (goroutine, frame) in the order the frames entered the buffer *)
  w_threads : nat -> wthread
}.

Definition release (locks : nat -> bool) (site : nat) (l : option nat) : option nat :=
  if locks site then None else l.

(* one step of goroutine t; k resolves how many bytes the transport takes before it blocks *)
Definition wstep (locks : nat -> bool) (s : wstate) (t k : nat) : wstate :=
  let th := w_threads s t in
  match t_jobs th with
  | [] => s
  | j :: rest =>
      let site := job_site j in
      match t_phase th with
      | WStart =>
          if locks site then
            match w_lock s with
            | None =>
                mkWS (w_buf s) (w_stale s) (w_wire s) (Some t) (w_log s)
                     (upd (w_threads s) t (mkThread (t_jobs th) WIn (t_failed th)))
            | Some _ => s
            end
          else
            mkWS (w_buf s) (w_stale s) (w_wire s) (w_lock s) (w_log s)
                 (upd (w_threads s) t (mkThread (t_jobs th) WIn (t_failed th)))
      | WIn =>
          match j with
          | JSend _ fr fl =>
              let buf' := w_buf s ++ fr in
              let stale' := skipn (length fr) (w_stale s) in
              let log' := w_log s ++ [(t, fr)] in
              if fl
              then mkWS buf' stale' (w_wire s) (w_lock s) log'
                        (upd (w_threads s) t (mkThread (t_jobs th) (WFlush (length buf') 0) (t_failed th)))
              else mkWS buf' stale' (w_wire s) (release locks site (w_lock s)) log'
                        (upd (w_threads s) t (mkThread rest WStart (t_failed th)))
          | JFlush _ =>
              mkWS (w_buf s) (w_stale s) (w_wire s) (w_lock s) (w_log s)
                   (upd (w_threads s) t (mkThread (t_jobs th) (WFlush (length (w_buf s)) 0) (t_failed th)))
          end
      | WFlush n sent =>
          if Nat.ltb sent n then
            let len := Nat.min (S k) (n - sent) in
            let piece := firstn len (skipn sent (firstn n (w_buf s ++ w_stale s))) in
            mkWS (w_buf s) (w_stale s) (w_wire s ++ piece) (w_lock s) (w_log s)
                 (upd (w_threads s) t (mkThread (t_jobs th) (WFlush n (sent + len)) (t_failed th)))
          else
            let short := Nat.ltb n (length (w_buf s)) in
            mkWS (skipn n (w_buf s)) (skipn (length (w_buf s) - n) (w_buf s ++ w_stale s)) (w_wire s)
                 (release locks site (w_lock s)) (w_log s)
                 (upd (w_threads s) t (mkThread (if short then [] else rest) WStart (short || t_failed th)))
      end
  end.

(* a schedule: (goroutine, choice) pairs *)
Definition wrun (locks : nat -> bool) (s : wstate) (sched : list (nat * nat)) : wstate :=
  fold_left (fun s tk => wstep locks s (fst tk) (snd tk)) sched s.

Definition winit (progs : nat -> list wjob) : wstate :=
  mkWS [] [] [] None [] (fun t => mkThread (progs t) WStart false).

(* the frames a program sends, in its order *)
Definition frames_of (jobs : list wjob) : list bytes :=
  flat_map (fun j => match j with JSend _ fr _ => [fr] | JFlush _ => [] end) jobs.

(* the frames of goroutine t in the log, in the order they entered the buffer *)
Definition logged (t : nat) (log : list (nat * bytes)) : list bytes :=
  map snd (filter (fun e => Nat.eqb (fst e) t) log).

(* how much of the buffer a flush in progress (under the lock) has handed over already *)
Definition sent_of (s : wstate) : nat :=
  match w_lock s with
  | Some t => match t_phase (w_threads s t) with WFlush _ sent => sent | _ => 0 end
  | None => 0
  end.
