(* Model of internal/quantile/aggregate.go (C18): E2eProcessingLatencyAggregate.UnmarshalJSON
   and .Add -- the merge of the per-node end-to-end latency percentiles that ChannelStats.Add
   and TopicStats.Add run for every node -- and of the places nsqadmin's channel view and topic
   view take their "e2e_processing_latency" from.

   Numbers.  The code computes in float64; the model computes in exact rationals and writes the
   one operation that can leave the finite numbers explicitly: [fdiv] is `a / b`, which for
   b = 0 is NaN or an infinity -- encoding/json refuses both, so the handler that encodes the
   aggregate answers 500 ([Recovered]: nothing is served, the process lives).  float64 rounding
   and overflow are not modelled: the correspondence feeds numbers float64 represents exactly
   (integers below 2^53, halves) and compares averages up to a relative 2^-40.

   A percentile entry of an aggregate is a Go map; the keys the merge reads and writes are
   "quantile", "max", "count", "average" ([pent]); "min" is written but never read (the code
   sets it to the max of the node merged last) and "value" is only copied by UnmarshalJSON:
   neither is modelled.  A nil map ([None]) reads as 0 under every key and panics when assigned
   into; UnmarshalJSON drops the JSON null entries (dc56edf), so no decoded block holds one --
   only a hand-built receiver can (QuantileProofs: the merge of decoded blocks never panics).
   sort.Sort at the end of Add orders by the key "percentile", which no entry has: the order of
   the entries is compared as a multiset.  No proofs here. *)
From Coq Require Import List ZArith QArith Bool.
From NSQV Require Import model.Judge model.Cluster.
Import ListNotations.
Open Scope list_scope.
Open Scope Q_scope.

Record pent := mkPE { pe_q : Q; pe_max : Q; pe_count : Q; pe_avg : Q }.
Record eagg := mkEA { ea_count : Z; ea_pcts : list (option pent) }.

(* m[key] of a possibly nil map *)
Definition oget (f : pent -> Q) (v : option pent) : Q := match v with Some e => f e | None => 0 end.

(* UnmarshalJSON: null entries are skipped (`if p == nil { continue }`); every other entry p:
   p["min"] = p["max"] = p["average"] = p["value"], p["count"] = float64(resp.Count), and is
   appended to the aggregate's list *)
Definition decode_pct (cnt : Z) (p : pct) : pent := mkPE (pc_q p) (pc_val p) (inject_Z cnt) (pc_val p).
Definition e2e_decode (e : e2e) : eagg :=
  mkEA (e_count e) (map (fun p => Some (decode_pct (e_count e) p)) (nonnil (e_pcts e))).

(* math.Max on finite numbers *)
Definition qmax (a b : Q) : Q := if Qle_bool a b then b else a.

(* a / b in float64: not a finite number when b = 0 *)
Definition fdiv (a b : Q) : res Q := if Qeq_bool b 0 then Recovered else Ok (a / b).

(* the body of Add's loop once the entry p[i] = [cur] is chosen:
     p[i]["max"] = math.Max(value["max"], p[i]["max"]) ; p[i]["count"] += value["count"]
     if p[i]["count"] == 0 { p[i]["average"] = 0; continue }
     delta := value["average"] - p[i]["average"]; R := delta * value["count"] / p[i]["count"]
     p[i]["average"] = p[i]["average"] + R *)
Definition merge_into (cur : pent) (value : option pent) : res pent :=
  let mx := qmax (oget pe_max value) (pe_max cur) in
  let cnt := pe_count cur + oget pe_count value in
  if Qeq_bool cnt 0 then Ok (mkPE (pe_q cur) mx cnt 0)
  else bind (fdiv ((oget pe_avg value - pe_avg cur) * oget pe_count value) cnt) (fun R =>
       Ok (mkPE (pe_q cur) mx cnt (pe_avg cur + R))).

(* one element of e2.Percentiles: the first entry of p with the same "quantile" (float ==), or
   a new map appended with that quantile; the assignment p[i]["max"] = ... into a nil map panics *)
Definition fresh (q : Q) : pent := mkPE q 0 0 0.
Fixpoint add_value (p : list (option pent)) (value : option pent) : res (list (option pent)) :=
  match p with
  | [] => bind (merge_into (fresh (oget pe_q value)) value) (fun e => Ok [Some e])
  | x :: r =>
      if Qeq_bool (oget pe_q value) (oget pe_q x)
      then match x with
           | None => Recovered
           | Some cur => bind (merge_into cur value) (fun e => Ok (Some e :: r))
           end
      else bind (add_value r value) (fun r' => Ok (x :: r'))
  end.

(* Add: nothing for a nil e2; e.Count += e2.Count (a Go int); every element of e2.Percentiles *)
Definition eagg_add (e : eagg) (e2 : option eagg) : res eagg :=
  match e2 with
  | None => Ok e
  | Some a => bind (fold_res add_value (ea_pcts a) (ea_pcts e)) (fun p =>
              Ok (mkEA (w64 (ea_count e + ea_count a)) p))
  end.
(* &E2eProcessingLatencyAggregate{Addr: .., Topic: ..}: what ChannelStats.Add / TopicStats.Add
   create when the receiver has none *)
Definition eagg_zero : eagg := mkEA 0 [].

(* the receiver's aggregate (None = nil pointer) after Add of one node's (as decoded) *)
Definition stats_e2e_add (cur : option eagg) (a : option e2e) : res (option eagg) :=
  bind (eagg_add (match cur with Some e => e | None => eagg_zero end) (option_map e2e_decode a)) (fun e => Ok (Some e)).

(* ---- what the views encode *)
(* GetNSQDStats: channelStatsMap[key] = &ChannelStats{...} then Add of every node's channel:
   the channel view's aggregate; also TopicStats.Add over the nodes of a fresh TopicStats:
   the topic view's own aggregate *)
Definition e2e_of_nodes (nodes : list (option e2e)) : res (option eagg) :=
  fold_res stats_e2e_add nodes None.

(* the topic view's channels: TopicStats.Add appends the first node's *ChannelStats of a name
   as it is -- its aggregate is that node's decoded one, or nil -- and Adds the later nodes'
   to THAT object *)
Definition e2e_of_receiver (recv : option eagg) (nodes : list (option e2e)) : res (option eagg) :=
  fold_res stats_e2e_add nodes recv.
Definition e2e_of_topic_channel (nodes : list (option e2e)) : res (option eagg) :=
  match nodes with
  | [] => Ok None
  | a :: r => e2e_of_receiver (option_map e2e_decode a) r
  end.
(* a receiver built by hand with [k] nil maps in front of its decoded entries: no upstream
   answer produces it; the correspondence uses it to exercise Add's assignment into a nil map *)
Definition with_nil_maps (k : nat) (e : eagg) : eagg := mkEA (ea_count e) (repeat None k ++ ea_pcts e).

(* ---- the plain functions the theorems are about: entries without nil maps, plain division *)
Definition merge_p (cur : pent) (value : option pent) : pent :=
  let mx := qmax (oget pe_max value) (pe_max cur) in
  let cnt := pe_count cur + oget pe_count value in
  if Qeq_bool cnt 0 then mkPE (pe_q cur) mx cnt 0
  else mkPE (pe_q cur) mx cnt (pe_avg cur + (oget pe_avg value - pe_avg cur) * oget pe_count value / cnt).
Fixpoint add_value_p (p : list pent) (value : option pent) : list pent :=
  match p with
  | [] => [merge_p (fresh (oget pe_q value)) value]
  | x :: r => if Qeq_bool (oget pe_q value) (pe_q x) then merge_p x value :: r else x :: add_value_p r value
  end.
Definition merge_all (p : list pent) (values : list (option pent)) : list pent := fold_left add_value_p values p.

(* the first entry with quantile k *)
Fixpoint find_q (k : Q) (p : list pent) : option pent :=
  match p with
  | [] => None
  | x :: r => if Qeq_bool k (pe_q x) then Some x else find_q k r
  end.

(* every element the Adds of a list of nodes go through, in order *)
Definition node_values (nodes : list (option e2e)) : list (option pent) :=
  flat_map (fun e => ea_pcts (e2e_decode e)) (nonnil nodes).
Definition node_count (nodes : list (option e2e)) : Z :=
  fold_left (fun z e => w64 (z + e_count e)) (nonnil nodes) 0%Z.

(* specification side: the contributions to quantile k *)
Definition mine (k : Q) (values : list (option pent)) : list (option pent) :=
  filter (fun v => Qeq_bool (oget pe_q v) k) values.
Fixpoint sumQ (l : list Q) : Q := match l with [] => 0 | x :: r => x + sumQ r end.
Definition maxQ (init : Q) (l : list Q) : Q := fold_left (fun m v => qmax v m) l init.
