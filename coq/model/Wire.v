(* Model of the byte-level formats every message body travels through (C07):

     nsqd/message.go        Message.WriteTo / decodeMessage  (disk record = wire payload)
     internal/protocol/protocol.go  SendFramedResponse        (frame = size, type, data)
     the client side reading of frames (go-nsq ReadResponse / UnpackResponse), as a
       byte-at-a-time reader so that chunk boundaries cannot matter
     nsqd/protocol_v2.go    readLen, the PUB/DPUB body read, readMPUB, and the MPUB /
       PUB / DPUB handlers' effect on the topic queue (all-or-nothing)
     nsqd/http.go           doPUB body checks, doMPUB (binary and text mode)
     nsqd/topic.go          the per-channel copy in Topic.messagePump
     nsqd/protocol_v2.go    msg.Attempts++ on delivery (uint16)

   Bytes are N; [wf_bytes] says < 256.  Go's fixed-width conversions are explicit
   (uint64(int64), int32(uint32), uint32(len)+4).  Slicing out of range is a Panic
   outcome.  Numeric layout constants come from gen/Consts.v and gen/WireLayout.v.
   No proofs here. *)
From Coq Require Import List NArith ZArith Bool.
From NSQV Require Import gen.Consts gen.WireLayout model.Judge model.Guid model.Relay.
Import ListNotations.
Open Scope Z_scope.

(* ------------------------------------------------------------------ bytes *)
Definition byte_ok (b : N) : bool := (b <? 256)%N.
Definition bytes_ok (l : bytes) : bool := forallb byte_ok l.
Definition wf_bytes (l : bytes) : Prop := Forall (fun b => (b < 256)%N) l.
Definition len (l : bytes) : Z := Z.of_nat (length l).

(* big-endian, k bytes; the value is taken modulo 256^k, as PutUintNN does on a value
   that has already been converted to that width *)
Fixpoint be_enc (k : nat) (v : N) : bytes :=
  match k with
  | O => []
  | S k' => be_enc k' (v / 256)%N ++ [(v mod 256)%N]
  end.

Fixpoint be_dec_from (acc : N) (b : bytes) : N :=
  match b with
  | [] => acc
  | x :: r => be_dec_from (acc * 256 + x)%N r
  end.
Definition be_dec (b : bytes) : N := be_dec_from 0%N b.

Definition two32 : Z := 4294967296.
Definition two31 : Z := 2147483648.

Definition u64_of_i64 (z : Z) : N := Z.to_N (z mod two64).        (* uint64(int64) *)
Definition i64_of_u64 (n : N) : Z := wrap64 (Z.of_N n).           (* int64(uint64) *)
Definition u32_of_z (z : Z) : N := Z.to_N (z mod two32).          (* uint32(x)     *)
Definition i32_of_u32 (n : N) : Z :=                              (* int32(uint32) *)
  let m := Z.of_N n mod two32 in if m <? two31 then m else m - two32.

(* the first n elements, n a binary number (io.LimitReader of n bytes) *)
Fixpoint take (n : Z) (l : bytes) : bytes :=
  match l with
  | [] => []
  | x :: r => if n <=? 0 then [] else x :: take (n - 1) r
  end.

(* what is left after the first n elements *)
Fixpoint drop (n : Z) (l : bytes) : bytes :=
  match l with
  | [] => []
  | x :: r => if n <=? 0 then l else drop (n - 1) r
  end.

(* b[lo:hi] when the bounds are in range *)
Definition slice (lo hi : Z) (b : bytes) : bytes :=
  firstn (Z.to_nat (hi - lo)) (skipn (Z.to_nat lo) b).

(* ------------------------------------------------------------------ messages *)
(* Go's Message: the four fields that are serialised, plus the in-memory only
   [deferred] duration (it is not part of the record: a message that goes through a
   disk queue loses it, as the comment in Topic.put says). *)
Record wmsg := mkMsg {
  m_id : bytes;          (* MessageID, [MsgIDLength]byte *)
  m_body : bytes;
  m_ts : Z;              (* int64 nanoseconds *)
  m_attempts : N;        (* uint16 *)
  m_deferred : Z
}.

Definition id_len : nat := Z.to_nat nsqd_MsgIDLength.

Definition wf_msg (m : wmsg) : Prop :=
  length (m_id m) = id_len /\ wf_bytes (m_id m) /\ wf_bytes (m_body m) /\
  - two63 <= m_ts m < two63 /\ (m_attempts m < 65536)%N.

Definition wf_msgb (m : wmsg) : bool :=
  Nat.eqb (length (m_id m)) id_len && bytes_ok (m_id m) && bytes_ok (m_body m) &&
  (- two63 <=? m_ts m) && (m_ts m <? two63) && (m_attempts m <? 65536)%N.

(* NewMessage(id, body) at clock reading [now] *)
Definition new_message (id body : bytes) (now : Z) : wmsg := mkMsg id body now 0 0.

(* Message.WriteTo: 8-byte timestamp, 2-byte attempts (one 10-byte buffer), the id, the body *)
Definition encode_msg (m : wmsg) : bytes :=
  be_enc 8 (u64_of_i64 (m_ts m)) ++ be_enc 2 (m_attempts m) ++ m_id m ++ m_body m.

Inductive dec_res := DecOk (m : wmsg) | DecErr | DecPanic.

(* decodeMessage *)
Definition decode_msg (b : bytes) : dec_res :=
  if len b <? nsqd_minValidMsgLength then DecErr
  else if len b <? wl_dec_body_lo then DecPanic      (* b[10:10+MsgIDLength] out of range *)
  else DecOk (mkMsg (slice (fst wl_dec_id) (snd wl_dec_id) b)
                    (skipn (Z.to_nat wl_dec_body_lo) b)
                    (i64_of_u64 (be_dec (slice 0 8 b)))
                    (be_dec (slice 8 10 b))
                    0).

(* writeMessageToBackend ; <-backend.ReadChan() ; decodeMessage.  The disk queue itself
   is an abstract FIFO of records. *)
Definition through_disk (m : wmsg) : dec_res := decode_msg (encode_msg m).

(* protocolV2.messagePump: msg.Attempts++ (uint16 wraps) before the message is sent *)
Definition deliver (m : wmsg) : wmsg :=
  mkMsg (m_id m) (m_body m) (m_ts m) ((m_attempts m + 1) mod 65536)%N (m_deferred m).

(* Topic.messagePump: channel number i gets the topic's own instance (i = 0) or
   NewMessage(msg.ID, msg.Body) with Timestamp and deferred copied *)
Definition channel_copy (i : nat) (m : wmsg) : wmsg :=
  match i with
  | O => m
  | S _ => mkMsg (m_id m) (m_body m) (m_ts m) 0 (m_deferred m)
  end.

(* the hops a message can take between the publish and one delivery *)
Inductive hop :=
| HMem                    (* a memory queue: the same instance *)
| HDisk                   (* encode, backend, decode (also: flush at exit + restart) *)
| HCopy (i : nat)         (* Topic.messagePump's per-channel copy *)
| HDeliver                (* sent to a consumer: Attempts++ *)
| HRequeue (delay : Z).   (* REQ / timeout: back into the channel (deferred or not) *)

Definition apply_hop (h : hop) (m : wmsg) : dec_res :=
  match h with
  | HMem => DecOk m
  | HDisk => through_disk m
  | HCopy i => DecOk (channel_copy i m)
  | HDeliver => DecOk (deliver m)
  | HRequeue _ => DecOk m
  end.

Fixpoint apply_path (p : list hop) (m : wmsg) : dec_res :=
  match p with
  | [] => DecOk m
  | h :: r => match apply_hop h m with
              | DecOk m' => apply_path r m'
              | e => e
              end
  end.

Fixpoint deliveries (p : list hop) : N :=
  match p with
  | [] => 0
  | HDeliver :: r => (1 + deliveries r)%N
  | _ :: r => deliveries r
  end.

(* ------------------------------------------------------------------ frames *)
(* SendFramedResponse: size := uint32(len(data)) + 4; frame type; data *)
Definition frame (ftype : Z) (data : bytes) : bytes :=
  be_enc 4 (u32_of_z (len data + wl_frame_extra)) ++ be_enc 4 (u32_of_z ftype) ++ data.

(* protocolV2.SendMessage *)
Definition send_message (m : wmsg) : bytes := frame nsqd_frameTypeMessage (encode_msg m).

(* The consumer side (go-nsq ReadResponse + UnpackResponse) as a reader that consumes
   the connection's bytes one at a time -- what io.ReadFull over a bufio.Reader amounts
   to, whatever the sizes of the underlying reads:
     read 4 bytes: int32 size, negative = error; read size bytes; fewer than 4 = error;
     first 4 = int32 frame type, rest = data. *)
Inductive rstate :=
| RHdr (acc : bytes)                  (* fewer than 4 size bytes so far *)
| RBody (need : Z) (racc : bytes)     (* need >= 1 more payload bytes; racc = those read so far, reversed *)
| RBad.

Definition rinit : rstate := RHdr [].

Definition finish_payload (p : bytes) : rstate * list (Z * bytes) :=
  if len p <? 4 then (RBad, [])
  else (rinit, [(i32_of_u32 (be_dec (firstn 4 p)), skipn 4 p)]).

Definition rstep (st : rstate) (b : N) : rstate * list (Z * bytes) :=
  match st with
  | RBad => (RBad, [])
  | RHdr acc =>
      let acc' := acc ++ [b] in
      if Nat.eqb (length acc') 4 then
        let size := i32_of_u32 (be_dec acc') in
        if size <? 0 then (RBad, [])
        else if size =? 0 then finish_payload []
        else (RBody size [], [])
      else (RHdr acc', [])
  | RBody need racc =>
      let racc' := b :: racc in
      if need <=? 1 then finish_payload (rev racc') else (RBody (need - 1) racc', [])
  end.

Fixpoint rrun (st : rstate) (s : bytes) : rstate * list (Z * bytes) :=
  match s with
  | [] => (st, [])
  | b :: r => let '(st1, o1) := rstep st b in
              let '(st2, o2) := rrun st1 r in (st2, o1 ++ o2)
  end.

(* the reader fed chunk by chunk (one chunk = whatever one Read of the socket returned) *)
Fixpoint rrun_chunks (st : rstate) (chunks : list bytes) : rstate * list (Z * bytes) :=
  match chunks with
  | [] => (st, [])
  | c :: r => let '(st1, o1) := rrun st c in
              let '(st2, o2) := rrun_chunks st1 r in (st2, o1 ++ o2)
  end.

(* what the consumer makes of a message frame (go-nsq DecodeMessage has the layout of
   decodeMessage) *)
Definition recv_message (f : Z * bytes) : dec_res :=
  if fst f =? nsqd_frameTypeMessage then decode_msg (snd f) else DecErr.

(* ------------------------------------------------------------------ TCP publish bodies *)
Inductive perr := E_BAD_BODY | E_BAD_MESSAGE | E_FUEL.

Inductive rd (A : Type) := RdOk (a : A) (rest : bytes) | RdErr (e : perr).
Arguments RdOk {A} a rest.
Arguments RdErr {A} e.

(* readLen: io.ReadFull of 4 bytes, int32(BigEndian.Uint32) *)
Definition read_len (s : bytes) : option (Z * bytes) :=
  if len s <? 4 then None
  else Some (i32_of_u32 (be_dec (firstn 4 s)), skipn 4 s).

(* make([]byte, n) ; io.ReadFull *)
Definition read_full (n : Z) (s : bytes) : option (bytes * bytes) :=
  if len s <? n then None
  else Some (firstn (Z.to_nat n) s, skipn (Z.to_nat n) s).

(* the body part of PUB and DPUB *)
Definition read_pub_body (max_msg : Z) (s : bytes) : rd bytes :=
  match read_len s with
  | None => RdErr E_BAD_MESSAGE
  | Some (n, s1) =>
      if n <=? 0 then RdErr E_BAD_MESSAGE
      else if n >? max_msg then RdErr E_BAD_MESSAGE
      else match read_full n s1 with
           | None => RdErr E_BAD_MESSAGE
           | Some (body, rest) => RdOk body rest
           end
  end.

Definition encode_pub_body (body : bytes) : bytes := be_enc 4 (u32_of_z (len body)) ++ body.

(* readMPUB's loop; every accepted message consumes at least 5 bytes, so
   fuel = S (length s) is never exhausted (E_FUEL is unreachable: WireProofs) *)
Fixpoint read_mpub_msgs (fuel : nat) (max_msg : Z) (n : Z) (s : bytes) : rd (list bytes) :=
  if n <=? 0 then RdOk [] s
  else match fuel with
       | O => RdErr E_FUEL
       | S f =>
           match read_len s with
           | None => RdErr E_BAD_MESSAGE
           | Some (sz, s1) =>
               if sz <=? 0 then RdErr E_BAD_MESSAGE
               else if sz >? max_msg then RdErr E_BAD_MESSAGE
               else match read_full sz s1 with
                    | None => RdErr E_BAD_MESSAGE
                    | Some (body, s2) =>
                        match read_mpub_msgs f max_msg (n - 1) s2 with
                        | RdOk more rest => RdOk (body :: more) rest
                        | RdErr e => RdErr e
                        end
                    end
           end
       end.

(* readMPUB(r, tmp, topic, maxMessageSize, maxBodySize) *)
Definition read_mpub (max_msg max_body : Z) (s : bytes) : rd (list bytes) :=
  match read_len s with
  | None => RdErr E_BAD_BODY
  | Some (n, s1) =>
      let max_messages := Z.quot (max_body - 4) 5 in
      if (n <=? 0) || (n >? max_messages) then RdErr E_BAD_BODY
      else read_mpub_msgs (S (length s1)) max_msg n s1
  end.

Definition encode_mpub_msgs (bodies : list bytes) : bytes :=
  flat_map encode_pub_body bodies.

Definition encode_mpub (bodies : list bytes) : bytes :=
  be_enc 4 (u32_of_z (Z.of_nat (length bodies))) ++ encode_mpub_msgs bodies.

(* protocolV2.MPUB after the command line: total size, then readMPUB on an
   io.LimitReader of that many bytes of the connection: what the batch does not use of the
   declared size, and everything beyond it, stays in the stream *)
Definition mpub_tcp (max_msg max_body : Z) (s : bytes) : rd (list bytes) :=
  match read_len s with
  | None => RdErr E_BAD_BODY
  | Some (n, s1) =>
      if n <=? 0 then RdErr E_BAD_BODY
      else if n >? max_body then RdErr E_BAD_BODY
      else match read_mpub max_msg max_body (take n s1) with
           | RdOk bodies r => RdOk bodies (r ++ drop n s1)
           | RdErr e => RdErr e
           end
  end.

Definition encode_mpub_tcp (bodies : list bytes) : bytes :=
  let b := encode_mpub bodies in be_enc 4 (u32_of_z (len b)) ++ b.

(* the effect of a publish command on the topic's queue of bodies: all or nothing *)
Definition publish_effect (queue : list bytes) (r : rd (list bytes)) : list bytes :=
  match r with
  | RdOk bodies _ => queue ++ bodies
  | RdErr _ => queue
  end.

(* ------------------------------------------------------------------ HTTP publish bodies *)
Inductive herr := H_MSG_TOO_BIG | H_BODY_TOO_BIG | H_MSG_EMPTY | H_BAD_BODY | H_BAD_MESSAGE | H_FUEL.
Inductive hres := HOk (msgs : list bytes) | HErr (e : herr).

(* doPUB: [cl] is req.ContentLength (-1 when unknown / chunked) *)
Definition http_pub (max_msg : Z) (cl : Z) (body : bytes) : hres :=
  if cl >? max_msg then HErr H_MSG_TOO_BIG
  else
    let read_max := max_msg + 1 in
    let data := take read_max body in
    if len data =? read_max then HErr H_MSG_TOO_BIG
    else if len data =? 0 then HErr H_MSG_EMPTY
    else HOk [data].

(* doMPUB, text mode: ReadBytes('\n') over a LimitReader of max_body+1 bytes *)
Definition nl : N := 10%N.

Fixpoint text_loop (fuel : nat) (max_msg read_max total : Z) (inp : bytes) : hres :=
  match fuel with
  | O => HErr H_FUEL
  | S f =>
      let '(block, eof, rest) := read_bytes nl inp in
      let total' := total + len block in
      if total' =? read_max then HErr H_BODY_TOO_BIG
      else
        let blk := trim_delim nl block in
        match blk with
        | [] => if eof then HOk [] else text_loop f max_msg read_max total' rest
        | _ =>
            if len blk >? max_msg then HErr H_MSG_TOO_BIG
            else if eof then HOk [blk]
            else match text_loop f max_msg read_max total' rest with
                 | HOk more => HOk (blk :: more)
                 | HErr e => HErr e
                 end
        end
  end.

Definition http_mpub_text (max_msg max_body : Z) (cl : Z) (body : bytes) : hres :=
  if cl >? max_body then HErr H_BODY_TOO_BIG
  else
    let read_max := max_body + 1 in
    let data := take read_max body in
    text_loop (S (length data)) max_msg read_max 0 data.

(* doMPUB, binary mode: readMPUB on an io.LimitReader of max_body bytes of the request
   body; any error is 413 with the code's E_ prefix cut off *)
Definition http_mpub_binary (max_msg max_body : Z) (cl : Z) (body : bytes) : hres :=
  if cl >? max_body then HErr H_BODY_TOO_BIG
  else match read_mpub max_msg max_body (take max_body body) with
       | RdOk bodies _ => HOk bodies
       | RdErr E_BAD_BODY => HErr H_BAD_BODY
       | RdErr E_BAD_MESSAGE => HErr H_BAD_MESSAGE
       | RdErr E_FUEL => HErr H_FUEL
       end.

Definition http_effect (queue : list bytes) (r : hres) : list bytes :=
  match r with
  | HOk msgs => queue ++ msgs
  | HErr _ => queue
  end.

(* ------------------------------------------------------------------ message ids *)
(* the id of a message is guid.Hex(): 16 lower-case hex characters *)
Definition id_of_guid (g : Z) : bytes := map Z.to_N (hex g).

Definition is_hex_byte (c : N) : bool :=
  ((48 <=? c) && (c <=? 57) || (97 <=? c) && (c <=? 102))%N.
Definition id_is_hex16 (id : bytes) : bool :=
  Nat.eqb (length id) 16 && forallb is_hex_byte id.
