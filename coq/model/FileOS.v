(* The operating-system side of C19: a small model of the file operations nsq_to_file
   performs, with a volatile (page cache) and a durable (fsynced) part per file.

   A file's content is a list of chunks; a chunk carries the written bytes and a
   ghost tag (the id of the message it was written for, None for anything else).
   For gzip output a chunk list is appended only when a gzip member is complete
   ([OMember]): the content recorded here is the *decompressible* content, bytes of a
   member that is still open are not part of any file.

   Assumptions made by this model (the OS is modelled, not verified):
     - write appends to the volatile part; fsync moves the volatile part to the
       durable part; a crash keeps the durable part and an arbitrary prefix of the
       volatile part;
     - directory operations (create, link, unlink, rename) are atomic and ordered
       with the data (the name of an fsynced file survives a crash);
     - open(O_CREAT|O_EXCL) and link(2) fail with EEXIST when the name exists;
     - any write / fsync / close / link / unlink / open may fail with another error
       (EIO, ENOSPC, EDQUOT, EMFILE, ...): a failed call has no effect ([OFail]); in
       particular a failed fsync makes nothing durable, and a failed write may have written
       a part of its bytes before (recorded as an ordinary [OWrite] in front of it).
   No proofs here. *)
From Coq Require Import List ZArith NArith Bool.
From NSQV Require Import model.Judge.
Import ListNotations.
Open Scope bool_scope.
Open Scope N_scope.

Inductive dirT := DWork | DOut.
Definition key : Type := dirT * bytes.

Definition dir_eqb (a b : dirT) : bool :=
  match a, b with DWork, DWork => true | DOut, DOut => true | _, _ => false end.
Definition key_eqb (a b : key) : bool := dir_eqb (fst a) (fst b) && bytes_eqb (snd a) (snd b).

Definition chunk : Type := option N * bytes.
Definition msg : Type := N * bytes.                 (* id, body *)
Definition line (m : msg) : chunk := (Some (fst m), snd m ++ [10]).

Record file := mkFile { f_dur : list chunk; f_vol : list chunk }.
Definition fsT := list (key * file).

Fixpoint lookup (fs : fsT) (k : key) : option file :=
  match fs with
  | [] => None
  | (k', f) :: r => if key_eqb k k' then Some f else lookup r k
  end.

Fixpoint update (fs : fsT) (k : key) (f : file) : fsT :=
  match fs with
  | [] => [(k, f)]
  | (k', f') :: r => if key_eqb k k' then (k', f) :: r else (k', f') :: update r k f
  end.

Fixpoint remove (fs : fsT) (k : key) : fsT :=
  match fs with
  | [] => []
  | (k', f') :: r => if key_eqb k k' then remove r k else (k', f') :: remove r k
  end.

Definition exists_ (fs : fsT) (k : key) : bool :=
  match lookup fs k with Some _ => true | None => false end.

Fixpoint flat (cs : list chunk) : bytes :=
  match cs with [] => [] | c :: r => snd c ++ flat r end.

Definition content (f : file) : list chunk := f_dur f ++ f_vol f.
Definition fsize (f : file) : Z := Z.of_nat (length (flat (content f))).

(* The places of the logger's write path where a system call can fail with an error other
   than EEXIST.  [FGzClose] is a write(2) issued by gzipWriter.Close() (the rest of the
   compressed data and the member trailer), [FWrite] a write(2) issued by the Write of a
   message body or newline (in gzip mode: the member header or a full compressor block). *)
Inductive fkind := FWrite | FGzClose | FFsync | FClose | FLink | FUnlink | FOpen.

Definition fkind_eqb (a b : fkind) : bool :=
  match a, b with
  | FWrite, FWrite | FGzClose, FGzClose | FFsync, FFsync | FClose, FClose
  | FLink, FLink | FUnlink, FUnlink | FOpen, FOpen => true
  | _, _ => false
  end.

(* the system call that fails there *)
Definition sys_of (w : fkind) : fkind := match w with FGzClose => FWrite | x => x end.

(* The operations.  [OCreate]: openat(O_WRONLY|O_CREAT [|O_EXCL] [|O_APPEND] [|O_TRUNC]),
   [ok = false] is EEXIST.  [OLink]: link(2), [ok = false] is EEXIST.  [ORename] is
   rename(2) (replaces the destination); the logger never uses it, it is here so that an
   observed trace containing it can be judged.  [OFail w k]: the system call [w] (never
   [FGzClose]: that is a write) on file [k] (link: the source) failed with an error other
   than EEXIST; no effect. *)
Inductive op :=
| OCreate (k : key) (excl append trunc ok : bool)
| OWrite (k : key) (c : chunk)
| OMember (k : key) (cs : list chunk)
| OFsync (k : key)
| OClose (k : key)
| OLink (src dst : key) (ok : bool)
| OUnlink (k : key)
| ORename (src dst : key)
| OFin (m : msg)
| OExit (code : N)
| OFail (w : fkind) (k : key).

Definition append_vol (fs : fsT) (k : key) (cs : list chunk) : fsT :=
  match lookup fs k with
  | Some f => update fs k (mkFile (f_dur f) (f_vol f ++ cs))
  | None => fs
  end.

Definition apply_op (fs : fsT) (o : op) : fsT :=
  match o with
  | OCreate k excl append trunc ok =>
      if ok then
        match lookup fs k with
        | Some f => if trunc then update fs k (mkFile [] []) else fs
        | None => update fs k (mkFile [] [])
        end
      else fs
  | OWrite k c => append_vol fs k [c]
  | OMember k cs => append_vol fs k cs
  | OFsync k =>
      match lookup fs k with
      | Some f => update fs k (mkFile (f_dur f ++ f_vol f) [])
      | None => fs
      end
  | OClose _ => fs
  | OLink src dst ok =>
      if ok then
        match lookup fs src, lookup fs dst with
        | Some f, None => update fs dst f
        | _, _ => fs
        end
      else fs
  | OUnlink k => remove fs k
  | ORename src dst =>
      match lookup fs src with
      | Some f => remove (update fs dst f) src
      | None => fs
      end
  | OFin _ => fs
  | OExit _ => fs
  | OFail _ _ => fs
  end.

Fixpoint replay (fs : fsT) (tr : list op) : fsT :=
  match tr with [] => fs | o :: r => replay (apply_op fs o) r end.

Fixpoint fins (tr : list op) : list msg :=
  match tr with
  | [] => []
  | OFin m :: r => m :: fins r
  | _ :: r => fins r
  end.

(* A crash (power loss / SIGKILL in the pessimistic reading): every file keeps its
   durable part and the first [keep k] chunks of its volatile part. *)
Definition crash (keep : key -> nat) (fs : fsT) : fsT :=
  map (fun kf => (fst kf, mkFile (f_dur (snd kf) ++ firstn (keep (fst kf)) (f_vol (snd kf))) [])) fs.

(* ---------- decidable versions on bytes, used by the monitor ---------- *)
Fixpoint prefixb (p s : bytes) : bool :=
  match p, s with
  | [], _ => true
  | a :: p', b :: s' => if N.eqb a b then prefixb p' s' else false   (* lazy: vm_compute is strict in && *)
  | _ :: _, [] => false
  end.

Fixpoint infixb (p s : bytes) : bool :=
  if prefixb p s then true else match s with [] => false | _ :: s' => infixb p s' end.

Definition durable_has (fs : fsT) (m : msg) : bool :=
  existsb (fun kf => infixb (snd m ++ [10]) (flat (f_dur (snd kf)))) fs.

Definition ext_b (f f' : file) : bool :=
  prefixb (flat (f_dur f)) (flat (f_dur f')) && prefixb (flat (content f)) (flat (content f')).

Definition fs_leb (fs fs' : fsT) : bool :=
  forallb (fun kf =>
    (match lookup fs' (fst kf) with
     | Some f' => ext_b (snd kf) f'
     | None => false
     end)
    || (match fst (fst kf) with
        | DWork => existsb (fun kf' => dir_eqb (fst (fst kf')) DOut && ext_b (snd kf) (snd kf')) fs'
        | DOut => false
        end)) fs.

(* operations that can only add (proofs/FileOSProofs.v, safe_op_le: they never shrink or
   replace anything); the monitor evaluates [fs_leb] only for the others *)
Definition safe_op (o : op) : bool :=
  match o with
  | OCreate _ _ _ trunc _ => negb trunc
  | OUnlink _ => false
  | ORename _ _ => false
  | _ => true
  end.

(* The property C19 as a decidable predicate over one trace of file operations and
   FINs (what the implementation did), from the file system [fs]:
     - at every FIN the message's body and newline are inside the durable content of
       a file,
     - no operation shrinks or replaces the content of an existing name (a work-dir
       file may only disappear when an output-dir file holds its content). *)
Fixpoint monitor_trace (fs : fsT) (tr : list op) : bool :=
  match tr with
  | [] => true
  | o :: r =>
      let fs' := apply_op fs o in
      (match o with OFin m => durable_has fs m | _ => true end)
      && (if safe_op o then true else fs_leb fs fs') && monitor_trace fs' r
  end.
