(* Model of the nsqd TCP protocol front end (C09):
     nsqd/tcp.go            tcpServer.Handle   (the 4-byte magic)
     nsqd/protocol_v2.go    IOLoop, Exec, IDENTIFY, AUTH, SUB, RDY, FIN, REQ, CLS, NOP,
                            PUB, MPUB, DPUB, TOUCH, readMPUB, getMessageID, readLen
     nsqd/client_v2.go      Identify, SetHeartbeatInterval, SetOutputBuffer,
                            SetSampleRate, SetMsgTimeout
   for ONE connection: [exec_conn] maps the bytes that follow the magic to the list of
   frames written to that connection, the final [Close], and the EFFECTS handed to the
   nsqd core (Enqueue / Sub / Rdy / Fin / Req / Touch / Cls).

   What is input, not model:
     * the answers of the nsqd core (Channel.FinishMessage / RequeueMessage /
       TouchMessage, Channel.AddClient, Topic.PutMessage(s)) : an [oracle], a function of
       this connection's own history of core calls and the call at hand;
     * encoding/json (stdlib): [json : bytes -> jres], the decoded IDENTIFY option record
       of a body, or [BadJSON].
   Every slice expression, index expression and make() of the Go handlers is a checked
   operation here ([slice_to], [idx], [make_bytes], [make_cap]); out of range = [HPanic],
   rendered as the output [Panic].  Auth is modelled for a daemon WITHOUT
   --auth-http-address (CheckAuth is then the identity, AUTH answers E_AUTH_DISABLED);
   the authorised paths belong to C11.  A negotiated tls/snappy/deflate upgrade ends the
   model's account of the connection with an [Upgrade] output: what follows is read
   through a codec and handled by the same loop from the state reached (all theorems are
   proved for every start state).
   readMPUB is also modelled in model/Wire.v for C07 (deliberate duplication, so that the
   two families stay independent).
   No proofs here. *)
From Coq Require Import List NArith ZArith Bool.
From NSQV Require Import gen.Consts model.Judge model.Names model.Num.
Import ListNotations.
Open Scope Z_scope.

(* ------------------------------------------------------------------ vocabulary *)
Inductive cmd :=
  CIdentify | CFin | CRdy | CReq | CPub | CMpub | CDpub | CNop | CTouch | CSub | CCls | CAuth | CUnknown.

Inductive code :=
  E_INVALID | E_BAD_BODY | E_BAD_TOPIC | E_BAD_CHANNEL | E_BAD_MESSAGE
| E_PUB_FAILED | E_MPUB_FAILED | E_DPUB_FAILED | E_FIN_FAILED | E_REQ_FAILED | E_TOUCH_FAILED
| E_SUB_FAILED | E_IDENTIFY_FAILED | E_AUTH_DISABLED | E_AUTH_FAILED | E_UNAUTHORIZED
| E_AUTH_ERROR | E_AUTH_FIRST | E_BAD_PROTOCOL.

Inductive skind := SInit | SSubscribed | SClosing.   (* stateInit / stateSubscribed / stateClosing *)

(* daemon options that the front end reads (durations in ns, as in Options) *)
Record cfg := mkCfg {
  c_max_msg : Z;            (* MaxMsgSize *)
  c_max_body : Z;           (* MaxBodySize *)
  c_max_rdy : Z;            (* MaxRdyCount *)
  c_max_req : Z;            (* MaxReqTimeout *)
  c_max_hb : Z;             (* MaxHeartbeatInterval *)
  c_min_obt : Z;            (* MinOutputBufferTimeout *)
  c_max_obt : Z;            (* MaxOutputBufferTimeout *)
  c_max_obsize : Z;         (* MaxOutputBufferSize *)
  c_max_msgto : Z;          (* MaxMsgTimeout *)
  c_def_hb : Z;             (* ClientTimeout / 2 *)
  c_def_obt : Z;            (* OutputBufferTimeout *)
  c_def_msgto : Z;          (* MsgTimeout *)
  c_max_deflate : Z;        (* MaxDeflateLevel *)
  c_deflate_on : bool;      (* DeflateEnabled *)
  c_snappy_on : bool;       (* SnappyEnabled *)
  c_tls_on : bool;          (* tlsConfig != nil *)
  c_tls_required : bool     (* TLSRequired != TLSNotRequired *)
}.

(* identifyDataV2 after json.Unmarshal: the fields that are validated or negotiated *)
Record ident := mkIdent {
  i_hb : Z; i_obsize : Z; i_obt : Z; i_fn : bool; i_tls : bool; i_deflate : bool;
  i_deflate_level : Z; i_snappy : bool; i_sample : Z; i_msgto : Z
}.
Inductive jres := BadJSON | Json (d : ident).

(* calls into the nsqd core whose answer this model does not compute *)
Inductive core_call :=
| KPut (topic body : bytes) (defer : Z)
| KPutMulti (topic : bytes) (bodies : list bytes)
| KSub (topic chan : bytes)
| KFin (id : bytes)
| KReq (id : bytes) (delay : Z)
| KTouch (id : bytes).
Definition history := list (core_call * bool).          (* most recent first *)
Definition oracle := history -> core_call -> bool.        (* true = the core returned nil *)

Record cstate := mkSt {
  st_kind : skind;
  st_hb : Z;            (* client.HeartbeatInterval *)
  st_obsize : Z;        (* client.OutputBufferSize *)
  st_obt : Z;           (* client.OutputBufferTimeout *)
  st_sample : Z;        (* client.SampleRate *)
  st_msgto : Z;         (* client.MsgTimeout *)
  st_hist : history
}.

Inductive resp :=
| ROk | RCloseWait
| RJson (msgto_ms sample obsize obt_ms : Z) (tls deflate : bool) (level : Z) (snappy : bool).

Inductive out :=
| Resp (r : resp)                       (* frameTypeResponse *)
| Err (c : code)                        (* frameTypeError; only the code is modelled *)
| Close                                 (* IOLoop returned: the connection is closed *)
| Panic                                 (* a Go run-time panic (would take the daemon down) *)
| OutOfFuel                             (* artefact of the fuel; excluded by C09_no_panic *)
| Enqueue (topic body : bytes) (defer : Z)    (* Topic.PutMessage(s) accepted this message *)
| Batch (size count : Z)                (* ghost: the accepted MPUB's declared body size and count *)
| Sub (topic chan : bytes)
| Rdy (n : Z)
| Fin (id : bytes)
| Req (id : bytes) (delay : Z)
| Touch (id : bytes) (msgto : Z)
| Cls
| Ident (hb obsize obt sample msgto : Z)      (* the client's negotiated values after Identify *)
| Upgrade (tls snappy deflate : bool) (level : Z).

(* ------------------------------------------------------------------ checked Go operations *)
Definition len {A} (l : list A) : Z := Z.of_nat (length l).

(* l[:n] *)
Definition slice_to {A} (l : list A) (n : Z) : option (list A) :=
  if (n <? 0) || (len l <? n) then None else Some (firstn (Z.to_nat n) l).
(* l[i] *)
Definition idx {A} (l : list A) (i : Z) : option A :=
  if i <? 0 then None else nth_error l (Z.to_nat i).
(* make([]byte, n) : its length *)
Definition make_bytes (n : Z) : option nat := if n <? 0 then None else Some (Z.to_nat n).
(* make([]*Message, 0, n) *)
Definition make_cap (n : Z) : option unit := if n <? 0 then None else Some tt.

(* ------------------------------------------------------------------ reading *)
Definition NL : N := 10%N.
Definition CR : N := 13%N.
Definition SP : N := 32%N.

(* bufio.Reader.ReadSlice('\n') with a buffer of [limit] bytes: the line including its
   delimiter, or None = an error (io.EOF before a delimiter, or bufio.ErrBufferFull when
   [limit] bytes hold no delimiter) *)
Fixpoint read_slice (limit : nat) (bs : bytes) : option (bytes * bytes) :=
  match limit, bs with
  | S k, c :: r =>
      if (c =? NL)%N then Some ([c], r)
      else match read_slice k r with
           | Some (l, r') => Some (c :: l, r')
           | None => None
           end
  | _, _ => None
  end.

Definition buffer_size : nat := Z.to_nat nsqd_defaultBufferSize.

(* bytes.Split(line, " ") : always at least one element *)
(* [cur] accumulates the current piece backwards; rev_append cur [] = rev cur, in linear time *)
Fixpoint split_sp (cur : bytes) (l : bytes) : list bytes :=
  match l with
  | [] => [rev_append cur []]
  | c :: r => if (c =? SP)%N then rev_append cur [] :: split_sp [] r else split_sp (c :: cur) r
  end.

Definition be32 (a b c d : N) : Z := Z.of_N (((a * 256 + b) * 256 + c) * 256 + d).
Definition to_i32 (u : Z) : Z := if u <? 2147483648 then u else u - 4294967296.

(* readLen: io.ReadFull of 4 bytes, int32(binary.BigEndian.Uint32) *)
Definition read_len (bs : bytes) : option (Z * bytes) :=
  match bs with
  | a :: b :: c :: d :: r => Some (to_i32 (be32 a b c d), r)
  | _ => None
  end.

(* io.ReadFull(r, buf) with len(buf) = n : None = io.EOF / io.ErrUnexpectedEOF *)
Definition read_full (n : nat) (bs : bytes) : option (bytes * bytes) :=
  if (length bs <? n)%nat then None else Some (firstn n bs, skipn n bs).

(* ------------------------------------------------------------------ handler results *)
Inductive hres :=
| HOk (o : list out) (st : cstate) (rest : bytes)     (* nil error: effects and response, continue *)
| HFatal (c : code)                                   (* protocol.NewFatalClientErr *)
| HSoft (c : code) (st : cstate) (rest : bytes)       (* protocol.NewClientErr: continue *)
| HStop (o : list out)                                (* connection upgraded: see header *)
| HPanic.

Definition set_kind (st : cstate) (k : skind) : cstate :=
  mkSt k (st_hb st) (st_obsize st) (st_obt st) (st_sample st) (st_msgto st) (st_hist st).
Definition push_hist (st : cstate) (k : core_call) (b : bool) : cstate :=
  mkSt (st_kind st) (st_hb st) (st_obsize st) (st_obt st) (st_sample st) (st_msgto st) ((k, b) :: st_hist st).

Definition ms (d : Z) : Z := Z.quot d ns_per_ms.        (* int(d / time.Millisecond) *)

(* ------------------------------------------------------------------ client_v2.go Identify *)
(* each setter: None = the error return *)
Definition set_heartbeat (cfg : cfg) (cur desired : Z) : option Z :=
  if desired =? -1 then Some 0
  else if desired =? 0 then Some cur
  else if (desired >=? 1000) && (desired <=? ms (c_max_hb cfg)) then Some (desired * ns_per_ms)
  else None.

(* returns (OutputBufferSize, OutputBufferTimeout) *)
Definition set_output_buffer (cfg : cfg) (cur_size cur_to size tmo : Z) : option (Z * Z) :=
  match (if tmo =? -1 then Some 0
         else if tmo =? 0 then Some cur_to
         else if (tmo >=? ms (c_min_obt cfg)) && (tmo <=? ms (c_max_obt cfg)) then Some (tmo * ns_per_ms)
         else None) with
  | None => None
  | Some to1 =>
      if size =? -1 then Some (1, 0)
      else if size =? 0 then Some (cur_size, to1)
      else if (size >=? 64) && (size <=? c_max_obsize cfg) then Some (size, to1)
      else None
  end.

Definition set_sample_rate (r : Z) : option Z :=
  if (r <? 0) || (r >? 99) then None else Some r.

Definition set_msg_timeout (cfg : cfg) (cur t : Z) : option Z :=
  if t =? 0 then Some cur
  else if (t >=? 1000) && (t <=? ms (c_max_msgto cfg)) then Some (t * ns_per_ms)
  else None.

Definition identify_client (cfg : cfg) (st : cstate) (d : ident) : option cstate :=
  match set_heartbeat cfg (st_hb st) (i_hb d) with
  | None => None
  | Some hb =>
    match set_output_buffer cfg (st_obsize st) (st_obt st) (i_obsize d) (i_obt d) with
    | None => None
    | Some (obs, obt) =>
      match set_sample_rate (i_sample d) with
      | None => None
      | Some sr =>
        match set_msg_timeout cfg (st_msgto st) (i_msgto d) with
        | None => None
        | Some mt => Some (mkSt (st_kind st) hb obs obt sr mt (st_hist st))
        end
      end
    end
  end.

Definition ident_out (st : cstate) : out :=
  Ident (st_hb st) (st_obsize st) (st_obt st) (st_sample st) (st_msgto st).

(* ------------------------------------------------------------------ the handlers *)
Section Handlers.
Variable cf : cfg.
Variable orc : oracle.
Variable json : bytes -> jres.

Definition ask (st : cstate) (k : core_call) : bool := orc (st_hist st) k.

(* the common "length-prefixed body" part of IDENTIFY and AUTH (same order of tests) *)
Inductive body_res := BodyErr | BodyPanic | BodyOk (body rest : bytes).
Definition read_body_ident (rest : bytes) : body_res :=
  match read_len rest with
  | None => BodyErr
  | Some (n, r1) =>
      if n >? c_max_body cf then BodyErr
      else if n <=? 0 then BodyErr
      else match make_bytes n with
           | None => BodyPanic
           | Some k => match read_full k r1 with
                       | None => BodyErr
                       | Some (b, r2) => BodyOk b r2
                       end
           end
  end.

Definition do_identify (st : cstate) (params : list bytes) (rest : bytes) : hres :=
  match st_kind st with
  | SInit =>
    match read_body_ident rest with
    | BodyErr => HFatal E_BAD_BODY
    | BodyPanic => HPanic
    | BodyOk body r2 =>
      match json body with
      | BadJSON => HFatal E_BAD_BODY
      | Json d =>
        match identify_client cf st d with
        | None => HFatal E_BAD_BODY
        | Some st' =>
          if negb (i_fn d) then HOk [ident_out st'; Resp ROk] st' r2
          else
            let tlsv1 := c_tls_on cf && i_tls d in
            let deflate := c_deflate_on cf && i_deflate d in
            let lvl0 := if deflate && (i_deflate_level d >? 0) then i_deflate_level d else 6 in
            let lvl := if c_max_deflate cf <? lvl0 then c_max_deflate cf else lvl0 in
            let snappy := c_snappy_on cf && i_snappy d in
            if deflate && snappy then HFatal E_IDENTIFY_FAILED
            else
              let r := Resp (RJson (ms (st_msgto st')) (st_sample st') (st_obsize st') (ms (st_obt st'))
                                   tlsv1 deflate lvl snappy) in
              if tlsv1 || snappy || deflate
              then HStop [ident_out st'; r; Upgrade tlsv1 snappy deflate lvl]
              else HOk [ident_out st'; r] st' r2
        end
      end
    end
  | _ => HFatal E_INVALID
  end.

Definition do_auth (st : cstate) (params : list bytes) (rest : bytes) : hres :=
  match st_kind st with
  | SInit =>
    if negb (len params =? 1) then HFatal E_INVALID
    else match read_body_ident rest with
         | BodyErr => HFatal E_BAD_BODY
         | BodyPanic => HPanic
         | BodyOk _ _ => HFatal E_AUTH_DISABLED     (* no auth server configured *)
         end
  | _ => HFatal E_INVALID
  end.

Definition do_sub (st : cstate) (params : list bytes) (rest : bytes) : hres :=
  match st_kind st with
  | SInit =>
    if st_hb st <=? 0 then HFatal E_INVALID
    else if len params <? 3 then HFatal E_INVALID
    else match idx params 1 with
         | None => HPanic
         | Some topic =>
           if negb (is_valid_name topic) then HFatal E_BAD_TOPIC
           else match idx params 2 with
                | None => HPanic
                | Some chan =>
                  if negb (is_valid_name chan) then HFatal E_BAD_CHANNEL
                  else if ask st (KSub topic chan)
                       then HOk [Sub topic chan; Resp ROk]
                                (set_kind (push_hist st (KSub topic chan) true) SSubscribed) rest
                       else HFatal E_SUB_FAILED
                end
         end
  | _ => HFatal E_INVALID
  end.

Definition do_rdy (st : cstate) (params : list bytes) (rest : bytes) : hres :=
  match st_kind st with
  | SClosing => HOk [] st rest
  | SInit => HFatal E_INVALID
  | SSubscribed =>
    if len params >? 1 then
      match idx params 1 with
      | None => HPanic
      | Some p =>
        match rdy_param (c_max_rdy cf) p with
        | RdyInvalid => HFatal E_INVALID
        | RdyOk n => HOk [Rdy n] st rest
        end
      end
    else if (1 <? 0) || (1 >? c_max_rdy cf) then HFatal E_INVALID
    else HOk [Rdy 1] st rest
  end.

(* getMessageID: len(p) != MsgIDLength -> error; &p[0] *)
Inductive id_res := IdErr | IdPanic | IdOk (id : bytes).
Definition get_message_id (p : bytes) : id_res :=
  if negb (len p =? nsqd_MsgIDLength) then IdErr
  else match idx p 0 with None => IdPanic | Some _ => IdOk p end.

Definition consuming (st : cstate) : bool :=
  match st_kind st with SSubscribed | SClosing => true | SInit => false end.

Definition do_fin (st : cstate) (params : list bytes) (rest : bytes) : hres :=
  if negb (consuming st) then HFatal E_INVALID
  else if len params <? 2 then HFatal E_INVALID
  else match idx params 1 with
       | None => HPanic
       | Some p =>
         match get_message_id p with
         | IdErr => HFatal E_INVALID
         | IdPanic => HPanic
         | IdOk id =>
           if ask st (KFin id) then HOk [Fin id] (push_hist st (KFin id) true) rest
           else HSoft E_FIN_FAILED (push_hist st (KFin id) false) rest
         end
       end.

Definition do_req (st : cstate) (params : list bytes) (rest : bytes) : hres :=
  if negb (consuming st) then HFatal E_INVALID
  else if len params <? 3 then HFatal E_INVALID
  else match idx params 1 with
       | None => HPanic
       | Some p =>
         match get_message_id p with
         | IdErr => HFatal E_INVALID
         | IdPanic => HPanic
         | IdOk id =>
           match idx params 2 with
           | None => HPanic
           | Some t =>
             match req_param (c_max_req cf) t with
             | ReqInvalid => HFatal E_INVALID
             | ReqDelay d =>
               if ask st (KReq id d) then HOk [Req id d] (push_hist st (KReq id d) true) rest
               else HSoft E_REQ_FAILED (push_hist st (KReq id d) false) rest
             end
           end
         end
       end.

Definition do_touch (st : cstate) (params : list bytes) (rest : bytes) : hres :=
  if negb (consuming st) then HFatal E_INVALID
  else if len params <? 2 then HFatal E_INVALID
  else match idx params 1 with
       | None => HPanic
       | Some p =>
         match get_message_id p with
         | IdErr => HFatal E_INVALID
         | IdPanic => HPanic
         | IdOk id =>
           if ask st (KTouch id) then HOk [Touch id (st_msgto st)] (push_hist st (KTouch id) true) rest
           else HSoft E_TOUCH_FAILED (push_hist st (KTouch id) false) rest
         end
       end.

Definition do_cls (st : cstate) (params : list bytes) (rest : bytes) : hres :=
  match st_kind st with
  | SSubscribed => HOk [Cls; Resp RCloseWait] (set_kind st SClosing) rest
  | _ => HFatal E_INVALID
  end.

Definition do_nop (st : cstate) (params : list bytes) (rest : bytes) : hres := HOk [] st rest.

(* the body of PUB and DPUB: readLen, <= 0, > MaxMsgSize, make, ReadFull *)
Definition read_body_msg (rest : bytes) : body_res :=
  match read_len rest with
  | None => BodyErr
  | Some (n, r1) =>
      if n <=? 0 then BodyErr
      else if n >? c_max_msg cf then BodyErr
      else match make_bytes n with
           | None => BodyPanic
           | Some k => match read_full k r1 with
                       | None => BodyErr
                       | Some (b, r2) => BodyOk b r2
                       end
           end
  end.

Definition do_pub (st : cstate) (params : list bytes) (rest : bytes) : hres :=
  if len params <? 2 then HFatal E_INVALID
  else match idx params 1 with
       | None => HPanic
       | Some topic =>
         if negb (is_valid_name topic) then HFatal E_BAD_TOPIC
         else match read_body_msg rest with
              | BodyErr => HFatal E_BAD_MESSAGE
              | BodyPanic => HPanic
              | BodyOk body r2 =>
                if ask st (KPut topic body 0)
                then HOk [Enqueue topic body 0; Resp ROk] (push_hist st (KPut topic body 0) true) r2
                else HFatal E_PUB_FAILED
              end
       end.

Definition do_dpub (st : cstate) (params : list bytes) (rest : bytes) : hres :=
  if len params <? 3 then HFatal E_INVALID
  else match idx params 1 with
       | None => HPanic
       | Some topic =>
         if negb (is_valid_name topic) then HFatal E_BAD_TOPIC
         else match idx params 2 with
              | None => HPanic
              | Some t =>
                match dpub_param (c_max_req cf) t with
                | DpubInvalid => HFatal E_INVALID
                | DpubDelay d =>
                  match read_body_msg rest with
                  | BodyErr => HFatal E_BAD_MESSAGE
                  | BodyPanic => HPanic
                  | BodyOk body r2 =>
                    if ask st (KPut topic body d)
                    then HOk [Enqueue topic body d; Resp ROk] (push_hist st (KPut topic body d) true) r2
                    else HFatal E_DPUB_FAILED
                  end
                end
              end
       end.

(* readMPUB's loop: [k] messages still to read *)
Inductive mres := MErr (c : code) | MPanic | MOk (bodies : list bytes) (rest : bytes).
Fixpoint read_msgs (k : nat) (bs : bytes) : mres :=
  match k with
  | O => MOk [] bs
  | S k' =>
    match read_len bs with
    | None => MErr E_BAD_MESSAGE
    | Some (sz, r1) =>
      if sz <=? 0 then MErr E_BAD_MESSAGE
      else if sz >? c_max_msg cf then MErr E_BAD_MESSAGE
      else match make_bytes sz with
           | None => MPanic
           | Some n =>
             match read_full n r1 with
             | None => MErr E_BAD_MESSAGE
             | Some (body, r2) =>
               match read_msgs k' r2 with
               | MOk l r3 => MOk (body :: l) r3
               | e => e
               end
             end
           end
    end
  end.

Definition max_messages : Z := Z.quot (c_max_body cf - 4) 5.

(* readMPUB; also returns the accepted count *)
Definition read_mpub (bs : bytes) : mres * Z :=
  match read_len bs with
  | None => (MErr E_BAD_BODY, 0)
  | Some (num, r1) =>
    if (num <=? 0) || (num >? max_messages) then (MErr E_BAD_BODY, 0)
    else match make_cap num with
         | None => (MPanic, 0)
         | Some _ => (read_msgs (Z.to_nat num) r1, num)
         end
  end.

(* the bytes an io.LimitReader of [n] bytes over the stream [bs] can deliver, and the
   bytes of the stream beyond its reach *)
Definition limit_view (n : Z) (bs : bytes) : bytes := firstn (Z.to_nat n) bs.
Definition beyond_view (n : Z) (bs : bytes) : bytes := skipn (Z.to_nat n) bs.

Definition do_mpub (st : cstate) (params : list bytes) (rest : bytes) : hres :=
  if len params <? 2 then HFatal E_INVALID
  else match idx params 1 with
       | None => HPanic
       | Some topic =>
         if negb (is_valid_name topic) then HFatal E_BAD_TOPIC
         else match read_len rest with
              | None => HFatal E_BAD_BODY
              | Some (blen, r1) =>
                if blen <=? 0 then HFatal E_BAD_BODY
                else if blen >? c_max_body cf then HFatal E_BAD_BODY
                else
                  (* io.LimitReader(client.Reader, bodyLen): readMPUB sees at most the declared
                     number of bytes; what it does not consume stays in the stream *)
                  match read_mpub (limit_view blen r1) with
                  | (MErr c, _) => HFatal c
                  | (MPanic, _) => HPanic
                  | (MOk bodies unread, num) =>
                    if ask st (KPutMulti topic bodies)
                    then HOk (Batch blen num :: map (fun b => Enqueue topic b 0) bodies ++ [Resp ROk])
                             (push_hist st (KPutMulti topic bodies) true)
                             (unread ++ beyond_view blen r1)
                    else HFatal E_MPUB_FAILED
                  end
              end
       end.

(* ------------------------------------------------------------------ Exec *)
(* the dispatch list, in the order of the source: command literal, handler, whether the
   case sits behind enforceTLSPolicy.  props/C09.v proves it equal to gen/ProtoTable.v *)
Definition dispatch_table : list (bytes * cmd * bool) :=
  [ ([73;68;69;78;84;73;70;89]%N, CIdentify, false)   (* IDENTIFY *)
  ; ([70;73;78]%N, CFin, true)
  ; ([82;68;89]%N, CRdy, true)
  ; ([82;69;81]%N, CReq, true)
  ; ([80;85;66]%N, CPub, true)
  ; ([77;80;85;66]%N, CMpub, true)
  ; ([68;80;85;66]%N, CDpub, true)
  ; ([78;79;80]%N, CNop, true)
  ; ([84;79;85;67;72]%N, CTouch, true)
  ; ([83;85;66]%N, CSub, true)
  ; ([67;76;83]%N, CCls, true)
  ; ([65;85;84;72]%N, CAuth, true) ].

Fixpoint lookup_cmd (t : list (bytes * cmd * bool)) (name : bytes) : cmd * bool :=
  match t with
  | [] => (CUnknown, true)
  | (n, c, g) :: r => if bytes_eqb n name then (c, g) else lookup_cmd r name
  end.

Definition handler (c : cmd) : cstate -> list bytes -> bytes -> hres :=
  match c with
  | CIdentify => do_identify | CFin => do_fin | CRdy => do_rdy | CReq => do_req
  | CPub => do_pub | CMpub => do_mpub | CDpub => do_dpub | CNop => do_nop
  | CTouch => do_touch | CSub => do_sub | CCls => do_cls | CAuth => do_auth
  | CUnknown => fun _ _ _ => HFatal E_INVALID
  end.

(* client.TLS is never 1 inside this model (an upgrade ends it) *)
Definition tls_gate_refuses : bool := c_tls_required cf.

Inductive exec_res := XPanic | XRes (c : cmd) (r : hres).
Definition exec (st : cstate) (params : list bytes) (rest : bytes) : exec_res :=
  match idx params 0 with
  | None => XPanic
  | Some name =>
    let '(c, gated) := lookup_cmd dispatch_table name in
    if gated && tls_gate_refuses then XRes c (HFatal E_INVALID)
    else XRes c (handler c st params rest)
  end.

(* ------------------------------------------------------------------ IOLoop *)
(* one iteration's line handling: trim '\n', optionally '\r', split *)
Definition parse_line (line : bytes) : option (list bytes) :=
  match slice_to line (len line - 1) with
  | None => None
  | Some l1 =>
    if 0 <? len l1 then
      match idx l1 (len l1 - 1) with
      | None => None
      | Some c =>
        if (c =? CR)%N then
          match slice_to l1 (len l1 - 1) with
          | None => None
          | Some l2 => Some (split_sp [] l2)
          end
        else Some (split_sp [] l1)
      end
    else Some (split_sp [] l1)
  end.

(* what one iteration of the loop did *)
Inductive ev :=
| EvReadFail                                   (* ReadSlice failed: leave the loop silently *)
| EvFuel
| EvPanic                                      (* a panic in the line handling or in Exec's params[0] *)
| EvCmd (st : cstate) (c : cmd) (params : list bytes) (rest : bytes) (r : hres).

Definition next_of (r : hres) : option (cstate * bytes) :=
  match r with
  | HOk _ st rest | HSoft _ st rest => Some (st, rest)
  | _ => None
  end.

Fixpoint steps (fuel : nat) (st : cstate) (bs : bytes) : list ev :=
  match read_slice buffer_size bs with
  | None => [EvReadFail]
  | Some (line, rest) =>
    match fuel with
    | O => [EvFuel]
    | S f =>
      match parse_line line with
      | None => [EvPanic]
      | Some params =>
        match exec st params rest with
        | XPanic => [EvPanic]
        | XRes c r =>
          EvCmd st c params rest r ::
          match next_of r with
          | Some (st', rest') => steps f st' rest'
          | None => []
          end
        end
      end
    end
  end.

End Handlers.

Definition outs_of_res (r : hres) : list out :=
  match r with
  | HOk o _ _ => o
  | HFatal c => [Err c; Close]
  | HSoft c _ _ => [Err c]
  | HStop o => o
  | HPanic => [Panic]
  end.

Definition outs_of_ev (e : ev) : list out :=
  match e with
  | EvReadFail => [Close]
  | EvFuel => [OutOfFuel]
  | EvPanic => [Panic]
  | EvCmd _ _ _ _ r => outs_of_res r
  end.

(* newClientV2 *)
Definition init_state (cf : cfg) : cstate :=
  mkSt SInit (c_def_hb cf) nsqd_defaultBufferSize (c_def_obt cf) 0 (c_def_msgto cf) [].

Definition run (cf : cfg) (orc : oracle) (json : bytes -> jres) (st : cstate) (bs : bytes) : list out :=
  flat_map outs_of_ev (steps cf orc json (length bs) st bs).

(* one connection, after the magic *)
Definition exec_conn (cf : cfg) (orc : oracle) (json : bytes -> jres) (bs : bytes) : list out :=
  run cf orc json (init_state cf) bs.

(* tcpServer.Handle: the 4-byte magic "  V2" *)
Definition magic_v2 : bytes := [32;32;86;50]%N.
Definition handle_conn (cf : cfg) (orc : oracle) (json : bytes -> jres) (bs : bytes) : list out :=
  match read_full 4 bs with
  | None => [Close]
  | Some (m, rest) =>
    if bytes_eqb m magic_v2 then exec_conn cf orc json rest
    else [Err E_BAD_PROTOCOL; Close]
  end.

(* ------------------------------------------------------------------ two connections *)
(* one iteration of a connection's IOLoop: what it writes / hands to the core, and where
   it continues (None: the loop has ended) *)
Definition iter (cf : cfg) (orc : oracle) (json : bytes -> jres) (st : cstate) (bs : bytes)
  : list out * option (cstate * bytes) :=
  match read_slice buffer_size bs with
  | None => ([Close], None)
  | Some (line, rest) =>
    match parse_line line with
    | None => ([Panic], None)
    | Some params =>
      match exec cf orc json st params rest with
      | XPanic => ([Panic], None)
      | XRes _ r => (outs_of_res r, next_of r)
      end
    end
  end.

(* a daemon serving two connections A (true) and B (false), each with its own bytes, its
   own core answers and its own IDENTIFY bodies: a schedule says whose IOLoop goroutine
   runs its next iteration; outputs are tagged with the connection they belong to *)
Definition conn := option (cstate * bytes).
Record peer := mkPeer { p_orc : oracle; p_json : bytes -> jres }.

Definition conn_step (cf : cfg) (p : peer) (k : conn) : list out * conn :=
  match k with
  | None => ([], None)
  | Some (st, bs) => iter cf (p_orc p) (p_json p) st bs
  end.

Fixpoint sys_run (cf : cfg) (pa pb : peer) (sched : list bool) (a b : conn) : list (bool * out) :=
  match sched with
  | [] => []
  | true :: s =>
      let '(o, a') := conn_step cf pa a in map (pair true) o ++ sys_run cf pa pb s a' b
  | false :: s =>
      let '(o, b') := conn_step cf pb b in map (pair false) o ++ sys_run cf pa pb s a b'
  end.

Definition outputs_of (who : bool) (l : list (bool * out)) : list out :=
  map snd (filter (fun e => Bool.eqb (fst e) who) l).

(* the configuration of a daemon started with default options except the three limits *)
Definition default_cfg (max_msg max_body max_rdy : Z) : cfg :=
  mkCfg max_msg max_body max_rdy nsqd_opt_MaxReqTimeout nsqd_opt_MaxHeartbeatInterval
        nsqd_opt_MinOutputBufferTimeout nsqd_opt_MaxOutputBufferTimeout nsqd_opt_MaxOutputBufferSize
        nsqd_opt_MaxMsgTimeout (Z.quot nsqd_opt_ClientTimeout 2) nsqd_opt_OutputBufferTimeout
        nsqd_opt_MsgTimeout nsqd_opt_MaxDeflateLevel true true false false.
