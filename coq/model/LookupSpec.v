(* The plain registry that C14 speaks about ("exactly what a plain registry model
   predicts"), written independently of registration_db.go's data structures:

     g_nodes            the connected nsqds that have IDENTIFYed, with last_update
     g_key   k          the registration key k exists (a topic / channel is known, whether
                        it was REGISTERed or created by an admin call)
     g_prod  k p        connection p is registered under k:
                          registered r p t   := g_prod r (topic_key t) p
                          subscribed r p t c := g_prod r (chan_key t c) p
     g_tomb  t p        tombstone mark of producer p for topic t, with the time it was set

   Sets are characteristic functions; two registries are the same when they agree
   pointwise ([req]).  [g_step] is the specification of every operation; the answers of
   /lookup, /topics, /channels, /nodes are predicates in the property's own words.
   No proofs here. *)
From Coq Require Import List NArith ZArith Bool.
From NSQV Require Import model.Judge model.Names model.Lookupd.
Import ListNotations.
Open Scope bool_scope.
Open Scope Z_scope.

Record registry := mkR {
  g_now : Z;
  g_nodes : list (peer * client);
  g_key : reg -> bool;
  g_prod : reg -> peer -> bool;
  g_tomb : name -> peer -> option Z
}.

Definition req (a b : registry) : Prop :=
  g_now a = g_now b /\ g_nodes a = g_nodes b /\
  (forall k, g_key a k = g_key b k) /\
  (forall k p, g_prod a k p = g_prod b k p) /\
  (forall t p, g_tomb a t p = g_tomb b t p).

Definition g_init : registry := mkR 0 [] (fun _ => false) (fun _ _ => false) (fun _ _ => None).

Definition connected (r : registry) (p : peer) : bool :=
  match find_peer p (g_nodes r) with Some _ => true | None => false end.
Definition registered (r : registry) (p : peer) (t : name) : bool := g_prod r (topic_key t) p.
Definition subscribed (r : registry) (p : peer) (t c : name) : bool := g_prod r (chan_key t c) p.

(* some connected node other than p is registered under k *)
Definition others (r : registry) (k : reg) (p : peer) : bool :=
  existsb (fun e => negb (N.eqb (fst e) p) && g_prod r k (fst e)) (g_nodes r).

(* the connection ends: the node and everything it registered are gone at once;
   keys stay (also ephemeral ones) *)
Definition g_disconnect (r : registry) (p : peer) : registry :=
  if connected r p then
    mkR (g_now r) (drop_peer p (g_nodes r)) (g_key r)
        (fun k q => g_prod r k q && negb (N.eqb q p))
        (fun t q => if N.eqb q p then None else g_tomb r t q)
  else r.

Definition g_identify (r : registry) (p : peer) (i : pinfo) : registry :=
  if connected r p then g_disconnect r p            (* E_INVALID: refused, connection closed *)
  else if fields_missing i then r                   (* E_BAD_BODY *)
  else mkR (g_now r) (g_nodes r ++ [(p, mkClient (g_now r) i)])
           (fun k => reg_eqb k client_key || g_key r k)
           (fun k q => (reg_eqb k client_key && N.eqb q p) || g_prod r k q)
           (g_tomb r).

Definition g_ping (r : registry) (p : peer) : registry :=
  if connected r p then mkR (g_now r) (set_last p (g_now r) (g_nodes r)) (g_key r) (g_prod r) (g_tomb r)
  else r.

(* REGISTER t [c]: never touches a tombstone mark *)
Definition g_register (r : registry) (p : peer) (t c : name) : registry :=
  if negb (connected r p) then r
  else match check_names t c with
  | Some _ => g_disconnect r p
  | None =>
      let ks k := reg_eqb k (topic_key t) || (nonempty c && reg_eqb k (chan_key t c)) in
      mkR (g_now r) (g_nodes r)
          (fun k => ks k || g_key r k)
          (fun k q => (ks k && N.eqb q p) || g_prod r k q)
          (g_tomb r)
  end.

(* UNREGISTER t c : p leaves the channel; an #ephemeral channel key disappears with its
   last producer.
   UNREGISTER t   : p leaves the topic and all its channels, its tombstone mark for t is
   dropped; an #ephemeral topic key disappears with its last producer (channel keys
   stay). *)
Definition g_unregister (r : registry) (p : peer) (t c : name) : registry :=
  if negb (connected r p) then r
  else match check_names t c with
  | Some _ => g_disconnect r p
  | None =>
      if nonempty c then
        let k0 := chan_key t c in
        let gone := negb (others r k0 p) && has_ephemeral_suffix c in
        mkR (g_now r) (g_nodes r)
            (fun k => g_key r k && negb (gone && reg_eqb k k0))
            (fun k q => g_prod r k q && negb (reg_eqb k k0 && (N.eqb q p || gone)))
            (g_tomb r)
      else
        let k0 := topic_key t in
        let gone := negb (others r k0 p) && has_ephemeral_suffix t in
        mkR (g_now r) (g_nodes r)
            (fun k => g_key r k && negb (gone && reg_eqb k k0))
            (fun k q => g_prod r k q
                        && negb (is_match CChannel t star k && N.eqb q p)
                        && negb (reg_eqb k k0 && (N.eqb q p || gone)))
            (fun u q => if bytes_eqb u t && (N.eqb q p || gone) then None else g_tomb r u q)
  end.

Definition g_create_topic (r : registry) (q : query) : registry :=
  match q with
  | QArgs (Some t) _ _ =>
      if is_valid_name t then
        mkR (g_now r) (g_nodes r) (fun k => reg_eqb k (topic_key t) || g_key r k) (g_prod r) (g_tomb r)
      else r
  | _ => r
  end.

(* delete topic t (a valid name): the topic key, every channel key of t, all their
   registrations and the tombstone marks for t are gone *)
Definition g_delete_topic (r : registry) (q : query) : registry :=
  match q with
  | QArgs (Some t) _ _ =>
      if is_valid_name t then
        let hit k := is_match CChannel t star k || reg_eqb k (topic_key t) in
        mkR (g_now r) (g_nodes r)
            (fun k => g_key r k && negb (hit k))
            (fun k p => g_prod r k p && negb (hit k))
            (fun u p => if bytes_eqb u t then None else g_tomb r u p)
      else r
  | _ => r
  end.

Definition g_create_channel (r : registry) (q : query) : registry :=
  match q with
  | QArgs topic channel _ =>
      match topic_channel_args topic channel with
      | Some (t, c) =>
          mkR (g_now r) (g_nodes r)
              (fun k => reg_eqb k (topic_key t) || reg_eqb k (chan_key t c) || g_key r k)
              (g_prod r) (g_tomb r)
      | None => r
      end
  | QBad => r
  end.

Definition g_delete_channel (r : registry) (q : query) : registry :=
  match q with
  | QArgs topic channel _ =>
      match topic_channel_args topic channel with
      | Some (t, c) =>
          mkR (g_now r) (g_nodes r)
              (fun k => g_key r k && negb (reg_eqb k (chan_key t c)))
              (fun k p => g_prod r k p && negb (reg_eqb k (chan_key t c)))
              (g_tomb r)
      | None => r
      end
  | QBad => r
  end.

Definition g_node_matches (r : registry) (node : bytes) (p : peer) : bool :=
  match find_peer p (g_nodes r) with
  | Some c => bytes_eqb (node_of (c_info c)) node
  | None => false
  end.

(* tombstone t node (t a valid name): marks exactly the producers of t whose
   broadcast_address:http_port is [node]; a second tombstone refreshes the time *)
Definition g_tombstone (r : registry) (q : query) : registry :=
  match q with
  | QArgs (Some t) _ (Some node) =>
      if is_valid_name t then
        mkR (g_now r) (g_nodes r) (g_key r) (g_prod r)
            (fun u p => if bytes_eqb u t && registered r p t && g_node_matches r node p
                        then Some (g_now r) else g_tomb r u p)
      else r
  | _ => r
  end.

Definition g_step (r : registry) (o : op) : registry :=
  match o with
  | Identify p i => g_identify r p i
  | Register p t c => g_register r p t c
  | Unregister p t c => g_unregister r p t c
  | Ping p => g_ping r p
  | Disconnect p => g_disconnect r p
  | HCreateTopic q => g_create_topic r q
  | HDeleteTopic q => g_delete_topic r q
  | HCreateChannel q => g_create_channel r q
  | HDeleteChannel q => g_delete_channel r q
  | HTombstone q => g_tombstone r q
  | Advance d => mkR (g_now r + d) (g_nodes r) (g_key r) (g_prod r) (g_tomb r)
  end.

Definition g_run (r : registry) (h : list op) : registry := fold_left g_step h r.

(* ------------------------------------------------------------------ answers *)
(* recently pinged: connected and now - last_update <= inactive timeout *)
Definition recent (inactive : Z) (r : registry) (p : peer) : bool :=
  match find_peer p (g_nodes r) with
  | Some c => g_now r - c_last c <=? inactive
  | None => false
  end.
(* tombstoned for t and the mark has not lapsed *)
Definition hidden (lifetime : Z) (r : registry) (t : name) (p : peer) : bool :=
  match g_tomb r t p with
  | Some at_ => g_now r - at_ <? lifetime
  | None => false
  end.

(* /lookup?topic=t *)
Definition lookup_found (r : registry) (t : name) : bool := g_key r (topic_key t).
Definition lookup_producer (inactive lifetime : Z) (r : registry) (t : name) (p : peer) : bool :=
  registered r p t && recent inactive r p && negb (hidden lifetime r t p).
Definition lookup_channel (r : registry) (t c : name) : bool := g_key r (chan_key t c).
(* /topics, /channels?topic=t *)
Definition topic_listed (r : registry) (t : name) : bool := g_key r (topic_key t).
(* /nodes *)
Definition node_listed (inactive : Z) (r : registry) (p : peer) : bool :=
  g_prod r client_key p && recent inactive r p.
Definition node_topic (r : registry) (p : peer) (t : name) : bool := registered r p t.
Definition node_tomb (lifetime : Z) (r : registry) (p : peer) (t : name) : bool := hidden lifetime r t p.
