(* Model of nsqadmin's cluster view (C18): internal/stringy/slice.go, the aggregation of
   internal/clusterinfo/{types,data}.go (TopicStats.Add, ChannelStats.Add,
   Producer.UnmarshalJSON, GetLookupdTopics, GetNSQDTopics, GetLookupdProducers,
   GetLookupdTopicProducers, GetNSQDStats with its keyed channel map and the
   len(errs) == len(upstreams) rule) and the handlers of nsqadmin/http.go that turn them
   into /api/topics, /api/topics/:t, /api/topics/:t/:c, /api/nodes, /api/nodes/:n and
   /api/counter -- as the code is after the repair commits a8ccec7, 68bce44, 87f8c11.
   Counters are Go int64: every addition wraps ([w64]).  Upstream documents are given as
   encoding/json decodes them: a JSON null inside an array is [None]; the code paths that
   dereference decoded pointers are written twice, once with every dereference explicit
   ([res]: [Crash] = panic in a fetch goroutine = the process dies, [Recovered] = panic in
   the handler goroutine = httprouter's PanicHandler answers 500) and once as the plain
   function the theorems are about; ClusterProofs shows they agree, i.e. no input crashes.
   The upstreams are processed in list order; the code's order is the completion order
   of its fetch goroutines, so the correspondence compares order-insensitive projections.
   No proofs here. *)
From Coq Require Import String List ZArith NArith Bool QArith_base.
From NSQV Require Import model.Judge.
Import ListNotations.
Open Scope list_scope.
Open Scope Z_scope.

(* ------------------------------------------------------------------ int64 *)
Definition two63 : Z := 9223372036854775808.
Definition two64 : Z := 18446744073709551616.
Definition w64 (z : Z) : Z := let m := z mod two64 in if m <? two63 then m else m - two64.
Definition in_i64 (z : Z) : Prop := - two63 <= z < two63.

(* ------------------------------------------------------------------ stringy *)
Definition smem (x : bytes) (l : list bytes) : bool := existsb (bytes_eqb x) l.
(* stringy.Add *)
Definition s_add (s : list bytes) (a : bytes) : list bytes := if smem a s then s else s ++ [a].
(* stringy.Union *)
Definition s_union (s a : list bytes) : list bytes := fold_left s_add a s.
(* stringy.Uniq *)
Definition s_uniq (s : list bytes) : list bytes := fold_left s_add s [].

(* sort.Strings: byte-wise lexicographic order *)
Fixpoint bytes_leb (a b : bytes) : bool :=
  match a, b with
  | [], _ => true
  | _ :: _, [] => false
  | x :: a', y :: b' => if (x <? y)%N then true else if (y <? x)%N then false else bytes_leb a' b'
  end.
Fixpoint insert_sorted (x : bytes) (l : list bytes) : list bytes :=
  match l with
  | [] => [x]
  | y :: r => if bytes_leb x y then x :: l else y :: insert_sorted x r
  end.
Definition sort_strings (l : list bytes) : list bytes := fold_right insert_sorted [] l.

(* ------------------------------------------------------------------ partial failure *)
Inductive fetch (A : Type) := FFail | FOk (a : A).
Arguments FFail {A}.
Arguments FOk {A} a.

Definition failed {K A : Type} (u : K * fetch A) : bool := match snd u with FFail => true | FOk _ => false end.
Definition answers {K A : Type} (ups : list (K * fetch A)) : list (K * A) :=
  flat_map (fun u => match snd u with FOk a => [(fst u, a)] | FFail => [] end) ups.
Definition nfailed {K A : Type} (ups : list (K * fetch A)) : nat := length (filter failed ups).

(* the result of one clusterinfo Get*: every upstream failed (a plain error: the handler
   answers 502), or a value together with the number of upstreams that failed (> 0: a
   PartialErr, the handler adds a warning) *)
Inductive agg (V : Type) := AHard | AOk (v : V) (nerr : nat).
Arguments AHard {V}.
Arguments AOk {V} v nerr.

(* if len(errs) == len(upstreams) { hard error } ; if len(errs) > 0 { partial } *)
Definition error_rule {V : Type} (n nerr : nat) (v : V) : agg V :=
  if Nat.eqb nerr n then AHard else AOk v nerr.

(* ------------------------------------------------------------------ explicit dereferences *)
Inductive res (A : Type) := Ok (a : A) | Crash | Recovered.
Arguments Ok {A} a.
Arguments Crash {A}.
Arguments Recovered {A}.
Definition bind {A B : Type} (r : res A) (f : A -> res B) : res B :=
  match r with Ok a => f a | Crash => Crash | Recovered => Recovered end.
(* *p in a fetch goroutine *)
Definition deref {A : Type} (p : option A) : res A := match p with Some a => Ok a | None => Crash end.
Definition is_nil {A : Type} (p : option A) : bool := match p with None => true | Some _ => false end.
Fixpoint fold_res {A B : Type} (f : A -> B -> res A) (l : list B) (a : A) : res A :=
  match l with
  | [] => Ok a
  | b :: r => bind (f a b) (fold_res f r)
  end.
Definition nonnil {A : Type} (l : list (option A)) : list A :=
  flat_map (fun p => match p with Some a => [a] | None => [] end) l.

(* ------------------------------------------------------------------ producers *)
Record prod := mkProd {
  pr_bcast : bytes; pr_http : bytes; pr_tcp : bytes;   (* broadcast_address, http_port, tcp_port (decimal text) *)
  pr_host : bytes; pr_remote : bytes; pr_version : bytes;
  pr_topics : list bytes; pr_tombs : list bool }.

Definition colon : bytes := [58%N].
Definition http_addr (p : prod) : bytes := pr_bcast p ++ colon ++ pr_http p.
Definition tcp_addr (p : prod) : bytes := pr_bcast p ++ colon ++ pr_tcp p.

(* Producer.UnmarshalJSON: pair topics with tombstones.
   r.Tombstoned[i] is an index expression: out of range = panic *)
Definition index_bool (l : list bool) (i : nat) : res bool :=
  match nth_error l i with Some b => Ok b | None => Crash end.
Fixpoint pair_from (i : nat) (topics : list bytes) (tombs : list bool) : res (list (bytes * bool)) :=
  match topics with
  | [] => Ok []
  | t :: r =>
      (* tombstoned := i < len(r.Tombstoned) && r.Tombstoned[i] *)
      bind (if Nat.ltb i (length tombs) then index_bool tombs i else Ok false) (fun b =>
      bind (pair_from (S i) r tombs) (fun rest => Ok ((t, b) :: rest)))
  end.
Definition pair_tombstones (topics : list bytes) (tombs : list bool) : res (list (bytes * bool)) :=
  pair_from 0 topics tombs.
(* the same as a plain function *)
Fixpoint pair_pure (i : nat) (topics : list bytes) (tombs : list bool) : list (bytes * bool) :=
  match topics with
  | [] => []
  | t :: r => (t, nth i tombs false) :: pair_pure (S i) r tombs
  end.

(* an entry of the node list *)
Record nentry := mkNE { ne_prod : prod; ne_topics : list (bytes * bool); ne_remotes : list bytes }.

Definition slash : bytes := [47%N].
Definition na : bytes := [78%N; 47%N; 65%N].   (* "N/A" *)
Definition remote_label (lookupd : bytes) (p : prod) : bytes :=
  lookupd ++ slash ++ (match pr_remote p with [] => na | r => r end).

Fixpoint add_remote (key remote : bytes) (l : list nentry) : list nentry :=
  match l with
  | [] => []
  | e :: r => if bytes_eqb (tcp_addr (ne_prod e)) key
              then mkNE (ne_prod e) (ne_topics e) (ne_remotes e ++ [remote]) :: r
              else e :: add_remote key remote r
  end.

(* GetLookupdProducers, one producer of one answer (plain) *)
Definition lp_step (lookupd : bytes) (acc : list nentry) (p : prod) : list nentry :=
  let key := tcp_addr p in
  let acc' := if existsb (fun e => bytes_eqb (tcp_addr (ne_prod e)) key) acc then acc
              else acc ++ [mkNE p (pair_pure 0 (pr_topics p) (pr_tombs p)) []] in
  add_remote key (remote_label lookupd p) acc'.
Definition lookupd_producers_pure (ups : list (bytes * fetch (list (option prod)))) : agg (list nentry) :=
  error_rule (length ups) (nfailed ups)
    (fold_left (fun acc u => fold_left (lp_step (fst u)) (nonnil (snd u)) acc) (answers ups) []).
(* ... with the dereferences of the decoded *Producer explicit *)
Definition lp_step_g (lookupd : bytes) (acc : list nentry) (pp : option prod) : res (list nentry) :=
  if is_nil pp then Ok acc                          (* if producer == nil { continue } *)
  else bind (deref pp) (fun p => Ok (lp_step lookupd acc p)).
Definition lookupd_producers (ups : list (bytes * fetch (list (option prod)))) : res (agg (list nentry)) :=
  bind (fold_res (fun acc u => fold_res (lp_step_g (fst u)) (snd u) acc) (answers ups) [])
       (fun v => Ok (error_rule (length ups) (nfailed ups) v)).

(* GetLookupdTopicProducers: de-duplicated by HTTP address, first seen wins *)
Definition ltp_step (acc : list prod) (p : prod) : list prod :=
  if existsb (fun q => bytes_eqb (http_addr q) (http_addr p)) acc then acc else acc ++ [p].
Definition topic_producers_pure (ups : list (bytes * fetch (list (option prod)))) : agg (list prod) :=
  error_rule (length ups) (nfailed ups)
    (fold_left (fun acc u => fold_left ltp_step (nonnil (snd u)) acc) (answers ups) []).
Definition ltp_step_g (acc : list prod) (pp : option prod) : res (list prod) :=
  if is_nil pp then Ok acc else bind (deref pp) (fun p => Ok (ltp_step acc p)).
Definition topic_producers (ups : list (bytes * fetch (list (option prod)))) : res (agg (list prod)) :=
  bind (fold_res (fun acc u => fold_res ltp_step_g (snd u) acc) (answers ups) [])
       (fun v => Ok (error_rule (length ups) (nfailed ups) v)).

(* GetLookupdTopics / GetLookupdTopicChannels: union, de-duplicated, sorted *)
Definition lookupd_topics (ups : list (bytes * fetch (list bytes))) : agg (list bytes) :=
  error_rule (length ups) (nfailed ups) (sort_strings (s_uniq (flat_map snd (answers ups)))).
(* GetNSQDTopics: stringy.Add of every topic name of every /stats answer, sorted *)
Definition nsqd_topics (ups : list (bytes * fetch (list bytes))) : agg (list bytes) :=
  error_rule (length ups) (nfailed ups) (sort_strings (fold_left s_add (flat_map snd (answers ups)) [])).

(* ------------------------------------------------------------------ per-node statistics as decoded *)
Record client := mkClient { cl_id : bytes; cl_host : bytes }.

(* e2e_processing_latency as an nsqd serves it: the number of samples of its window and one
   {"quantile": q, "value": v} entry per configured percentile ([None] = a JSON null entry).
   Numbers are exact rationals: the correspondence feeds values float64 represents exactly.
   What the code does with them is model/Quantile.v. *)
Record pct := mkPct { pc_q : Q; pc_val : Q }.
Record e2e := mkE2e { e_count : Z; e_pcts : list (option pct) }.

Record chan := mkChan {
  ch_name : bytes;
  ch_depth : Z; ch_backend : Z; ch_inflight : Z; ch_deferred : Z; ch_requeue : Z; ch_timeout : Z;
  ch_msgs : Z; ch_zone : Z; ch_region : Z; ch_global : Z; ch_ccount : Z;
  ch_paused : bool;
  ch_clients : list (option client);
  ch_e2e : option e2e              (* e2e_processing_latency: absent / null, or the block *)
}.

Record topic := mkTopic {
  tp_name : bytes;
  tp_depth : Z; tp_backend : Z; tp_msgs : Z; tp_zone : Z; tp_region : Z; tp_global : Z;
  tp_paused : bool;
  tp_chans : list (option chan);
  tp_e2e : option e2e
}.

(* the 13 summed channel counters and the 8 summed topic counters *)
Record cnum := mkCN { n_depth : Z; n_mem : Z; n_backend : Z; n_inflight : Z; n_deferred : Z; n_requeue : Z;
                      n_timeout : Z; n_msgs : Z; n_delivery : Z; n_zone : Z; n_region : Z; n_global : Z; n_ccount : Z }.
Record tnum := mkTNum { t_depth : Z; t_mem : Z; t_backend : Z; t_msgs : Z; t_delivery : Z; t_zone : Z; t_region : Z; t_global : Z }.

Definition cn_zero : cnum := mkCN 0 0 0 0 0 0 0 0 0 0 0 0 0.
Definition tn_zero : tnum := mkTNum 0 0 0 0 0 0 0 0.

(* GetNSQDStats: MemoryDepth = Depth - BackendDepth, DeliveryMsgCount = zone + region + global,
   whatever the upstream said about them *)
Definition chan_num (c : chan) : cnum :=
  mkCN (ch_depth c) (w64 (ch_depth c - ch_backend c)) (ch_backend c) (ch_inflight c) (ch_deferred c) (ch_requeue c)
       (ch_timeout c) (ch_msgs c) (w64 (w64 (ch_zone c + ch_region c) + ch_global c)) (ch_zone c) (ch_region c) (ch_global c)
       (ch_ccount c).
Definition topic_num (t : topic) : tnum :=
  mkTNum (tp_depth t) (w64 (tp_depth t - tp_backend t)) (tp_backend t) (tp_msgs t)
         (w64 (w64 (tp_zone t + tp_region t) + tp_global t)) (tp_zone t) (tp_region t) (tp_global t).

(* ChannelStats.Add / TopicStats.Add, the counters: x += a.x for each of them *)
Definition cn_add (a b : cnum) : cnum :=
  mkCN (w64 (n_depth a + n_depth b)) (w64 (n_mem a + n_mem b)) (w64 (n_backend a + n_backend b))
       (w64 (n_inflight a + n_inflight b)) (w64 (n_deferred a + n_deferred b)) (w64 (n_requeue a + n_requeue b))
       (w64 (n_timeout a + n_timeout b)) (w64 (n_msgs a + n_msgs b)) (w64 (n_delivery a + n_delivery b))
       (w64 (n_zone a + n_zone b)) (w64 (n_region a + n_region b)) (w64 (n_global a + n_global b))
       (w64 (n_ccount a + n_ccount b)).
Definition tn_add (a b : tnum) : tnum :=
  mkTNum (w64 (t_depth a + t_depth b)) (w64 (t_mem a + t_mem b)) (w64 (t_backend a + t_backend b))
         (w64 (t_msgs a + t_msgs b)) (w64 (t_delivery a + t_delivery b)) (w64 (t_zone a + t_zone b))
         (w64 (t_region a + t_region b)) (w64 (t_global a + t_global b)).
Definition cn_list (a : cnum) : list Z :=
  [n_depth a; n_mem a; n_backend a; n_inflight a; n_deferred a; n_requeue a; n_timeout a; n_msgs a; n_delivery a;
   n_zone a; n_region a; n_global a; n_ccount a].
Definition tn_list (a : tnum) : list Z :=
  [t_depth a; t_mem a; t_backend a; t_msgs a; t_delivery a; t_zone a; t_region a; t_global a].

(* an aggregated channel: ChannelStats after zero or more Add *)
Record cagg := mkCA {
  ca_node : bytes;                              (* "*" once something was added *)
  ca_topic : bytes; ca_name : bytes;
  ca_num : cnum; ca_paused : bool;
  ca_nodes : list (bytes * bytes * cnum);       (* NodeStats: node address, hostname, that node's counters *)
  ca_clients : list (bytes * client)            (* node address, client *)
}.
Definition star : bytes := [42%N].

(* quantile: UnmarshalJSON assigns into every non-null percentile map ([true] = a null entry); Add
   returns at once on nil.  The numbers Add computes are modelled in model/Quantile.v. *)
Definition map_assign (null_map : bool) : res unit := if null_map then Crash else Ok tt.
Fixpoint e2e_unmarshal (ps : list bool) : res unit :=
  match ps with
  | [] => Ok tt
  | p :: r => bind (if p then Ok tt (* if p == nil { continue } *) else map_assign p) (fun _ => e2e_unmarshal r)
  end.
Definition e2e_add (e2 : option e2e) : res unit :=
  if is_nil e2 then Ok tt                       (* if e2 == nil { return } *)
  else bind (deref e2) (fun _ => Ok tt).

(* ChannelStats.Add (plain) *)
Definition cagg_add (c : cagg) (node host : bytes) (a : chan) : cagg :=
  mkCA star (ca_topic c) (ca_name c) (cn_add (ca_num c) (chan_num a)) (ca_paused c || ch_paused a)
       (ca_nodes c ++ [(node, host, chan_num a)])
       (ca_clients c ++ map (fun cl => (node, cl)) (nonnil (ch_clients a))).
(* ... with the client pointers explicit: only non-nil clients are appended, and the sort's
   Less dereferences every element it was given *)
Definition cagg_add_g (c : cagg) (node host : bytes) (a : chan) : res cagg :=
  bind (e2e_add (ch_e2e a)) (fun _ =>
  let kept := filter (fun p => negb (is_nil p)) (ch_clients a) in
  bind (fold_res (fun acc p => bind (deref p) (fun cl => Ok (acc ++ [(node, cl)]))) kept (ca_clients c)) (fun cls =>
  Ok (mkCA star (ca_topic c) (ca_name c) (cn_add (ca_num c) (chan_num a)) (ca_paused c || ch_paused a)
           (ca_nodes c ++ [(node, host, chan_num a)]) cls))).

(* a per-node topic entry of the result (TopicStats with Node/Hostname set) *)
Record tnode := mkTN { tn_node : bytes; tn_host : bytes; tn_name : bytes; tn_num : tnum; tn_paused : bool;
                       tn_chans : list (option chan) }.

Definition chan_key (sel_topic topic chan : bytes) : bytes :=
  match sel_topic with [] => topic ++ colon ++ chan | _ => chan end.

Fixpoint cmap_update (key : bytes) (mk : unit -> cagg) (f : cagg -> cagg) (m : list (bytes * cagg)) : list (bytes * cagg) :=
  match m with
  | [] => [(key, f (mk tt))]
  | (k, v) :: r => if bytes_eqb k key then (k, f v) :: r else (k, v) :: cmap_update key mk f r
  end.
Fixpoint cmap_find (key : bytes) (m : list (bytes * cagg)) : option cagg :=
  match m with
  | [] => None
  | (k, v) :: r => if bytes_eqb k key then Some v else cmap_find key r
  end.

Record pinfo := mkP { p_addr : bytes; p_hostname : bytes }.   (* a producer: HTTP address, hostname *)
Definition stats_state : Type := list tnode * list (bytes * cagg).

Definition proc_chan (p : pinfo) (sel_topic tname : bytes) (cm : list (bytes * cagg)) (c : chan) : list (bytes * cagg) :=
  cmap_update (chan_key sel_topic tname (ch_name c))
              (fun _ => mkCA (p_addr p) tname (ch_name c) cn_zero false [] [])
              (fun v => cagg_add v (p_addr p) (p_hostname p) c) cm.

Definition sel_skips (sel_topic name : bytes) : bool :=
  match sel_topic with [] => false | _ => negb (bytes_eqb name sel_topic) end.

Definition proc_topic (p : pinfo) (sel_topic : bytes) (st : stats_state) (t : topic) : stats_state :=
  if sel_skips sel_topic (tp_name t) then st
  else (fst st ++ [mkTN (p_addr p) (p_hostname p) (tp_name t) (topic_num t) (tp_paused t) (tp_chans t)],
        fold_left (proc_chan p sel_topic (tp_name t)) (nonnil (tp_chans t)) (snd st)).

(* GetNSQDStats (plain): producers in list order, each with its /stats answer *)
Definition nsqd_stats_pure (ups : list (pinfo * fetch (list (option topic)))) (sel_topic : bytes) : agg stats_state :=
  error_rule (length ups) (nfailed ups)
    (fold_left (fun st u => fold_left (proc_topic (fst u) sel_topic) (nonnil (snd u)) st) (answers ups) ([], [])).

(* ... with every dereference of decoded data explicit *)
Definition client_touch (pc : option client) : res unit :=
  if is_nil pc then Ok tt (* if c == nil { continue } *) else bind (deref pc) (fun _ => Ok tt).   (* c.Node = addr *)
Definition proc_chan_g (p : pinfo) (sel_topic tname : bytes) (cm : list (bytes * cagg)) (pc : option chan) : res (list (bytes * cagg)) :=
  if is_nil pc then Ok cm                       (* if channel == nil { continue } *)
  else bind (deref pc) (fun c =>                (* channel.Node = addr ... *)
       bind (fold_res (fun _ cl => client_touch cl) (ch_clients c) tt) (fun _ =>
       let key := chan_key sel_topic tname (ch_name c) in
       let cur := match cmap_find key cm with Some v => v | None => mkCA (p_addr p) tname (ch_name c) cn_zero false [] [] end in
       bind (cagg_add_g cur (p_addr p) (p_hostname p) c) (fun v =>
       Ok (cmap_update key (fun _ => v) (fun _ => v) cm)))).
Definition proc_topic_g (p : pinfo) (sel_topic : bytes) (st : stats_state) (pt : option topic) : res stats_state :=
  if is_nil pt then Ok st                       (* if topic == nil { continue } *)
  else bind (deref pt) (fun t =>                (* topic.Node = addr ... *)
       if sel_skips sel_topic (tp_name t) then Ok st
       else bind (fold_res (proc_chan_g p sel_topic (tp_name t)) (tp_chans t) (snd st)) (fun cm =>
            Ok (fst st ++ [mkTN (p_addr p) (p_hostname p) (tp_name t) (topic_num t) (tp_paused t) (tp_chans t)], cm))).
(* json.Unmarshal of the answer runs E2eProcessingLatencyAggregate.UnmarshalJSON on every aggregate *)
Definition decode_e2e_chan (pc : option chan) : res unit :=
  match pc with Some c => match ch_e2e c with Some e => e2e_unmarshal (map is_nil (e_pcts e)) | None => Ok tt end | None => Ok tt end.
Definition decode_e2e_topic (pt : option topic) : res unit :=
  match pt with
  | Some t => bind (match tp_e2e t with Some e => e2e_unmarshal (map is_nil (e_pcts e)) | None => Ok tt end)
                   (fun _ => fold_res (fun _ c => decode_e2e_chan c) (tp_chans t) tt)
  | None => Ok tt
  end.
Definition nsqd_stats (ups : list (pinfo * fetch (list (option topic)))) (sel_topic : bytes) : res (agg stats_state) :=
  bind (fold_res (fun st u =>
          bind (fold_res (fun _ t => decode_e2e_topic t) (snd u) tt) (fun _ =>
          fold_res (proc_topic_g (fst u) sel_topic) (snd u) st)) (answers ups) ([], []))
       (fun v => Ok (error_rule (length ups) (nfailed ups) v)).

(* ------------------------------------------------------------------ TopicStats.Add over the nodes (topicHandler) *)
(* the aggregated topic: counters, paused, node list, channels.  A channel of the aggregate
   starts as the first node's channel and then has the others' added to it. *)
Record chan_sum := mkCS { cs_name : bytes; cs_num : cnum; cs_paused : bool }.
Record tagg := mkTA { ta_num : tnum; ta_paused : bool; ta_nodes : list (bytes * bytes); ta_chans : list chan_sum }.

Definition cs_add (s : chan_sum) (a : chan) : chan_sum :=
  mkCS (cs_name s) (cn_add (cs_num s) (chan_num a)) (cs_paused s || ch_paused a).

(* for _, aChannelStats := range a.Channels { found: every t.Channels entry of that name gets Add;
   not found: appended } *)
Definition merge_chan (cs : list chan_sum) (a : chan) : list chan_sum :=
  if existsb (fun s => bytes_eqb (cs_name s) (ch_name a)) cs
  then map (fun s => if bytes_eqb (cs_name s) (ch_name a) then cs_add s a else s) cs
  else cs ++ [mkCS (ch_name a) (chan_num a) (ch_paused a)].

Definition tagg_add (t : tagg) (a : tnode) : tagg :=
  mkTA (tn_add (ta_num t) (tn_num a)) (ta_paused t || tn_paused a) (ta_nodes t ++ [(tn_node a, tn_host a)])
       (fold_left merge_chan (nonnil (tn_chans a)) (ta_chans t)).
(* in the handler goroutine, with the pointers explicit.  t.Channels may come to hold a nil:
   `for _, aChannelStats := range a.Channels { for _, channelStats := range t.Channels {
   if aChannelStats.ChannelName == channelStats.ChannelName ...` dereferences both pointers,
   but only when t.Channels is not empty; a nil channel met while t.Channels is still empty is
   appended undereferenced, after which any further channel panics.  State: the channels
   merged so far and whether t.Channels holds that nil. *)
Definition merge_g (st : list chan_sum * bool) (pc : option chan) : res (list chan_sum * bool) :=
  if snd st then Recovered
  else match pc with
       | Some c => Ok (merge_chan (fst st) c, false)
       | None => match fst st with [] => Ok ([], true) | _ => Recovered end
       end.
Definition tagg_zero : tagg := mkTA tn_zero false [] [].

(* ------------------------------------------------------------------ the views *)
Inductive view (V : Type) := VStatus (code : N) | VOk (v : V) (warn : bool).
Arguments VStatus {V} code.
Arguments VOk {V} v warn.

Definition warn_of (n : nat) : bool := negb (Nat.eqb n 0).

(* /api/topics *)
Definition topics_view (lookupd_mode : bool) (ups : list (bytes * fetch (list bytes))) : view (list bytes) :=
  match (if lookupd_mode then lookupd_topics ups else nsqd_topics ups) with
  | AHard => VStatus 502
  | AOk v n => VOk v (warn_of n)
  end.

(* the producers of a topic, then their /stats.  [stats_of] gives the /stats answer of a
   producer (by HTTP address) for this request *)
Definition two_stage {V : Type} (producers : agg (list pinfo))
           (stats_of : pinfo -> fetch (list (option topic))) (sel_topic : bytes)
           (k : stats_state -> bool -> res (view V)) : res (view V) :=
  match producers with
  | AHard => Ok (VStatus 502)
  | AOk ps n1 =>
      bind (nsqd_stats (map (fun p => (p, stats_of p)) ps) sel_topic) (fun r =>
      match r with
      | AHard => Ok (VStatus 502)
      | AOk st n2 => k st (warn_of n1 || warn_of n2)
      end)
  end.

(* /api/topics/:topic *)
Definition topic_view (producers : agg (list pinfo)) (stats_of : pinfo -> fetch (list (option topic))) (t : bytes)
  : res (view tagg) :=
  two_stage producers stats_of t (fun st w =>
    (* the nodes in order, each node's channels in order; the counters, paused flag and node
       list do not depend on the channel pointers *)
    let p := fold_left tagg_add (fst st) tagg_zero in
    bind (fold_res merge_g (flat_map tn_chans (fst st)) ([], false)) (fun r =>
    Ok (VOk (mkTA (ta_num p) (ta_paused p) (ta_nodes p) (fst r)) w))).

(* /api/topics/:topic/:channel: channelStats[channelName] of a nil map entry is dereferenced *)
Definition channel_view (producers : agg (list pinfo)) (stats_of : pinfo -> fetch (list (option topic))) (t c : bytes)
  : res (view cagg) :=
  two_stage producers stats_of t (fun st w =>
    match cmap_find c (snd st) with
    | Some v => Ok (VOk v w)
    | None => Recovered
    end).

(* /api/counter: every channel of every topic, per node *)
Definition counter_rows (cm : list (bytes * cagg)) : list (bytes * bytes * bytes * Z) :=
  flat_map (fun kv => map (fun nd => (ca_topic (snd kv), ca_name (snd kv), fst (fst nd), n_msgs (snd nd))) (ca_nodes (snd kv))) cm.
(* s.MessageCount += ... per key topic:channel:node *)
Fixpoint counter_addrow (row : bytes * bytes * bytes * Z) (acc : list (bytes * bytes * bytes * Z)) : list (bytes * bytes * bytes * Z) :=
  match acc with
  | [] => [row]
  | r :: rest =>
      let '(t, c, n, v) := row in let '(t', c', n', v') := r in
      if bytes_eqb (t ++ colon ++ c ++ colon ++ n) (t' ++ colon ++ c' ++ colon ++ n')
      then (t', c', n', w64 (v' + v)) :: rest else r :: counter_addrow row rest
  end.
Definition counter_view (producers : agg (list pinfo)) (stats_of : pinfo -> fetch (list (option topic)))
  : res (view (list (bytes * bytes * bytes * Z))) :=
  two_stage producers stats_of [] (fun st w =>
    Ok (VOk (fold_left (fun acc r => counter_addrow r acc) (counter_rows (snd st)) []) w)).

(* /api/nodes/:node: the node's own /stats; any error there is a 502; totals *)
Record node_totals := mkNT { nt_topics : list tnode; nt_messages : Z; nt_clients : Z }.
Definition node_view (producers : agg (list pinfo)) (stats_of : pinfo -> fetch (list (option topic))) (node : bytes)
  : res (view node_totals) :=
  match producers with
  | AHard => Ok (VStatus 502)
  | AOk ps n1 =>
      match find (fun p => bytes_eqb (p_addr p) node) ps with
      | None => Ok (VStatus 404)
      | Some p =>
          bind (nsqd_stats [(p, stats_of p)] []) (fun r =>
          match r with
          | AHard => Ok (VStatus 502)
          | AOk st _ =>
              (* for _, cs := range ts.Channels { totalClients += len(cs.Clients) }: a nil channel is dereferenced *)
              bind (fold_res (fun acc ts =>
                      bind (fold_res (fun a pc => match pc with Some c => Ok (w64 (a + Z.of_nat (length (ch_clients c)))) | None => Recovered end)
                                     (tn_chans ts) (fst acc)) (fun cl =>
                      Ok (cl, w64 (snd acc + t_msgs (tn_num ts))))) (fst st) (0, 0)) (fun tot =>
              Ok (VOk (mkNT (fst st) (snd tot) (fst tot)) (warn_of n1)))
          end)
      end
  end.

(* /api/nodes *)
Definition nodes_view (lookupd_mode : bool) (lookupd_ups : list (bytes * fetch (list (option prod))))
           (direct : agg (list nentry)) : res (view (list nentry)) :=
  if lookupd_mode then
    bind (lookupd_producers lookupd_ups) (fun r =>
    match r with AHard => Ok (VStatus 502) | AOk v n => Ok (VOk v (warn_of n)) end)
  else match direct with AHard => Ok (VStatus 502) | AOk v n => Ok (VOk v (warn_of n)) end.

(* GetNSQDProducers / GetNSQDTopicProducers in direct mode: per configured nsqd, /info and
   /stats; an nsqd counts as failed when either fails *)
Definition direct_producers {A : Type} (ups : list (bytes * fetch A)) (mk : bytes -> A -> list pinfo) : agg (list pinfo) :=
  error_rule (length ups) (nfailed ups) (flat_map (fun u => mk (fst u) (snd u)) (answers ups)).

(* ------------------------------------------------------------------ specification side:
   what the theorems of ClusterProofs state the aggregates to be, as directly computable
   functions of the upstream data (also evaluated by the correspondence judge) *)
Fixpoint sumZ (l : list Z) : Z := match l with [] => 0 | x :: r => x + sumZ r end.

Definition cfields : list (cnum -> Z) :=
  [n_depth; n_mem; n_backend; n_inflight; n_deferred; n_requeue; n_timeout; n_msgs; n_delivery; n_zone; n_region; n_global; n_ccount].
Definition tfields : list (tnum -> Z) :=
  [t_depth; t_mem; t_backend; t_msgs; t_delivery; t_zone; t_region; t_global].

(* every (producer, topic name, channel) occurrence the loops visit, in order *)
Definition centry : Type := pinfo * bytes * chan.
Definition topic_entries (p : pinfo) (sel : bytes) (t : topic) : list centry :=
  if sel_skips sel (tp_name t) then [] else map (fun c => (p, tp_name t, c)) (nonnil (tp_chans t)).
Definition all_entries (ups : list (pinfo * fetch (list (option topic)))) (sel : bytes) : list centry :=
  flat_map (fun u : pinfo * list (option topic) => flat_map (topic_entries (fst u) sel) (nonnil (snd u))) (answers ups).

Definition ekey (sel : bytes) (e : centry) : bytes := chan_key sel (snd (fst e)) (ch_name (snd e)).

(* the per-node topic entries of the result *)
Definition topic_nodes (p : pinfo) (sel : bytes) (t : topic) : list tnode :=
  if sel_skips sel (tp_name t) then []
  else [mkTN (p_addr p) (p_hostname p) (tp_name t) (topic_num t) (tp_paused t) (tp_chans t)].
Definition all_topic_nodes (ups : list (pinfo * fetch (list (option topic)))) (sel : bytes) : list tnode :=
  flat_map (fun u : pinfo * list (option topic) => flat_map (topic_nodes (fst u) sel) (nonnil (snd u))) (answers ups).

Definition stats_value (ups : list (pinfo * fetch (list (option topic)))) (sel : bytes) : stats_state :=
  fold_left (fun st u => fold_left (proc_topic (fst u) sel) (nonnil (snd u)) st) (answers ups) ([], []).

Definition tagg_of (nodes : list tnode) : tagg := fold_left tagg_add nodes tagg_zero.

Fixpoint cs_find (k : bytes) (cs : list chan_sum) : option chan_sum :=
  match cs with
  | [] => None
  | s :: r => if bytes_eqb (cs_name s) k then Some s else cs_find k r
  end.

(* the topic view panics (recovered: 500) iff the selected topic's channel lists, taken together,
   contain a null and are not just that single null *)
Definition chans_seq (nodes : list tnode) : list (option chan) := flat_map tn_chans nodes.
Definition null_chan_panics (nodes : list tnode) : bool :=
  existsb is_nil (chans_seq nodes) && negb (match chans_seq nodes with [None] => true | _ => false end).

Definition ne_keys (l : list nentry) : list bytes := map (fun e => tcp_addr (ne_prod e)) l.

(* /api/counter, specification side: a row's key as the code builds it (topic:channel:node) *)
Definition row : Type := bytes * bytes * bytes * Z.
Definition row_key (r : row) : bytes := let '(t, c, n, _) := r in t ++ colon ++ c ++ colon ++ n.
Definition row_val (r : row) : Z := let '(_, _, _, v) := r in v.
Fixpoint rows_find (k : bytes) (acc : list row) : option Z :=
  match acc with
  | [] => None
  | r :: rest => if bytes_eqb (row_key r) k then Some (row_val r) else rows_find k rest
  end.
Definition counter_fold (rows : list row) : list row := fold_left (fun acc r => counter_addrow r acc) rows [].
Definition entry_key3 (e : centry) : bytes := ekey [] e ++ colon ++ p_addr (fst (fst e)).

(* ------------------------------------------------------------------ where the producers of a request come from *)
Definition lup (A : Type) : Type := list (bytes * fetch A).

(* a configured nsqd in direct mode: does /stats answer, the topic names it lists (for the
   request's filter), what /info says (None = /info fails) *)
Record dnode := mkDN { dn_stats_ok : bool; dn_topics : list bytes; dn_info : option prod }.

(* where the producers of a request come from *)
Inductive stage1 :=
| SLookupTopic (ups : lup (list (option prod)))   (* /lookup?topic= of every nsqlookupd: GetLookupdTopicProducers *)
| SLookupNodes (ups : lup (list (option prod)))   (* /nodes of every nsqlookupd: GetLookupdProducers *)
| SDirectTopic (t : bytes) (ups : list (bytes * dnode))   (* GetNSQDTopicProducers *)
| SDirectNodes (ups : list (bytes * dnode)).              (* GetNSQDProducers *)


(* ---- producers of a request *)
Definition host_of (addr : bytes) : bytes :=
  (fix go (l : bytes) : bytes := match l with [] => [] | c :: r => if (c =? 58)%N then [] else c :: go r end) addr.
Definition port_of (addr : bytes) : bytes :=
  (fix go (l : bytes) : bytes := match l with [] => [] | c :: r => if (c =? 58)%N then r else go r end) addr.

Definition pinfo_of (p : prod) : pinfo := mkP (http_addr p) (pr_host p).

Definition direct_topic_fetch (t : bytes) (u : bytes * dnode) : bytes * fetch (list pinfo) :=
  let d := snd u in
  (fst u,
   if negb (dn_stats_ok d) then FFail
   else if negb (smem t (dn_topics d)) then FOk []
   else match dn_info d with
        | None => FFail
        | Some i =>
            (* BroadcastAddress == "": host and port of the configured address; Hostname == "": its host *)
            let i' := match pr_bcast i with
                      | [] => mkProd (host_of (fst u)) (port_of (fst u)) (pr_tcp i) (pr_host i) [] (pr_version i) [] []
                      | _ => i end in
            let hn := match pr_host i' with [] => host_of (fst u) | h => h end in
            FOk [mkP (http_addr i') hn]
        end).
Definition direct_nodes_fetch (u : bytes * dnode) : bytes * fetch (list prod) :=
  let d := snd u in
  (fst u,
   match dn_info d with
   | None => FFail
   | Some i => if dn_stats_ok d
               then FOk [mkProd (pr_bcast i) (pr_http i) (pr_tcp i) (pr_host i) [] (pr_version i) (dn_topics d) []]
               else FFail
   end).

Definition stage1_producers (s : stage1) : agg (list pinfo) :=
  match s with
  | SLookupTopic ups =>
      match topic_producers_pure ups with AHard => AHard | AOk ps n => AOk (map pinfo_of ps) n end
  | SLookupNodes ups =>
      match lookupd_producers_pure ups with AHard => AHard | AOk es n => AOk (map (fun e => pinfo_of (ne_prod e)) es) n end
  | SDirectTopic t ups =>
      let f := map (direct_topic_fetch t) ups in
      error_rule (length f) (nfailed f) (flat_map snd (answers f))
  | SDirectNodes ups =>
      let f := map direct_nodes_fetch ups in
      error_rule (length f) (nfailed f) (map pinfo_of (flat_map snd (answers f)))
  end.

