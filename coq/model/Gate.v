(* Command-level model of nsqd's TLS-required and AUTH gates (property C11).

   Transcribed from
     nsqd/protocol_v2.go   Exec, enforceTLSPolicy, IDENTIFY, AUTH, CheckAuth, SUB, PUB, MPUB,
                           DPUB, RDY, FIN, REQ, TOUCH, CLS, NOP
     nsqd/client_v2.go     Auth, QueryAuthd, IsAuthorized, HasAuthorizations, UpgradeTLS,
                           SetHeartbeatInterval
     internal/auth/authorizations.go   HasPermission, Authorization.IsAllowed, State.IsAllowed,
                           IsExpired, QueryAnyAuthd, QueryAuthd (response validation)
     nsqd/nsqd.go          New (TLS option normalisation), Main (HTTP listener wiring),
                           IsAuthEnabled
     nsqd/http.go          httpServer.ServeHTTP (the 403 rule)

   Input: a list of ALREADY PARSED commands (name, parameters, an abstract description of
   the body that follows), each with the clock reading at which it is executed.  The auth
   server is an oracle stream of answers consumed one per HTTP query.  Regular-expression
   matching and compilability are Section variables.

   Strings (topic and channel names, patterns, permissions, secrets) are byte lists.
   No proofs here. *)
From Coq Require Import List NArith ZArith Bool.
From NSQV Require Import model.Judge model.Names.
Import ListNotations.
Open Scope bool_scope.

Definition str := bytes.
Definition str_eqb : str -> str -> bool := bytes_eqb.
Definition is_nil {A : Type} (l : list A) : bool := match l with [] => true | _ => false end.

Definition s_subscribe : str := [115;117;98;115;99;114;105;98;101]%N.  (* "subscribe" *)
Definition s_publish : str := [112;117;98;108;105;115;104]%N.          (* "publish" *)

(* ------------------------------------------------------------------ auth data *)
Record authorization := mkAuthz { az_topic : str; az_channels : list str; az_perms : list str }.
(* auth.State: the grants and the expiry instant (milliseconds on the model clock) *)
Record auth_state := mkAS { as_auths : list authorization; as_expires : Z }.
(* one HTTP exchange with an auth server: transport/status/JSON failure, or a document
   {ttl, authorizations} *)
Inductive answer := AError | AState (ttl : Z) (auths : list authorization).
Definition oracle := list answer.
(* an exhausted stream keeps failing *)
Definition next_answer (o : oracle) : answer * oracle :=
  match o with [] => (AError, []) | a :: r => (a, r) end.

(* ------------------------------------------------------------------ configuration *)
Inductive tls_req := TlsNotRequired | TlsRequiredExceptHTTP | TlsRequired.
Definition tls_req_eqb (a b : tls_req) : bool :=
  match a, b with
  | TlsNotRequired, TlsNotRequired | TlsRequiredExceptHTTP, TlsRequiredExceptHTTP | TlsRequired, TlsRequired => true
  | _, _ => false
  end.
(* --tls-client-auth-policy: "" / "require" / "require-verify" *)
Inductive cert_policy := PolNone | PolRequire | PolRequireVerify.
Record config := mkCfg {
  c_tls_required : tls_req;
  c_tls_config : bool;          (* nsqd.tlsConfig != nil  (a certificate and key are configured) *)
  c_policy : cert_policy;
  c_authd : nat                 (* len(AuthHTTPAddresses); IsAuthEnabled = (this <> 0) *)
}.
Definition auth_enabled (cfg : config) : bool := negb (Nat.eqb (c_authd cfg) 0).

(* nsqd.New: a client-certificate policy forces TLS to be required; requiring TLS without
   a certificate refuses to start *)
Definition startup (raw : config) : option config :=
  let req := match c_policy raw, c_tls_required raw with
             | PolNone, r => r
             | _, TlsNotRequired => TlsRequired
             | _, r => r
             end in
  if negb (c_tls_config raw) && negb (tls_req_eqb req TlsNotRequired) then None
  else Some (mkCfg req (c_tls_config raw) (c_policy raw) (c_authd raw)).

(* ------------------------------------------------------------------ HTTP side *)
(* httpServer.ServeHTTP: refuse with 403 when  !tlsEnabled && tlsRequired *)
Definition http_refuses (tls_enabled tls_required : bool) : bool := negb tls_enabled && tls_required.
(* NSQD.Main: newHTTPServer(n, false, TLSRequired == TLSRequired) on the plaintext listener,
   newHTTPServer(n, true, true) on the TLS listener *)
Definition plain_wiring (cfg : config) : bool * bool := (false, tls_req_eqb (c_tls_required cfg) TlsRequired).
Definition https_wiring (cfg : config) : bool * bool := (true, true).
Definition http_plain_refused (cfg : config) : bool := let (e, r) := plain_wiring cfg in http_refuses e r.
Definition https_refused (cfg : config) : bool := let (e, r) := https_wiring cfg in http_refuses e r.

(* ------------------------------------------------------------------ connection *)
Inductive cstate := StInit | StSubscribed | StClosing.
Definition cstate_eqb (a b : cstate) : bool :=
  match a, b with StInit, StInit | StSubscribed, StSubscribed | StClosing, StClosing => true | _, _ => false end.

(* the certificate a TLS client presents: none / a self-signed one / one signed by the
   configured CA *)
Inductive ccert := CertNone | CertSelfSigned | CertCA.
Definition ccert_eqb (a b : ccert) : bool :=
  match a, b with CertNone, CertNone | CertSelfSigned, CertSelfSigned | CertCA, CertCA => true | _, _ => false end.

Record conn := mkConn {
  k_state : cstate;
  k_tls : bool;                      (* clientV2.TLS: set only by UpgradeTLS *)
  k_auth : option auth_state;        (* clientV2.AuthState *)
  k_secret : str;                    (* clientV2.AuthSecret *)
  k_hb_off : bool;                   (* HeartbeatInterval <= 0 *)
  k_peer : ccert                     (* tlsConn.ConnectionState().PeerCertificates[0], if any *)
}.
Definition conn_init : conn := mkConn StInit false None [] false CertNone.
Definition set_state (k : conn) (s : cstate) := mkConn s (k_tls k) (k_auth k) (k_secret k) (k_hb_off k) (k_peer k).
Definition set_tls (k : conn) (peer : ccert) := mkConn (k_state k) true (k_auth k) (k_secret k) (k_hb_off k) peer.
Definition set_auth (k : conn) (a : option auth_state) := mkConn (k_state k) (k_tls k) a (k_secret k) (k_hb_off k) (k_peer k).
Definition set_secret (k : conn) (s : str) := mkConn (k_state k) (k_tls k) (k_auth k) s (k_hb_off k) (k_peer k).
Definition set_hb_off (k : conn) (b : bool) := mkConn (k_state k) (k_tls k) (k_auth k) (k_secret k) b (k_peer k).

(* ------------------------------------------------------------------ commands *)
(* what the TLS client does during the upgrade: gives up, or completes its side
   presenting a certificate (or none) *)
Inductive handshake := HsAbort | HsCert (c : ccert).
(* crypto/tls under ClientAuth = NoClientCert / RequireAnyClientCert / RequireAndVerifyClientCert *)
Definition handshake_ok (p : cert_policy) (h : handshake) : bool :=
  match h with
  | HsAbort => false
  | HsCert c => match p, c with
                | PolNone, _ => true
                | PolRequire, CertNone => false
                | PolRequire, _ => true
                | PolRequireVerify, CertCA => true
                | PolRequireVerify, _ => false
                end
  end.

(* the peer certificate the server sees after a completed handshake: under NoClientCert it
   does not ask for one *)
Definition peer_seen (p : cert_policy) (h : handshake) : ccert :=
  match p, h with
  | PolNone, _ => CertNone
  | _, HsCert c => c
  | _, HsAbort => CertNone
  end.

Inductive hb_req := HbKeep | HbOff | HbOn.    (* heartbeat_interval 0 / -1 / a valid value *)
Inductive ident :=
| IdBad                                       (* unreadable size/body, bad JSON, a rejected field *)
| IdGood (negotiate tls_v1 snappy deflate : bool) (hb : hb_req) (hs : handshake).

Inductive mpub_body := MpBadBody | MpBadMessage | MpOk (count : N).

Inductive cmd :=
| CIdentify (b : ident)
| CAuth (one_param : bool) (body : option str)     (* None: unreadable / non-positive / oversized body *)
| CSub (args : list str)                           (* the parameters after the command word *)
| CPub (args : list str) (body_ok : bool)
| CMpub (args : list str) (body : mpub_body)
| CDpub (args : list str) (delay_ok body_ok : bool)
| CRdy (count_ok : bool)
| CFin (wellformed hit : bool)
| CReq (wellformed hit : bool)
| CTouch (wellformed hit : bool)
| CCls
| CNop
| COther.                                          (* any other command word *)

Definition is_identify (c : cmd) : bool := match c with CIdentify _ => true | _ => false end.

(* ------------------------------------------------------------------ answers and effects *)
Inductive ecode :=
| E_INVALID | E_BAD_BODY | E_BAD_TOPIC | E_BAD_CHANNEL | E_BAD_MESSAGE | E_IDENTIFY_FAILED
| E_AUTH_DISABLED | E_AUTH_FAILED | E_UNAUTHORIZED | E_AUTH_FIRST
| E_FIN_FAILED | E_REQ_FAILED | E_TOUCH_FAILED | E_OTHER.
Definition ecode_eqb (a b : ecode) : bool :=
  match a, b with
  | E_INVALID, E_INVALID | E_BAD_BODY, E_BAD_BODY | E_BAD_TOPIC, E_BAD_TOPIC | E_BAD_CHANNEL, E_BAD_CHANNEL
  | E_BAD_MESSAGE, E_BAD_MESSAGE | E_IDENTIFY_FAILED, E_IDENTIFY_FAILED | E_AUTH_DISABLED, E_AUTH_DISABLED
  | E_AUTH_FAILED, E_AUTH_FAILED | E_UNAUTHORIZED, E_UNAUTHORIZED | E_AUTH_FIRST, E_AUTH_FIRST
  | E_FIN_FAILED, E_FIN_FAILED | E_REQ_FAILED, E_REQ_FAILED | E_TOUCH_FAILED, E_TOUCH_FAILED | E_OTHER, E_OTHER => true
  | _, _ => false
  end.
Definition is_denial (c : ecode) : bool :=
  match c with E_AUTH_FIRST | E_AUTH_FAILED | E_UNAUTHORIZED => true | _ => false end.

Inductive resp :=
| ROk | RCloseWait
| RIdent (tls_v1 auth_required : bool)        (* the feature-negotiation JSON *)
| RAuthOk (permission_count : N)              (* the AUTH JSON *)
| RErr (c : ecode) (fatal : bool).            (* fatal: protocol.FatalClientErr, the IOLoop closes *)

Inductive effect :=
| FxGetTopic (t : str)               (* nsqd.GetTopic: the topic exists afterwards *)
| FxGetChannel (t c : str)           (* topic.GetChannel: the channel exists afterwards *)
| FxPut (t : str) (n : N)            (* n messages enqueued on the topic *)
| FxAddClient (t c : str)            (* the connection consumes from the channel *)
| FxAuthQuery (secret : str) (tls : bool) (peer : ccert)
                                     (* one HTTP query to an auth server: secret, tls=, common_name= of [peer] *)
| FxUpgradeTLS.                      (* completed server-side handshake *)

Definition is_world (f : effect) : bool :=
  match f with FxAuthQuery _ _ _ | FxUpgradeTLS => false | _ => true end.

Record result := mkRes { r_conn : conn; r_oracle : oracle; r_resps : list resp; r_fx : list effect }.
Definition fail (k : conn) (o : oracle) (c : ecode) : result := mkRes k o [RErr c true] [].
Definition closes (rs : list resp) : bool :=
  existsb (fun r => match r with RErr _ true => true | _ => false end) rs.

(* ------------------------------------------------------------------ the daemon's visible state *)
(* topics with their message_count, channels with their client_count (what /stats shows) *)
Record world := mkW { w_topics : list (str * N); w_chans : list (str * str * N) }.
Definition world_empty : world := mkW [] [].

Fixpoint topic_touch (t : str) (n : N) (l : list (str * N)) : list (str * N) :=
  match l with
  | [] => [(t, n)]
  | (t', m) :: r => if str_eqb t' t then (t', (m + n)%N) :: r else (t', m) :: topic_touch t n r
  end.
Fixpoint chan_touch (t c : str) (n : N) (l : list (str * str * N)) : list (str * str * N) :=
  match l with
  | [] => [(t, c, n)]
  | (t', c', m) :: r =>
      if str_eqb t' t && str_eqb c' c then (t', c', (m + n)%N) :: r else (t', c', m) :: chan_touch t c n r
  end.
Definition apply_fx (w : world) (f : effect) : world :=
  match f with
  | FxGetTopic t => mkW (topic_touch t 0 (w_topics w)) (w_chans w)
  | FxPut t n => mkW (topic_touch t n (w_topics w)) (w_chans w)
  | FxGetChannel t c => mkW (w_topics w) (chan_touch t c 0 (w_chans w))
  | FxAddClient t c => mkW (w_topics w) (chan_touch t c 1 (w_chans w))
  | _ => w
  end.
Definition apply_fxs (w : world) (fx : list effect) : world := fold_left apply_fx fx w.
(* every connection closed: no channel has a client *)
Definition drop_clients (w : world) : world :=
  mkW (w_topics w) (map (fun x => match x with (t, c, _) => (t, c, 0%N) end) (w_chans w)).

Section Gate.
(* regexp.MustCompile(pattern).MatchString(s) and "regexp.Compile(pattern) succeeds" *)
Variable re_match : str -> str -> bool.
Variable re_ok : str -> bool.

(* ------------------------------------------------------------------ grants *)
Definition has_permission (a : authorization) (p : str) : bool := existsb (str_eqb p) (az_perms a).

(* Authorization.IsAllowed: a non-empty channel asks for "subscribe", the empty channel
   (publishing) for "publish"; then the topic pattern, then ANY channel pattern, the
   channel patterns being matched against the empty string for a publish *)
Definition authz_is_allowed (a : authorization) (topic channel : str) : bool :=
  (if is_nil channel then has_permission a s_publish else has_permission a s_subscribe)
  && re_match (az_topic a) topic
  && existsb (fun c => re_match c channel) (az_channels a).

Definition state_is_allowed (s : auth_state) (topic channel : str) : bool :=
  existsb (fun a => authz_is_allowed a topic channel) (as_auths s).

(* State.IsExpired: Expires.Before(now) *)
Definition is_expired (s : auth_state) (now : Z) : bool := (as_expires s <? now)%Z.

(* QueryAuthd's validation of a decoded document *)
Definition perm_known (p : str) : bool := str_eqb p s_subscribe || str_eqb p s_publish.
Definition authz_valid (a : authorization) : bool :=
  forallb perm_known (az_perms a) && re_ok (az_topic a) && forallb re_ok (az_channels a).
Definition query_one (now : Z) (a : answer) : option auth_state :=
  match a with
  | AError => None
  | AState ttl auths =>
      if forallb authz_valid auths && (0 <? ttl)%Z then Some (mkAS auths (now + ttl * 1000)%Z) else None
  end.

(* QueryAnyAuthd over n addresses: first success wins, n failures fail.  Returns the
   state, the rest of the stream and the number of HTTP queries made. *)
Fixpoint query_any (n : nat) (now : Z) (o : oracle) : option auth_state * oracle * nat :=
  match n with
  | O => (None, o, O)
  | S m =>
      let (a, o') := next_answer o in
      match query_one now a with
      | Some s => (Some s, o', 1%nat)
      | None => let '(r, o'', q) := query_any m now o' in (r, o'', S q)
      end
  end.

Definition queries (k : conn) (q : nat) : list effect := repeat (FxAuthQuery (k_secret k) (k_tls k) (k_peer k)) q.

(* clientV2.HasAuthorizations *)
Definition has_authorizations (k : conn) : bool :=
  match k_auth k with Some a => negb (is_nil (as_auths a)) | None => false end.

(* protocolV2.CheckAuth + clientV2.IsAuthorized.  None = allowed. *)
Definition check_auth (cfg : config) (now : Z) (k : conn) (o : oracle) (topic channel : str)
  : conn * oracle * list effect * option ecode :=
  if negb (auth_enabled cfg) then (k, o, [], None)
  else if negb (has_authorizations k) then (k, o, [], Some E_AUTH_FIRST)
  else match k_auth k with
       | None => (k, o, [], Some E_UNAUTHORIZED)
       | Some a =>
           if is_expired a now then
             let '(r, o', q) := query_any (c_authd cfg) now o in
             match r with
             | None => (k, o', queries k q, Some E_AUTH_FAILED)
             | Some a' =>
                 (set_auth k (Some a'), o', queries k q,
                  if state_is_allowed a' topic channel then None else Some E_UNAUTHORIZED)
             end
           else (k, o, [], if state_is_allowed a topic channel then None else Some E_UNAUTHORIZED)
       end.

(* ------------------------------------------------------------------ handlers *)
Definition do_identify (cfg : config) (k : conn) (o : oracle) (b : ident) : result :=
  if negb (cstate_eqb (k_state k) StInit) then fail k o E_INVALID
  else match b with
  | IdBad => fail k o E_BAD_BODY
  | IdGood negotiate tls_v1 snappy deflate hb hs =>
      let k1 := match hb with HbKeep => k | HbOff => set_hb_off k true | HbOn => set_hb_off k false end in
      if negb negotiate then mkRes k1 o [ROk] []
      else
        let tlsv1 := c_tls_config cfg && tls_v1 in
        if deflate && snappy then fail k1 o E_IDENTIFY_FAILED
        else
          let first := RIdent tlsv1 (auth_enabled cfg) in
          let codecs := (if snappy then [ROk] else []) ++ (if deflate then [ROk] else []) in
          if tlsv1 then
            if handshake_ok (c_policy cfg) hs
            then mkRes (set_tls k1 (peer_seen (c_policy cfg) hs)) o (first :: ROk :: codecs) [FxUpgradeTLS]
            else mkRes k1 o [first; RErr E_IDENTIFY_FAILED true] []
          else mkRes k1 o (first :: codecs) []
  end.

Definition do_auth (cfg : config) (now : Z) (k : conn) (o : oracle) (one_param : bool) (body : option str) : result :=
  if negb (cstate_eqb (k_state k) StInit) then fail k o E_INVALID
  else if negb one_param then fail k o E_INVALID
  else match body with
  | None => fail k o E_BAD_BODY
  | Some secret =>
      if has_authorizations k then fail k o E_INVALID
      else if negb (auth_enabled cfg) then fail k o E_AUTH_DISABLED
      else
        let k1 := set_secret k secret in
        let '(r, o', q) := query_any (c_authd cfg) now o in
        match r with
        | None => mkRes k1 o' [RErr E_AUTH_FAILED true] (queries k1 q)
        | Some a =>
            let k2 := set_auth k1 (Some a) in
            if is_nil (as_auths a) then mkRes k2 o' [RErr E_UNAUTHORIZED true] (queries k1 q)
            else mkRes k2 o' [RAuthOk (N.of_nat (length (as_auths a)))] (queries k1 q)
        end
  end.

Definition do_sub (cfg : config) (now : Z) (k : conn) (o : oracle) (args : list str) : result :=
  if negb (cstate_eqb (k_state k) StInit) then fail k o E_INVALID
  else if k_hb_off k then fail k o E_INVALID
  else match args with
  | t :: c :: _ =>
      if negb (is_valid_name t) then fail k o E_BAD_TOPIC
      else if negb (is_valid_name c) then fail k o E_BAD_CHANNEL
      else
        let '(k1, o1, fx, verdict) := check_auth cfg now k o t c in
        match verdict with
        | Some e => mkRes k1 o1 [RErr e true] fx
        | None => mkRes (set_state k1 StSubscribed) o1 [ROk]
                        (fx ++ [FxGetTopic t; FxGetChannel t c; FxAddClient t c])
        end
  | _ => fail k o E_INVALID
  end.

Definition do_pub (cfg : config) (now : Z) (k : conn) (o : oracle) (args : list str) (body_ok : bool) : result :=
  match args with
  | t :: _ =>
      if negb (is_valid_name t) then fail k o E_BAD_TOPIC
      else if negb body_ok then fail k o E_BAD_MESSAGE
      else
        let '(k1, o1, fx, verdict) := check_auth cfg now k o t [] in
        match verdict with
        | Some e => mkRes k1 o1 [RErr e true] fx
        | None => mkRes k1 o1 [ROk] (fx ++ [FxGetTopic t; FxPut t 1])
        end
  | [] => fail k o E_INVALID
  end.

(* MPUB authorises and creates the topic BEFORE it reads the body *)
Definition do_mpub (cfg : config) (now : Z) (k : conn) (o : oracle) (args : list str) (body : mpub_body) : result :=
  match args with
  | t :: _ =>
      if negb (is_valid_name t) then fail k o E_BAD_TOPIC
      else
        let '(k1, o1, fx, verdict) := check_auth cfg now k o t [] in
        match verdict with
        | Some e => mkRes k1 o1 [RErr e true] fx
        | None =>
            match body with
            | MpBadBody => mkRes k1 o1 [RErr E_BAD_BODY true] (fx ++ [FxGetTopic t])
            | MpBadMessage => mkRes k1 o1 [RErr E_BAD_MESSAGE true] (fx ++ [FxGetTopic t])
            | MpOk n => mkRes k1 o1 [ROk] (fx ++ [FxGetTopic t; FxPut t n])
            end
        end
  | [] => fail k o E_INVALID
  end.

Definition do_dpub (cfg : config) (now : Z) (k : conn) (o : oracle) (args : list str) (delay_ok body_ok : bool) : result :=
  match args with
  | t :: _ :: _ =>
      if negb (is_valid_name t) then fail k o E_BAD_TOPIC
      else if negb delay_ok then fail k o E_INVALID
      else if negb body_ok then fail k o E_BAD_MESSAGE
      else
        let '(k1, o1, fx, verdict) := check_auth cfg now k o t [] in
        match verdict with
        | Some e => mkRes k1 o1 [RErr e true] fx
        | None => mkRes k1 o1 [ROk] (fx ++ [FxGetTopic t; FxPut t 1])
        end
  | _ => fail k o E_INVALID
  end.

Definition do_rdy (k : conn) (o : oracle) (count_ok : bool) : result :=
  match k_state k with
  | StClosing => mkRes k o [] []
  | StSubscribed => if count_ok then mkRes k o [] [] else fail k o E_INVALID
  | StInit => fail k o E_INVALID
  end.

(* FIN / REQ / TOUCH: the only non-fatal errors of the protocol *)
Definition do_msgcmd (k : conn) (o : oracle) (e : ecode) (wellformed hit : bool) : result :=
  match k_state k with
  | StInit => fail k o E_INVALID
  | _ => if negb wellformed then fail k o E_INVALID
         else if hit then mkRes k o [] [] else mkRes k o [RErr e false] []
  end.

Definition do_cls (k : conn) (o : oracle) : result :=
  match k_state k with
  | StSubscribed => mkRes (set_state k StClosing) o [RCloseWait] []
  | _ => fail k o E_INVALID
  end.

(* enforceTLSPolicy *)
Definition gate_blocks (cfg : config) (k : conn) : bool :=
  negb (tls_req_eqb (c_tls_required cfg) TlsNotRequired) && negb (k_tls k).

(* protocolV2.Exec: IDENTIFY first, then the TLS gate, then the switch *)
Definition exec (cfg : config) (now : Z) (k : conn) (o : oracle) (c : cmd) : result :=
  match c with
  | CIdentify b => do_identify cfg k o b
  | _ =>
    if gate_blocks cfg k then fail k o E_INVALID
    else match c with
    | CIdentify b => do_identify cfg k o b
    | CAuth one body => do_auth cfg now k o one body
    | CSub args => do_sub cfg now k o args
    | CPub args body_ok => do_pub cfg now k o args body_ok
    | CMpub args body => do_mpub cfg now k o args body
    | CDpub args delay_ok body_ok => do_dpub cfg now k o args delay_ok body_ok
    | CRdy ok => do_rdy k o ok
    | CFin w h => do_msgcmd k o E_FIN_FAILED w h
    | CReq w h => do_msgcmd k o E_REQ_FAILED w h
    | CTouch w h => do_msgcmd k o E_TOUCH_FAILED w h
    | CCls => do_cls k o
    | CNop => mkRes k o [] []
    | COther => fail k o E_INVALID
    end
  end.

(* ------------------------------------------------------------------ runs *)
(* one executed command with everything the theorems speak about *)
Record entry := mkEntry {
  e_now : Z; e_cmd : cmd; e_pre : conn; e_oracle : oracle;   (* before the command *)
  e_res : result                                              (* what it did *)
}.
Definition e_resps (e : entry) := r_resps (e_res e).
Definition e_fx (e : entry) := r_fx (e_res e).

(* IOLoop: commands are executed in order until a fatal error closes the connection *)
Fixpoint run (cfg : config) (k : conn) (o : oracle) (cmds : list (Z * cmd)) : list entry * conn * oracle :=
  match cmds with
  | [] => ([], k, o)
  | (now, c) :: rest =>
      let r := exec cfg now k o c in
      let e := mkEntry now c k o r in
      if closes (r_resps r) then ([e], r_conn r, r_oracle r)
      else let '(es, k', o') := run cfg (r_conn r) (r_oracle r) rest in (e :: es, k', o')
  end.

(* ------------------------------------------------------------------ notions used by the theorems *)
(* the permission a command asks for: (topic, channel), channel "" for the publishes *)
Definition demand (c : cmd) : option (str * str) :=
  match c with
  | CSub (t :: ch :: _) => Some (t, ch)
  | CPub (t :: _) _ | CMpub (t :: _) _ => Some (t, [])
  | CDpub (t :: _ :: _) _ _ => Some (t, [])
  | _ => None
  end.

(* a world effect concerns exactly the demanded topic/channel *)
Definition fx_within (t ch : str) (f : effect) : bool :=
  match f with
  | FxGetTopic t' => str_eqb t' t
  | FxPut t' _ => str_eqb t' t && is_nil ch
  | FxGetChannel t' c' | FxAddClient t' c' => str_eqb t' t && str_eqb c' ch
  | _ => true
  end.

(* the answer of the auth server that decides a command executed at [now] in connection
   state [k] with the oracle at [o]: the cached one while it has not expired, otherwise the
   one fetched by the re-query this command triggers *)
Definition in_force (cfg : config) (now : Z) (k : conn) (o : oracle) : option auth_state :=
  match k_auth k with
  | None => None
  | Some a => if is_expired a now then fst (fst (query_any (c_authd cfg) now o)) else Some a
  end.
Definition answer_in_force (cfg : config) (e : entry) : option auth_state :=
  in_force cfg (e_now e) (e_pre e) (e_oracle e).

(* the command is an AUTH that was answered with the success document *)
Definition auth_succeeded (e : entry) : bool :=
  match e_cmd e, e_resps e with
  | CAuth _ _, [RAuthOk _] => true
  | _, _ => false
  end.

(* the command is an IDENTIFY during which the server completed a TLS handshake *)
Definition upgraded (e : entry) : bool := existsb (fun f => match f with FxUpgradeTLS => true | _ => false end) (e_fx e).
(* ... which needs all of: IDENTIFY, feature negotiation with tls_v1, a TLS configuration,
   a handshake the certificate policy accepts *)
Definition may_upgrade (cfg : config) (e : entry) : bool :=
  match e_cmd e with
  | CIdentify (IdGood true true _ _ _ hs) => c_tls_config cfg && handshake_ok (c_policy cfg) hs
  | _ => false
  end.

(* the command queried the auth server (AUTH, or a re-query on expiry) and this is what
   the query returned *)
Definition queried (e : entry) : bool :=
  existsb (fun f => match f with FxAuthQuery _ _ _ => true | _ => false end) (e_fx e).
Definition fetched (cfg : config) (e : entry) : option auth_state :=
  if queried e then fst (fst (query_any (c_authd cfg) (e_now e) (e_oracle e))) else None.

(* ------------------------------------------------------------------ the decision table *)
(* what the auth gate decides for permission (t, ch), stated without reference to CheckAuth's
   control flow: None = allowed *)
Definition decision (cfg : config) (now : Z) (k : conn) (o : oracle) (t ch : str) : option ecode :=
  if negb (auth_enabled cfg) then None
  else if negb (has_authorizations k) then Some E_AUTH_FIRST
  else match in_force cfg now k o with
       | None => Some E_AUTH_FAILED
       | Some a => if state_is_allowed a t ch then None else Some E_UNAUTHORIZED
       end.

(* the checks a PUB/MPUB/DPUB/SUB makes before it reaches the auth gate *)
Definition presyntax_ok (k : conn) (c : cmd) : bool :=
  match c with
  | CSub (t :: ch :: _) => cstate_eqb (k_state k) StInit && negb (k_hb_off k) && is_valid_name t && is_valid_name ch
  | CPub (t :: _) true => is_valid_name t
  | CMpub (t :: _) _ => is_valid_name t
  | CDpub (t :: _ :: _) true true => is_valid_name t
  | _ => false
  end.

(* what the command answers and does once the auth gate lets it through *)
Definition granted_resps (c : cmd) : list resp :=
  match c with
  | CMpub _ MpBadBody => [RErr E_BAD_BODY true]
  | CMpub _ MpBadMessage => [RErr E_BAD_MESSAGE true]
  | _ => [ROk]
  end.
Definition granted_world (c : cmd) : list effect :=
  match c with
  | CSub (t :: ch :: _) => [FxGetTopic t; FxGetChannel t ch; FxAddClient t ch]
  | CPub (t :: _) _ | CDpub (t :: _) _ _ => [FxGetTopic t; FxPut t 1]
  | CMpub (t :: _) (MpOk n) => [FxGetTopic t; FxPut t n]
  | CMpub (t :: _) _ => [FxGetTopic t]
  | _ => []
  end.

Definition has_denial (rs : list resp) : bool :=
  existsb (fun r => match r with RErr c _ => is_denial c | _ => false end) rs.

End Gate.

(* ------------------------------------------------------------------ the order of events the
   handlers above implement, to be compared with the summaries regenerated from the source *)
From NSQV Require Import model.GateSyn.
Definition model_order_SUB : list gevent := [GvValidTopic; GvValidChannel; GvCheckAuth; GvGetTopic; GvGetChannel; GvAddClient].
Definition model_order_PUB : list gevent := [GvValidTopic; GvReadLen; GvReadBody; GvCheckAuth; GvGetTopic; GvPut].
Definition model_order_DPUB : list gevent := [GvValidTopic; GvReadLen; GvReadBody; GvCheckAuth; GvGetTopic; GvPut].
Definition model_order_MPUB : list gevent := [GvValidTopic; GvCheckAuth; GvGetTopic; GvReadLen; GvReadBody; GvPut].
