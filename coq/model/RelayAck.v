(* C20, second half: the acknowledgement decisions of nsq_to_nsq and nsq_to_http, composed
   with a destination oracle and a source channel that redelivers requeued messages.

   nsq_to_nsq (apps/nsq_to_nsq/nsq_to_nsq.go)
     PublishHandler.HandleMessage: with --require-json-field / --whitelist-json-field the
       body goes through the JSON filter (undecodable or not passing => return nil => the
       client library finishes the message; missing field with a required value => error
       "backoff" => requeue; otherwise the filtered body is published); without those flags
       the body is published unchanged.  PublishAsync to one destination (round-robin counter
       or hostpool choice); an immediate error is returned (=> requeue by the client library),
       otherwise auto-response is disabled and
     responder(): transaction error == nil => Finish, else Requeue(-1); hostpool marked.
   nsq_to_http (apps/nsq_to_http/nsq_to_http.go)
     PublishHandler.HandleMessage: --sample < 1 and the coin says drop => return nil (finish);
       mode all (any --mode other than round-robin/hostpool/epsilon-greedy): every address in
       order, first error returned; round-robin / hostpool: one address; error => requeue by
       the client library, nil => finish.
     PostPublisher: transport error, or status < 200 or >= 300 => error.
     GetPublisher:  transport error, or status != 200 => error.
   go-nsq's handler loop (trusted): handler error => Requeue, nil and auto-response enabled
   => Finish.  nsqd (property C01, assumed here): a requeued message is delivered again.
   No proofs here. *)
From Coq Require Import List NArith Bool Arith.
From NSQV Require Import model.Judge.
Import ListNotations.
Open Scope bool_scope.

Inductive tool := ToNsq | HttpPost | HttpGet.
Inductive rmode := MAll | MRoundRobin | MHostPool.

(* what a destination does with one publish / request *)
Inductive answer :=
| AOk                      (* nsqd: OK frame *)
| AErr                     (* nsqd: E_PUB_FAILED ... *)
| AClose                   (* connection closed without an answer *)
| ARefused                 (* could not connect / immediate PublishAsync error *)
| AStatus (code : N).      (* HTTP status *)

Definition accepted (t : tool) (a : answer) : bool :=
  match t, a with
  | ToNsq, AOk => true
  | HttpPost, AStatus c => N.leb 200 c && N.ltb c 300
  | HttpGet, AStatus c => N.eqb c 200
  | _, _ => false
  end.

Inductive fres := FPass (b : bytes) | FDrop | FBackoff.

Record rcfg := mkRcfg {
  tool_ : tool;
  mode_ : rmode;
  ndest : nat;
  filter : option (bytes -> fres);     (* Some: a --require-json-field / --whitelist-json-field flag is set *)
  sampling : bool;                     (* nsq_to_http --sample < 1 *)
  max_attempts : nat                   (* go-nsq Config.MaxAttempts (default 5, 0 = unlimited): the client
                                          library finishes a message whose attempts exceed it WITHOUT
                                          calling the handler (Consumer.shouldFailMessage) *)
}.

Record env := mkEnv {
  oracle : nat -> answer;              (* answer to the k-th request overall *)
  pick : nat -> nat;                   (* hostpool's choice for the d-th delivery *)
  coin : nat -> bool                   (* sampling: drop the d-th delivery? *)
}.

Definition rmsg : Type := N * bytes.   (* id, body *)

Inductive ev :=
| EPub (dest : nat) (body : bytes) (a : answer)
| EFin (m : rmsg)
| EReq (m : rmsg)
| EGiveUp (m : rmsg).                  (* finished by the client library: attempts > max_attempts *)

(* requests of one delivery: destinations in order, stop at the first one that does not accept *)
Fixpoint pub_seq (t : tool) (e : env) (body : bytes) (dests : list nat) (k : nat) : list ev * bool * nat :=
  match dests with
  | [] => ([], true, k)
  | d :: r =>
      let a := oracle e k in
      if accepted t a then
        let '(evs, ok, k') := pub_seq t e body r (S k) in (EPub d body a :: evs, ok, k')
      else ([EPub d body a], false, S k)
  end.

Definition effective_mode (c : rcfg) : rmode :=
  match tool_ c, mode_ c with
  | ToNsq, MAll => MRoundRobin          (* nsq_to_nsq: selectedMode stays 0 = ModeRoundRobin *)
  | _, m => m
  end.

Definition targets (c : rcfg) (e : env) (rr d : nat) : list nat :=
  match effective_mode c with
  | MAll => seq 0 (ndest c)
  | MRoundRobin => [Nat.modulo (S rr) (ndest c)]
  | MHostPool => [Nat.modulo (pick e d) (ndest c)]
  end.

(* one delivery of [m]: events, finished?, next request index.  (The round-robin counter
   is advanced once per delivery here; the Go code advances it once per delivery that
   reaches the publish step, which only renames destinations.) *)
Definition handle (c : rcfg) (e : env) (m : rmsg) (k rr d : nat) : list ev * bool * nat :=
  if sampling c && coin e d then ([], true, k)
  else
    let body :=
      match filter c with
      | None => FPass (snd m)
      | Some f => f (snd m)
      end in
    match body with
    | FDrop => ([], true, k)
    | FBackoff => ([], false, k)
    | FPass b => pub_seq (tool_ c) e b (targets c e rr d) k
    end.

Record rstate := mkR {
  queue : list (rmsg * nat);           (* what the source channel still owes, in delivery order, with
                                          the attempts count of the next delivery *)
  reqs : nat;                          (* requests made so far *)
  rrc : nat;                           (* round-robin counter *)
  dels : nat;                          (* deliveries so far *)
  rtr : list ev                        (* trace, oldest first *)
}.

Definition rinit (msgs : list rmsg) : rstate := mkR (map (fun m => (m, 1%nat)) msgs) 0 0 0 [].

Definition gives_up (c : rcfg) (attempts : nat) : bool :=
  Nat.ltb 0 (max_attempts c) && Nat.ltb (max_attempts c) attempts.

Definition rstep (c : rcfg) (e : env) (s : rstate) : rstate :=
  match queue s with
  | [] => s
  | (m, a) :: q =>
      if gives_up c a then mkR q (reqs s) (rrc s) (dels s) (rtr s ++ [EGiveUp m])
      else
      let '(evs, fin, k') := handle c e m (reqs s) (rrc s) (dels s) in
      mkR (if fin then q else q ++ [(m, S a)]) k' (S (rrc s)) (S (dels s))
          (rtr s ++ evs ++ [if fin then EFin m else EReq m])
  end.

Fixpoint relay (fuel : nat) (c : rcfg) (e : env) (s : rstate) : rstate :=
  match fuel with
  | O => s
  | S f => relay f c e (rstep c e s)
  end.

(* The property as a decidable predicate over a trace: [cur] = the requests since the
   last acknowledgement.  [allow] = tolerate give-ups (the region of the known finding).
   Without filter and sampling:
     Finish m  only after at least one request, all of them carrying exactly m's body and
               all accepted (mode all: one per destination);
     Requeue m only with a last request carrying m's body that was not accepted. *)
Definition pub_ok (t : tool) (body : bytes) (x : ev) : bool :=
  match x with EPub _ b a => bytes_eqb b body && accepted t a | _ => false end.
Definition pub_bad (t : tool) (body : bytes) (x : ev) : bool :=
  match x with EPub _ b a => bytes_eqb b body && negb (accepted t a) | _ => false end.

Definition plain (c : rcfg) : bool :=
  match filter c with None => negb (sampling c) | Some _ => false end.

Fixpoint ack_gen (allow : bool) (c : rcfg) (cur : list ev) (tr : list ev) : bool :=
  match tr with
  | [] => true
  | EGiveUp m :: r => (allow || negb (plain c)) && ack_gen allow c [] r
  | EPub d b a :: r => ack_gen allow c (cur ++ [EPub d b a]) r
  | EFin m :: r =>
      (if plain c then
         negb (Nat.eqb (length cur) 0) && forallb (pub_ok (tool_ c) (snd m)) cur &&
         (match effective_mode c with MAll => Nat.eqb (length cur) (ndest c) | _ => true end)
       else true) && ack_gen allow c [] r
  | EReq m :: r =>
      (if plain c then
         match rev cur with x :: _ => pub_bad (tool_ c) (snd m) x | [] => false end
       else true) && ack_gen allow c [] r
  end.

Definition ack_ok := ack_gen false.            (* the full property *)
Definition ack_ok_outside := ack_gen true.     (* the property outside the give-up region *)
