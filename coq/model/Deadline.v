(* Deadline bookkeeping of nsqd/channel.go (C04), the negotiated msg_timeout range of
   nsqd/client_v2.go SetMsgTimeout, strconv.ParseInt(s, 10, 64) as used for the HTTP
   `defer` parameter, and the coarse-grained channel machine that ties the deadlines to
   the two heaps of model/Heap.v.

   Time is a Z count of nanoseconds.  Go computes `newTimeout.Sub(deliveryTS)` on the
   monotonic clock and `UnixNano()` on the wall clock; the model has one clock (no wall
   clock steps).  Durations here never overflow int64 (|t| < 2^62 is the theorems'
   hypothesis where it matters).  Each mutex-protected section pair
   (map insert ; heap push) is one step: the model is sequential.
   No proofs here. *)
From Coq Require Import List ZArith Bool Arith.
From NSQV Require Import model.Judge model.Num model.Heap.
Import ListNotations.
Open Scope Z_scope.

(* ------------------------------------------------------------------ deadlines *)
(* StartInFlightTimeout: deliveryTS = now; pri = now.Add(timeout).UnixNano()
   StartDeferredTimeout: absTs = time.Now().Add(timeout).UnixNano()            *)
Definition start_deadline (now timeout : Z) : Z := now + timeout.

(* TouchMessage:
     newTimeout := time.Now().Add(clientMsgTimeout)
     if newTimeout.Sub(msg.deliveryTS) >= MaxMsgTimeout { newTimeout = msg.deliveryTS.Add(MaxMsgTimeout) }
     msg.pri = newTimeout.UnixNano()                                            *)
Definition touch_deadline (now msg_timeout delivery max_msg : Z) : Z :=
  let nt := now + msg_timeout in
  if (nt - delivery >=? max_msg) then delivery + max_msg else nt.

(* clientV2.SetMsgTimeout(msgTimeout int), result = the client's MsgTimeout afterwards:
     case msgTimeout == 0: keep the default
     case msgTimeout >= 1000 && msgTimeout <= int(MaxMsgTimeout/time.Millisecond): set
     default: error
   Go's integer division truncates toward zero: Z.quot. *)
Definition set_msg_timeout (max_msg cur v : Z) : option Z :=
  if v =? 0 then Some cur
  else if (1000 <=? v) && (v <=? Z.quot max_msg 1000000) then Some (v * 1000000)
  else None.

(* ------------------------------------------------------------------ strconv.ParseInt(s, 10, 64) *)
(* "" -> syntax error; one optional leading '+' / '-'; then one or more decimal digits
   (base 10 given explicitly: no underscores, no prefixes); range error when the value
   does not fit in int64.  None = any error. *)
Definition parse_int64 (s : bytes) : option Z :=
  match s with
  | [] => None
  | c :: r =>
      let '(neg, body) :=
        if N.eqb c 43 then (false, r) else if N.eqb c 45 then (true, r) else (false, s) in
      match body with
      | [] => None
      | _ =>
          if all_digits body then
            let v := Z.of_N (dec_value body) in
            if neg then (if v <=? 9223372036854775808 then Some (- v) else None)
            else (if v <? 9223372036854775808 then Some v else None)
          else None
      end
  end.

(* the whole decision of doPUB for a given raw `defer` value *)
Definition http_defer_raw (max_req : Z) (s : bytes) : dpub_res :=
  http_defer max_req (parse_int64 s).

(* ------------------------------------------------------------------ the channel machine *)
(* An in-flight message as far as the timeout code reads it; its pri and index fields
   live in the heap item whose [val] is the message id (the map and the heap point to
   the same object). *)
Record msg := mkMsg { m_id : Z; m_client : Z; m_delivery : Z }.

Record chan := mkChan {
  c_inflight : list msg;     (* inFlightMessages *)
  c_ifq : pq;                (* inFlightPQ *)
  c_deferred : list Z;       (* deferredMessages (ids) *)
  c_dfq : pq                 (* deferredPQ *)
}.

Inductive op :=
| StartInFlight (now id client timeout : Z)     (* the pump hands a message to a client *)
| Touch (now id client msg_timeout : Z)
| Finish (id client : Z)
| Requeue (now id client delay : Z)              (* delay as clamped by REQ *)
| PutDeferred (now id delay : Z)                 (* PutMessageDeferred: a DPUB / defer= publish *)
| ScanInFlight (t : Z)                           (* processInFlightQueue(t) *)
| ScanDeferred (t : Z).                          (* processDeferredQueue(t) *)

Inductive out :=
| Ok                         (* the call returned nil *)
| Err                        (* "ID not in flight" / "client does not own message" / "already ..." *)
| Ready (ids : list Z)       (* messages handed to put(): back on the channel's queue, in order *)
| Broken.                    (* a Go panic, or map and heap out of step: excluded by the theorems *)

Fixpoint find_msg (id : Z) (l : list msg) : option msg :=
  match l with
  | [] => None
  | m :: r => if m_id m =? id then Some m else find_msg id r
  end.

Fixpoint del_msg (id : Z) (l : list msg) : list msg :=
  match l with
  | [] => []
  | m :: r => if m_id m =? id then r else m :: del_msg id r
  end.

Fixpoint del_id (id : Z) (l : list Z) : list Z :=
  match l with
  | [] => []
  | x :: r => if x =? id then r else x :: del_id id r
  end.

Definition mem_id (id : Z) (l : list Z) : bool := existsb (Z.eqb id) l.

(* msg.index as stored in the object the heap slot points to *)
Definition find_item (id : Z) (l : list item) : option item :=
  find (fun x => val x =? id) l.

(* popInFlightMessage(clientID, id): map lookup, owner test, delete, and (when
   msg.index != -1) inFlightPQ.Remove(msg.index) -- one critical section.
   Returns the message, its priority and the new channel. *)
Inductive pop_res := PopErr | PopBroken | PopOk (m : msg) (c : chan).

Definition pop_inflight (c : chan) (client id : Z) : pop_res :=
  match find_msg id (c_inflight c) with
  | None => PopErr
  | Some m =>
      if negb (m_client m =? client) then PopErr
      else
        let map' := del_msg id (c_inflight c) in
        match find_item id (arr (c_ifq c)) with
        | None => PopBroken                     (* in the map but not on the heap *)
        | Some it =>
            if idx it =? -1 then PopOk m (mkChan map' (c_ifq c) (c_deferred c) (c_dfq c))
            else match if_remove (c_ifq c) (idx it) with
                 | None => PopBroken
                 | Some (_, q') => PopOk m (mkChan map' q' (c_deferred c) (c_dfq c))
                 end
        end
  end.

(* pushInFlightMessage + addToInFlightPQ *)
Definition push_inflight (c : chan) (m : msg) (p : Z) : option chan :=
  match find_msg (m_id m) (c_inflight c) with
  | Some _ => None                              (* "ID already in flight" *)
  | None =>
      match if_push (c_ifq c) p (m_id m) with
      | None => None
      | Some q' => Some (mkChan (m :: c_inflight c) q' (c_deferred c) (c_dfq c))
      end
  end.

(* StartDeferredTimeout: pushDeferredMessage + addToDeferredPQ *)
Definition start_deferred (c : chan) (now id delay : Z) : chan * out :=
  if mem_id id (c_deferred c) then (c, Err)     (* "ID already deferred" *)
  else match ch_push (c_dfq c) (start_deadline now delay) id with
       | None => (c, Broken)
       | Some q' => (mkChan (c_inflight c) (c_ifq c) (id :: c_deferred c) q', Ok)
       end.

(* processInFlightQueue(t):
     for { msg := inFlightPQ.PeekAndShift(t); if msg == nil { exit }
           if popInFlightMessage(msg.clientID, msg.ID) fails { exit }   (map delete; index is -1)
           put(msg) }                                                       *)
Fixpoint scan_inflight (fuel : nat) (mp : list msg) (q : pq) (t : Z)
  : list msg * pq * list Z :=
  match fuel with
  | O => (mp, q, [])
  | S f =>
      match if_peek q t with
      | (PeekNone _, q') => (mp, q', [])
      | (PeekSome x, q') =>
          match find_msg (val x) mp with
          | None => (mp, q', [])
          | Some _ =>
              let '(mp2, q2, ids) := scan_inflight f (del_msg (val x) mp) q' t in
              (mp2, q2, val x :: ids)
          end
      end
  end.

(* processDeferredQueue(t): the same loop with popDeferredMessage *)
Fixpoint scan_deferred (fuel : nat) (mp : list Z) (q : pq) (t : Z)
  : list Z * pq * list Z :=
  match fuel with
  | O => (mp, q, [])
  | S f =>
      match ch_peek q t with
      | (PeekNone _, q') => (mp, q', [])
      | (PeekSome x, q') =>
          if mem_id (val x) mp then
            let '(mp2, q2, ids) := scan_deferred f (del_id (val x) mp) q' t in
            (mp2, q2, val x :: ids)
          else (mp, q', [])
      end
  end.

Section Machine.
Context (max_msg : Z).

Definition step (c : chan) (o : op) : chan * out :=
  match o with
  | StartInFlight now id client timeout =>
      match push_inflight c (mkMsg id client now) (start_deadline now timeout) with
      | None => (c, Err)
      | Some c' => (c', Ok)
      end
  | Touch now id client mt =>
      match pop_inflight c client id with
      | PopErr => (c, Err)
      | PopBroken => (c, Broken)
      | PopOk m c1 =>
          match push_inflight c1 m (touch_deadline now mt (m_delivery m) max_msg) with
          | None => (c1, Broken)
          | Some c2 => (c2, Ok)
          end
      end
  | Finish id client =>
      match pop_inflight c client id with
      | PopErr => (c, Err)
      | PopBroken => (c, Broken)
      | PopOk _ c1 => (c1, Ok)
      end
  | Requeue now id client delay =>
      match pop_inflight c client id with
      | PopErr => (c, Err)
      | PopBroken => (c, Broken)
      | PopOk _ c1 =>
          if delay =? 0 then (c1, Ready [id])
          else start_deferred c1 now id delay
      end
  | PutDeferred now id delay => start_deferred c now id delay
  | ScanInFlight t =>
      let '(mp, q', ids) :=
        scan_inflight (S (length (arr (c_ifq c)))) (c_inflight c) (c_ifq c) t in
      (mkChan mp q' (c_deferred c) (c_dfq c), Ready ids)
  | ScanDeferred t =>
      let '(mp, q', ids) :=
        scan_deferred (S (length (arr (c_dfq c)))) (c_deferred c) (c_dfq c) t in
      (mkChan (c_inflight c) (c_ifq c) mp q', Ready ids)
  end.

Fixpoint run (c : chan) (ops : list op) : chan * list out :=
  match ops with
  | [] => (c, [])
  | o :: r => let '(c1, x) := step c o in let '(c2, xs) := run c1 r in (c2, x :: xs)
  end.

End Machine.

Definition empty_chan (capacity : nat) : chan :=
  mkChan [] (mkPq [] capacity) [] (mkPq [] capacity).
