(* A small regular-expression matcher used ONLY to instantiate Gate.v's Section variables
   re_match / re_ok when the correspondence judge evaluates the model on recorded cases.
   (The theorems of C11 hold for every re_match / re_ok.)

   Dialect, the one the driver generates grants in:
       ^?  ( atom | atom* )*  $?        atom = '.' (any byte) or one of [A-Za-z0-9_#-]
   with Go's unanchored search semantics (regexp.MatchString finds a match anywhere unless
   anchored).  The algorithm is Kernighan & Pike's matcher; its backtracking star explores
   every split, so it decides the existence of a match exactly for this dialect.
   Everything outside the dialect is "does not compile" for re_ok; the driver's invalid
   patterns ("(", "*a", "a**") are invalid for Go as well.  No proofs here. *)
From Coq Require Import List NArith Bool.
From NSQV Require Import model.Judge model.Names.
Import ListNotations.
Open Scope N_scope.

Definition atom_matches (c x : N) : bool := (c =? 46) || (c =? x).

Fixpoint mhere (re : list N) : list N -> bool :=
  match re with
  | [] => fun _ => true
  | c :: re1 =>
      match re1 with
      | s :: re2 =>
          if s =? 42 then
            let k := mhere re2 in
            fix star (text : list N) : bool :=
              k text || match text with [] => false | x :: t' => atom_matches c x && star t' end
          else fun text => match text with [] => false | x :: t' => atom_matches c x && mhere re1 t' end
      | [] =>
          fun text =>
            if c =? 36 then match text with [] => true | _ => false end
            else match text with [] => false | x :: t' => atom_matches c x end
      end
  end.

Fixpoint many (re text : list N) : bool :=
  mhere re text || match text with [] => false | _ :: t' => many re t' end.

Definition kp_match (re text : list N) : bool :=
  match re with
  | 94 :: re' => mhere re' text
  | _ => many re text
  end.

Definition lit_char (c : N) : bool := name_char c || (c =? 35).

Fixpoint items_ok (re : list N) (prev_atom : bool) : bool :=
  match re with
  | [] => true
  | c :: r =>
      if c =? 42 then prev_atom && items_ok r false
      else if c =? 36 then match r with [] => true | _ => false end
      else lit_char c && items_ok r true
  end.

Definition kp_ok (re : list N) : bool :=
  match re with
  | 94 :: r => items_ok r false
  | _ => items_ok re false
  end.
