(* Model of apps/to_nsq readAndPublish + its driving loop (C20, first clause).
   Bytes are N (< 256 by construction of the harness); the delimiter is one byte.

   Go (after the fix: commit "fix: to_nsq keeps the last byte ..."):
     line, readErr := r.ReadBytes(delim)      -- up to and including delim, or the
                                                 rest of the input with io.EOF
     if len(line) > 0 && line[len(line)-1] == delim { line = line[:len(line)-1] }
     if len(line) == 0 { return readErr }
     publish line to every producer
     return readErr                            -- loop stops at the first error (EOF)
   No proofs here. *)
From Coq Require Import List NArith Bool.
From NSQV Require Import model.Judge.
Import ListNotations.
Open Scope N_scope.

(* bufio.Reader.ReadBytes: (line, hit_eof, rest) *)
Fixpoint read_bytes (delim : N) (inp : bytes) : bytes * bool * bytes :=
  match inp with
  | [] => ([], true, [])
  | b :: r =>
      if N.eqb b delim then ([b], false, r)
      else let '(l, e, r') := read_bytes delim r in (b :: l, e, r')
  end.

Definition last_is (delim : N) (l : bytes) : bool :=
  match rev l with
  | x :: _ => N.eqb x delim
  | [] => false
  end.

Definition trim_delim (delim : N) (l : bytes) : bytes :=
  if last_is delim l then removelast l else l.

(* the reader loop; fuel = number of ReadBytes calls allowed.  [None] = out of fuel *)
Fixpoint to_nsq_loop (fuel : nat) (delim : N) (inp : bytes) : option (list bytes) :=
  match fuel with
  | O => None
  | S f =>
      let '(line, eof, rest) := read_bytes delim inp in
      let rec_ := trim_delim delim line in
      let out := match rec_ with [] => [] | _ => [rec_] end in
      if eof then Some out
      else match to_nsq_loop f delim rest with
           | Some more => Some (out ++ more)
           | None => None
           end
  end.

Definition to_nsq_records (delim : N) (inp : bytes) : option (list bytes) :=
  to_nsq_loop (S (length inp)) delim inp.

(* The specification, written independently of the reader: split on the delimiter,
   keep the non-empty fields. *)
Fixpoint split_on (delim : N) (inp : bytes) : list bytes :=
  match inp with
  | [] => [[]]
  | b :: r =>
      if N.eqb b delim then [] :: split_on delim r
      else match split_on delim r with
           | f :: fs => (b :: f) :: fs
           | [] => [[b]]
           end
  end.

Definition nonempty (l : bytes) : bool := match l with [] => false | _ => true end.

Definition split_nonempty (delim : N) (inp : bytes) : list bytes :=
  filter nonempty (split_on delim inp).

(* to_nsq publishes each record to every destination, in order *)
Definition published_per_dest (ndest : nat) (delim : N) (inp : bytes) : option (list (list bytes)) :=
  match to_nsq_records delim inp with
  | Some rs => Some (repeat rs ndest)
  | None => None
  end.
