(* Shared plumbing for the correspondence check: a property's [judge] maps one
   recorded implementation case to a verdict code, [failures] lists the
   indices whose verdict is not 0.
     bit 0 (1): the model's prediction differs from what the implementation did
     bit 1 (2): the property's monitor is false on the implementation's own trace
   No proofs here. *)
From Coq Require Import List NArith Bool.
Import ListNotations.
Open Scope N_scope.

Definition verdict (agree monitor : bool) : N :=
  (if agree then 0 else 1) + (if monitor then 0 else 2).

Fixpoint failures_from {A : Type} (judge : A -> N) (i : N) (l : list A) : list (N * N) :=
  match l with
  | [] => []
  | c :: r =>
      let v := judge c in
      if N.eqb v 0 then failures_from judge (N.succ i) r
      else (i, v) :: failures_from judge (N.succ i) r
  end.

Definition failures {A : Type} (judge : A -> N) (l : list A) : list (N * N) :=
  failures_from judge 0 l.

Fixpoint list_eqb {A : Type} (eqb : A -> A -> bool) (x y : list A) : bool :=
  match x, y with
  | [], [] => true
  | a :: x', b :: y' => eqb a b && list_eqb eqb x' y'
  | _, _ => false
  end.

Definition bytes := list N.
Definition bytes_eqb : bytes -> bytes -> bool := list_eqb N.eqb.
Definition bytess_eqb : list bytes -> list bytes -> bool := list_eqb bytes_eqb.
