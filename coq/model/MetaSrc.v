(* What model/Meta.v assumes about the source text, checked against gen/MetaShape.v (which
   is regenerated from the repository under test on every run).  Booleans only; no proofs. *)
From Coq Require Import List String Bool.
From NSQV Require Import gen.MetaShape.
Import ListNotations.
Local Open Scope string_scope.

Fixpoint strs_eqb (a b : list string) : bool :=
  match a, b with
  | [], [] => true
  | x :: a', y :: b' => String.eqb x y && strs_eqb a' b'
  | _, _ => false
  end.

(* DeleteExistingTopic / DeleteExistingChannel: Delete(), THEN remove from the map, THEN
   persistAfterDelete (Lock; PersistMetadata; Unlock) for non-ephemeral objects (fix d8e666b) *)
Definition pad_src : bool :=
  strs_eqb delete_topic_calls ["Delete"; "mapdelete"; "persistAfterDelete"]
  && strs_eqb delete_channel_calls ["Delete"; "mapdelete"; "persistAfterDelete"]
  && strs_eqb persist_after_delete_calls ["Lock"; "PersistMetadata"; "Unlock"]
  && String.eqb delete_topic_persist_guard "!topic.ephemeral"
  && String.eqb delete_channel_persist_guard "!channel.ephemeral && !t.ephemeral".

(* the file protocol: open(O_TRUNC) tmp ; write ; fsync (unless the write failed) ; close ; rename tmp -> nsqd.dat *)
Definition file_ops_of_source : list string :=
  flat_map (fun c => if String.eqb c "writeSyncFile" then write_sync_file_calls
                     else if String.eqb c "Rename" then ["Rename"] else [])
           persist_metadata_calls.
Definition protocol_src : bool :=
  strs_eqb file_ops_of_source ["OpenFile"; "Write"; "Sync"; "Close"; "Rename"]
  && strs_eqb write_sync_file_open_flags ["os.O_WRONLY"; "os.O_CREATE"; "os.O_TRUNC"]
  && String.eqb write_sync_file_sync_guard "err == nil"
  && String.eqb persist_metadata_write_target "tmpFileName"
  && strs_eqb persist_metadata_rename_args ["tmpFileName"; "fileName"]
  && String.eqb persist_metadata_get_metadata_arg "false"
  && String.eqb persist_metadata_tmp_format "%s.%d.tmp".

(* pause/unpause: flip, then Lock; PersistMetadata; Unlock, then answer *)
Definition pause_src : bool :=
  strs_eqb pause_topic_calls ["UnPause"; "Pause"; "Lock"; "PersistMetadata"; "Unlock"]
  && strs_eqb pause_channel_calls ["UnPause"; "Pause"; "Lock"; "PersistMetadata"; "Unlock"].

(* Notify: hand over to notifyChan, then persist under the lock unless loading / not asked;
   creations and deletions of non-ephemeral objects ask for the persist *)
Definition notify_src : bool :=
  strs_eqb notify_calls ["Wrap"; "send:notifyChan"; "Lock"; "PersistMetadata"; "Unlock"]
  && String.eqb notify_skip_persist_when "loading || !persist"
  && strs_eqb notify_persist_args ["!t.ephemeral"; "!c.ephemeral"; "!t.ephemeral"; "!c.ephemeral"]
  && strs_eqb get_topic_calls ["RLock"; "RUnlock"; "Lock"; "Unlock"; "NewTopic"; "Unlock"]
  && strs_eqb get_or_create_channel_calls ["NewChannel"].

(* GetMetadata(false) drops ephemeral topics and channels; each topic is read under its own lock *)
Definition snapshot_src : bool :=
  get_metadata_skips_ephemeral_topics && get_metadata_skips_ephemeral_channels
  && strs_eqb get_metadata_calls ["IsPaused"; "Lock"; "IsPaused"; "Unlock"].

(* LoadMetadata is tolerant; start-up is load, persist, serve *)
Definition load_src : bool :=
  strs_eqb load_metadata_calls
    ["readOrEmpty"; "Unmarshal"; "IsValidTopicName"; "GetTopic"; "Pause"; "IsValidChannelName"; "GetChannel"; "Pause"; "Start"]
  && load_skips_invalid_topics && load_skips_invalid_channels
  && strs_eqb start_calls ["LoadMetadata"; "PersistMetadata"; "Main"].

Definition shape_ok : bool := pad_src && protocol_src && pause_src && notify_src && snapshot_src && load_src.
