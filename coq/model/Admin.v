(* Model of nsqadmin's request handling as far as C17 needs it (nsqadmin/http.go,
   internal/clusterinfo/data.go):
     - isAuthorizedAdminRequest: exact string equality of the ACL header value with a
       member of the admin list, no list = everybody; http.Header.Get (first value under
       the canonical key, "" when absent);
     - the /config CIDR gate (net.ParseCIDR / IPNet.Contains with the To4 normalisation);
     - every handler as a list of steps (guard, decode, validate, upstream action, ...)
       run by one interpreter; the projection of the step list onto the events that
       matter must equal the summary regenerated from the source (gen/AdminRoutes.v);
     - the fan-out of every clusterinfo action that POSTs, as an interpreter over the
       step table regenerated from internal/clusterinfo/data.go.
   Bytes are N; texts that come from the generated tables are Coq strings.
   No proofs here. *)
From Coq Require Import String List NArith Bool.
From NSQV Require Import model.Judge model.Names gen.AdminRoutes.
Import ListNotations.
Open Scope bool_scope.
Open Scope list_scope.
Open Scope N_scope.

(* ------------------------------------------------------------------ identity *)

(* for _, v := range adminUsers { if v == user { return true } } ; no list = true *)
Definition is_authorized (admins : list bytes) (user : bytes) : bool :=
  match admins with
  | [] => true
  | _ => existsb (bytes_eqb user) admins
  end.

(* net/textproto: validHeaderFieldByte = RFC 7230 tchar *)
Definition is_alpha_lower (c : N) : bool := (97 <=? c) && (c <=? 122).
Definition is_alpha_upper (c : N) : bool := (65 <=? c) && (c <=? 90).
Definition is_digit_c (c : N) : bool := (48 <=? c) && (c <=? 57).
Definition token_char (c : N) : bool :=
  is_alpha_lower c || is_alpha_upper c || is_digit_c c ||
  existsb (N.eqb c) [33;35;36;37;38;39;42;43;45;46;94;95;96;124;126].   (* !#$%&'*+-.^_`|~ *)

Fixpoint canon_go (upper : bool) (s : bytes) : bytes :=
  match s with
  | [] => []
  | c :: r =>
      let c' := if upper && is_alpha_lower c then c - 32
                else if negb upper && is_alpha_upper c then c + 32 else c in
      c' :: canon_go (c' =? 45) r
  end.

(* textproto.CanonicalMIMEHeaderKey: a key with a byte outside tchar is left alone *)
Definition canon_key (s : bytes) : bytes :=
  if forallb token_char s then canon_go true s else s.

(* optional white space around a field value is not part of it (net/textproto reader) *)
Definition is_ows (c : N) : bool := (c =? 32) || (c =? 9).
Fixpoint drop_ows (s : bytes) : bytes :=
  match s with
  | c :: r => if is_ows c then drop_ows r else s
  | [] => []
  end.
Definition http_trim (s : bytes) : bytes := rev (drop_ows (rev (drop_ows s))).

Definition headers := list (bytes * bytes).

(* what the server stores for a request that arrived over a connection *)
Definition wire_headers (sent : headers) : headers :=
  map (fun kv => (canon_key (fst kv), http_trim (snd kv))) sent.

(* http.Header.Get: first value stored under the canonical form of the key *)
Definition header_get (hs : headers) (key : bytes) : bytes :=
  match find (fun kv => bytes_eqb (fst kv) (canon_key key)) hs with
  | Some kv => snd kv
  | None => []
  end.

(* ------------------------------------------------------------------ CIDR gate *)

Inductive ipaddr := IP4 (a : N) | IP6 (a : N).

(* IP.To4: the 16-byte form ::ffff:a.b.c.d is the IPv4 address a.b.c.d *)
Definition to4 (x : ipaddr) : ipaddr :=
  match x with
  | IP6 a => if N.shiftr a 32 =? 65535 then IP4 (N.land a 4294967295) else x
  | IP4 _ => x
  end.

(* the CIDR as written: IPv4 text a/p (p <= 32) or IPv6 text a/p (p <= 128) *)
Inductive cidr := C4 (a p : N) | C6 (a p : N).

Definition cidr_wf (c : cidr) : bool :=
  match c with
  | C4 a p => (a <? 2 ^ 32) && (p <=? 32)
  | C6 a p => (a <? 2 ^ 128) && (p <=? 128)
  end.

(* net.CIDRMask(p, width) as a number *)
Definition mask_of (width p : N) : N := N.shiftl (N.ones p) (width - p).

(* ParseCIDR masks the address; networkNumberAndMask then applies To4 to the masked
   address and, when that succeeds on a 16-byte network, keeps the last 4 mask bytes *)
Definition net_norm (c : cidr) : ipaddr * N :=
  match c with
  | C4 a p => (IP4 (N.land a (mask_of 32 p)), mask_of 32 p)
  | C6 a p =>
      let m := mask_of 128 p in
      match to4 (IP6 (N.land a m)) with
      | IP4 b => (IP4 b, N.land m 4294967295)
      | x => (x, m)
      end
  end.

(* IPNet.Contains *)
Definition cidr_contains (c : cidr) (ip : ipaddr) : bool :=
  let '(nn, m) := net_norm c in
  match nn, to4 ip with
  | IP4 n, IP4 x => N.land n m =? N.land x m
  | IP6 n, IP6 x => N.land n m =? N.land x m
  | _, _ => false
  end.

Inductive gate := GatePass | GateBadRemote | GateForbidden.

(* remote = None: RemoteAddr does not split into host:port or the host is not an IP *)
Definition config_gate (allow : option cidr) (remote : option ipaddr) : gate :=
  match allow with
  | None => GatePass
  | Some c =>
      match remote with
      | None => GateBadRemote
      | Some ip => if cidr_contains c ip then GatePass else GateForbidden
      end
  end.

(* ------------------------------------------------------------------ upstream world *)

Inductive ukind := UGet | UPost.
Definition ukind_eqb (a b : ukind) : bool :=
  match a, b with UGet, UGet | UPost, UPost => true | _, _ => false end.

(* one request received by an nsqd / nsqlookupd: address, path, decoded query values *)
Record ucall := mkCall {
  uc_kind : ukind; uc_addr : bytes; uc_path : string;
  uc_topic : bytes; uc_channel : bytes; uc_node : bytes }.

Definition ucall_eqb (a b : ucall) : bool :=
  ukind_eqb (uc_kind a) (uc_kind b) && bytes_eqb (uc_addr a) (uc_addr b) &&
  String.eqb (uc_path a) (uc_path b) && bytes_eqb (uc_topic a) (uc_topic b) &&
  bytes_eqb (uc_channel a) (uc_channel b) && bytes_eqb (uc_node a) (uc_node b).

(* answer of one nsqlookupd to /lookup?topic=T: failure, or the HTTP addresses
   (broadcast_address:http_port) of the producers it lists *)
Inductive lookup_ans := LFail | LProducers (ps : list bytes).

(* answer of one nsqd to /stats?topic=T and /info:
   NFail            /stats fails
   NStats false _   /stats answers, the topic is not there
   NStats true i    the topic is there; i = None: /info fails, Some (b, port):
                    broadcast_address and http_port as text (b = [] : fall back to the
                    configured address) *)
Inductive nsqd_ans := NFail | NStats (has_topic : bool) (info : option (bytes * bytes)).

(* the node named in a tombstone request: /info fails, /info answers (broadcast_address b,
   http_port p) and /stats fails, or both answer *)
Inductive node_ans := NodeInfoFail | NodeStatsFail | NodeOk (b p : bytes).

Record world := mkWorld {
  w_lookupds : list (bytes * lookup_ans);   (* configured nsqlookupds, in order, with their answer *)
  w_nsqds : list (bytes * nsqd_ans);        (* configured nsqds (direct mode) *)
  w_node : node_ans;                        (* tombstone: /info + /stats of the node itself *)
  w_post_fail : list bytes                  (* addresses that answer POSTs with an error *)
}.

Definition colon : bytes := [58].
Definition join_host_port (h p : bytes) : bytes := (h ++ colon ++ p)%list.

(* arguments of an action *)
Record aargs := mkArgs { a_topic : bytes; a_channel : bytes; a_node : bytes }.

(* which query values a format carries *)
Definition qs_call (k : ukind) (addr : bytes) (uri qs : string) (a : aargs) : ucall :=
  if String.eqb qs "topic=%s" then mkCall k addr uri (a_topic a) [] []
  else if String.eqb qs "topic=%s&channel=%s" then mkCall k addr uri (a_topic a) (a_channel a) []
  else if String.eqb qs "topic=%s&node=%s" then mkCall k addr uri (a_topic a) [] (a_node a)
  else mkCall k addr ("?" ++ uri) [] [] [].

(* stringy-style de-duplication keeping the first occurrence *)
Fixpoint dedup (seen l : list bytes) : list bytes :=
  match l with
  | [] => []
  | x :: r => if existsb (bytes_eqb x) seen then dedup seen r else x :: dedup (x :: seen) r
  end.

(* result of a producer look-up: the GETs made, the producers' HTTP addresses
   (None = hard error: every upstream failed), the number of partial errors *)
Record lookup_res := mkLR { lr_calls : list ucall; lr_producers : option (list bytes); lr_errs : nat }.

Definition lookupd_failed (x : bytes * lookup_ans) : bool :=
  match snd x with LFail => true | _ => false end.

(* GetLookupdTopicProducers *)
Definition get_lookupd_topic_producers (w : world) (topic : bytes) : lookup_res :=
  let ups := w_lookupds w in
  let calls := map (fun x => mkCall UGet (fst x) "lookup" topic [] []) ups in
  let nerr := length (filter lookupd_failed ups) in
  let all := flat_map (fun x => match snd x with LProducers ps => ps | LFail => [] end) ups in
  if Nat.eqb nerr (length ups) then mkLR calls None nerr
  else mkLR calls (Some (dedup [] all)) nerr.

Definition nsqd_failed (x : bytes * nsqd_ans) : bool :=
  match snd x with
  | NFail => true
  | NStats true None => true
  | _ => false
  end.

Definition nsqd_calls (topic : bytes) (x : bytes * nsqd_ans) : list ucall :=
  mkCall UGet (fst x) "stats" topic [] [] ::
  match snd x with
  | NStats true _ => [mkCall UGet (fst x) "info" [] [] []]
  | _ => []
  end.

Definition nsqd_producer (x : bytes * nsqd_ans) : list bytes :=
  match snd x with
  | NStats true (Some (b, p)) => [match b with [] => fst x | _ => join_host_port b p end]
  | _ => []
  end.

(* GetNSQDTopicProducers (no de-duplication there) *)
Definition get_nsqd_topic_producers (w : world) (topic : bytes) : lookup_res :=
  let ups := w_nsqds w in
  let nerr := length (filter nsqd_failed ups) in
  let calls := flat_map (nsqd_calls topic) ups in
  if Nat.eqb nerr (length ups) then mkLR calls None nerr
  else mkLR calls (Some (flat_map nsqd_producer ups)) nerr.

(* GetTopicProducers: nsqlookupd mode iff any nsqlookupd is configured *)
Definition get_topic_producers (w : world) (topic : bytes) : lookup_res :=
  match w_lookupds w with
  | [] => get_nsqd_topic_producers w topic
  | _ => get_lookupd_topic_producers w topic
  end.

(* GetNSQDProducers([]string{node}): /info then /stats of the node; one upstream, so
   a failure is a hard error; the producer's address comes from /info as is *)
Definition get_node_producer (w : world) (node : bytes) : lookup_res :=
  match w_node w with
  | NodeInfoFail => mkLR [mkCall UGet node "info" [] [] []] None 1
  | NodeStatsFail => mkLR [mkCall UGet node "info" [] [] []; mkCall UGet node "stats" [] [] []] None 1
  | NodeOk b p =>
      mkLR [mkCall UGet node "info" [] [] []; mkCall UGet node "stats" [] [] []]
           (Some [join_host_port b p]) 0
  end.

Definition post_errs (w : world) (addrs : list bytes) : nat :=
  length (filter (fun a => existsb (bytes_eqb a) (w_post_fail w)) addrs).

(* ------------------------------------------------------------------ clusterinfo actions *)

(* the fan-out steps as modelled; gen/AdminRoutes.v's [ci_actions] (regenerated from
   data.go) must be equal to this table (AdminProofs.ci_table_current) *)
Definition ci_model : list (string * list (string * cistep)) := [
  ("CreateTopicChannel", [("", CAddrsPost "topic/create" "topic=%s");
                          ("len(channelName) > 0", CAddrsPost "channel/create" "topic=%s&channel=%s");
                          ("len(channelName) > 0", CGet "GetLookupdTopicProducers");
                          ("len(channelName) > 0", CProducersPost "channel/create" "topic=%s&channel=%s")]);
  ("DeleteChannel", [("", CGet "GetTopicProducers");
                     ("", CAddrsPost "channel/delete" "topic=%s&channel=%s");
                     ("", CProducersPost "channel/delete" "topic=%s&channel=%s")]);
  ("DeleteTopic", [("", CGet "GetTopicProducers");
                   ("", CAddrsPost "topic/delete" "topic=%s");
                   ("", CProducersPost "topic/delete" "topic=%s")]);
  ("EmptyChannel", [("", CGet "GetTopicProducers"); ("", CProducersPost "channel/empty" "topic=%s&channel=%s")]);
  ("EmptyTopic", [("", CGet "GetTopicProducers"); ("", CProducersPost "topic/empty" "topic=%s")]);
  ("PauseChannel", [("", CGet "GetTopicProducers"); ("", CProducersPost "channel/pause" "topic=%s&channel=%s")]);
  ("PauseTopic", [("", CGet "GetTopicProducers"); ("", CProducersPost "topic/pause" "topic=%s")]);
  ("TombstoneNodeForTopic", [("", CAddrsPost "topic/tombstone" "topic=%s&node=%s");
                             ("", CGet "GetNSQDProducers");
                             ("", CProducersPost "topic/delete" "topic=%s")]);
  ("UnPauseChannel", [("", CGet "GetTopicProducers"); ("", CProducersPost "channel/unpause" "topic=%s&channel=%s")]);
  ("UnPauseTopic", [("", CGet "GetTopicProducers"); ("", CProducersPost "topic/unpause" "topic=%s")])
].

(* state of an action while it runs *)
Record cist := mkCi { ci_calls : list ucall; ci_producers : list bytes; ci_errs : nat; ci_hard : bool }.

Definition cond_holds (cond : string) (a : aargs) : option bool :=
  if String.eqb cond "" then Some true
  else if String.eqb cond "len(channelName) > 0" then Some (negb (Nat.eqb (length (a_channel a)) 0))
  else None.

Definition run_get (w : world) (m : string) (a : aargs) : option lookup_res :=
  if String.eqb m "GetTopicProducers" then Some (get_topic_producers w (a_topic a))
  else if String.eqb m "GetLookupdTopicProducers" then Some (get_lookupd_topic_producers w (a_topic a))
  else if String.eqb m "GetNSQDProducers" then Some (get_node_producer w (a_node a))
  else None.

(* one step; an unknown condition / look-up marks the run as not understood by calling
   a pseudo-upstream "?" (no theorem or correspondence accepts it) *)
Definition unknown_call : ucall := mkCall UGet [] "?" [] [] [].

Definition ci_step (w : world) (a : aargs) (st : cist) (s : string * cistep) : cist :=
  if ci_hard st then st else
  match cond_holds (fst s) a with
  | None => mkCi (ci_calls st ++ [unknown_call]) (ci_producers st) (ci_errs st) true
  | Some false => st
  | Some true =>
      match snd s with
      | CGet m =>
          match run_get w m a with
          | None => mkCi (ci_calls st ++ [unknown_call]) (ci_producers st) (ci_errs st) true
          | Some r =>
              match lr_producers r with
              | None => mkCi (ci_calls st ++ lr_calls r) [] (ci_errs st) true
              | Some ps => mkCi (ci_calls st ++ lr_calls r) ps (ci_errs st + lr_errs r) false
              end
          end
      | CAddrsPost uri qs =>
          let addrs := map fst (w_lookupds w) in
          mkCi (ci_calls st ++ map (fun ad => qs_call UPost ad uri qs a) addrs)
               (ci_producers st) (ci_errs st + post_errs w addrs) false
      | CProducersPost uri qs =>
          mkCi (ci_calls st ++ map (fun ad => qs_call UPost ad uri qs a) (ci_producers st))
               (ci_producers st) (ci_errs st + post_errs w (ci_producers st)) false
      | CDeep _ => mkCi (ci_calls st ++ [unknown_call]) (ci_producers st) (ci_errs st) true
      end
  end.

Definition run_ci (w : world) (a : aargs) (steps : list (string * cistep)) : cist :=
  fold_left (ci_step w a) steps (mkCi [] [] 0 false).

Fixpoint assoc_str {A : Type} (k : string) (l : list (string * A)) : option A :=
  match l with
  | [] => None
  | (k', v) :: r => if String.eqb k k' then Some v else assoc_str k r
  end.

(* outcome of a handler: HTTP status, whether the reply carries a warning message,
   the upstream requests it caused, whether the options were swapped *)
Record outcome := mkOut { o_status : N; o_warn : bool; o_calls : list ucall; o_swapped : bool }.

(* the handlers' error mapping: hard error -> 502, partial errors -> 200 + warning *)
Definition ci_outcome (st : cist) : outcome :=
  if ci_hard st then mkOut 502 false (ci_calls st) false
  else mkOut 200 (negb (Nat.eqb (ci_errs st) 0)) (ci_calls st) false.

Definition run_action (w : world) (name : string) (a : aargs) : outcome :=
  match assoc_str name ci_model with
  | Some steps => ci_outcome (run_ci w a steps)
  | None => mkOut 500 false [unknown_call] false
  end.

(* ------------------------------------------------------------------ requests and handlers *)

(* the JSON body after decoding into the handler's struct: fields that are absent are
   empty; BodyBad = json.Decoder.Decode returns an error *)
Inductive body := BodyBad | BodyJson (topic channel action : bytes).

(* PUT /config/:opt body classes *)
Inductive putbody := PutEmpty | PutTooBig | PutInvalid | PutValid.
(* option named in the path *)
Inductive optname := OptLookupdAddrs | OptLogLevel | OptOtherKnown | OptUnknown.

Record acfg := mkCfg {
  cf_admins : list bytes;       (* AdminUsers *)
  cf_header : bytes;            (* ACLHTTPHeader *)
  cf_cidr : option cidr         (* AllowConfigFromCIDR, None = "" *)
}.

Record areq := mkReq {
  rq_method : string;
  rq_headers : headers;          (* as stored in req.Header *)
  rq_remote : option ipaddr;     (* parsed RemoteAddr, None = unparsable *)
  rq_topic : bytes; rq_channel : bytes; rq_node : bytes;   (* path parameters *)
  rq_body : body;
  rq_opt : optname; rq_put : putbody
}.

Definition identity (cfg : acfg) (rq : areq) : bytes := header_get (rq_headers rq) (cf_header cfg).
Definition authorized (cfg : acfg) (rq : areq) : bool := is_authorized (cf_admins cfg) (identity cfg rq).

Inductive body_kind := BkCreate | BkTombstone | BkAction.

Inductive step :=
| SGuard                              (* if !s.isAuthorizedAdminRequest(req) { 403 } *)
| SCidr                               (* the /config gate *)
| SDecode (k : body_kind)             (* json decode of the body, 400 on error *)
| SValidTopic                         (* protocol.IsValidTopicName(body.Topic), else 400 *)
| SValidChannelOpt                    (* len(body.Channel) > 0 && !IsValidChannelName, then 400 *)
| SCi (name : string) (k : body_kind) (* a clusterinfo action; BkCreate/BkTombstone: topic from the body,
                                         BkAction: topic/channel from the path *)
| SActionSwitch                       (* switch body.Action: pause/unpause/empty x channel/topic, else 400 *)
| SRead (names : list string)         (* read-only views: modelled in Cluster.v *)
| SAuthFlag                           (* indexHandler: IsAdmin for the template *)
| SClient (m : string)                (* graphite *)
| SPutSwap                            (* if PUT: read body, parse the option, swapOpts *)
| SGetOpt                             (* getOptByCfgName *)
| SParams                             (* http_api.NewReqParams *)
| SNotify.

Definition action_switch_events : list aev :=
  [AMut "PauseChannel"; ANotify; AMut "PauseTopic"; ANotify; AMut "UnPauseChannel"; ANotify;
   AMut "UnPauseTopic"; ANotify; AMut "EmptyChannel"; ANotify; AMut "EmptyTopic"; ANotify].

Definition step_events (s : step) : list aev :=
  match s with
  | SGuard => [AGuard]
  | SCidr => [ACidr]
  | SCi n _ => [AMut n]
  | SActionSwitch => action_switch_events
  | SRead ns => map ARead ns
  | SAuthFlag => [AAuthCall]
  | SClient m => [AClient m]
  | SPutSwap => [ASwap]
  | SNotify => [ANotify]
  | SDecode _ => [ADecode]
  | SValidTopic => [AValid "IsValidTopicName"]
  | SValidChannelOpt => [AValid "IsValidChannelName"]
  | SGetOpt => [AGetOpt]
  | SParams => [AParams]
  end.

Definition aev_eqb (a b : aev) : bool :=
  match a, b with
  | AGuard, AGuard | AAuthCall, AAuthCall | ACidr, ACidr | ACidrBad, ACidrBad
  | ASwap, ASwap | ANotify, ANotify | ADecode, ADecode | AGetOpt, AGetOpt | AParams, AParams => true
  | AMut x, AMut y | ARead x, ARead y | AClient x, AClient y | ADeep x, ADeep y
  | AValid x, AValid y => String.eqb x y
  | _, _ => false
  end.

(* first occurrences only, as the translator records them *)
Fixpoint first_occ (seen l : list aev) : list aev :=
  match l with
  | [] => []
  | e :: r => if existsb (aev_eqb e) seen then first_occ seen r else e :: first_occ (e :: seen) r
  end.

Definition steps_events (ss : list step) : list aev := first_occ [] (flat_map step_events ss).

(* the handlers of nsqadmin/http.go *)
Definition handler_steps (h : string) : option (list step) :=
  if String.eqb h "createTopicChannelHandler" then
    Some [SGuard; SDecode BkCreate; SValidTopic; SValidChannelOpt; SCi "CreateTopicChannel" BkCreate; SNotify]
  else if String.eqb h "deleteTopicHandler" then Some [SGuard; SCi "DeleteTopic" BkAction; SNotify]
  else if String.eqb h "deleteChannelHandler" then Some [SGuard; SCi "DeleteChannel" BkAction; SNotify]
  else if String.eqb h "tombstoneNodeForTopicHandler" then
    Some [SGuard; SDecode BkTombstone; SValidTopic; SCi "TombstoneNodeForTopic" BkTombstone; SNotify]
  else if String.eqb h "topicActionHandler" then Some [SGuard; SDecode BkAction; SActionSwitch]
  else if String.eqb h "channelActionHandler" then Some [SGuard; SDecode BkAction; SActionSwitch]
  else if String.eqb h "doConfig" then Some [SCidr; SPutSwap; SGetOpt]
  else if String.eqb h "indexHandler" then Some [SAuthFlag]
  else if String.eqb h "pingHandler" then Some []
  else if String.eqb h "staticAssetHandler" then Some []
  else if String.eqb h "<proxy>" then Some []
  else if String.eqb h "topicsHandler" then
    Some [SParams; SRead ["GetLookupdTopics"; "GetNSQDTopics"; "GetLookupdTopicProducers"; "GetLookupdTopicChannels"]]
  else if String.eqb h "topicHandler" then Some [SRead ["GetTopicProducers"; "GetNSQDStats"]]
  else if String.eqb h "channelHandler" then Some [SRead ["GetTopicProducers"; "GetNSQDStats"]]
  else if String.eqb h "nodesHandler" then Some [SRead ["GetProducers"]]
  else if String.eqb h "nodeHandler" then Some [SRead ["GetProducers"; "GetNSQDStats"]]
  else if String.eqb h "counterHandler" then Some [SRead ["GetProducers"; "GetNSQDStats"]]
  else if String.eqb h "graphiteHandler" then Some [SParams; SClient "GETV1"]
  else None.

(* the action named by body.Action for a path with / without a channel *)
Definition action_name (action : bytes) (has_channel : bool) : option string :=
  if bytes_eqb action [112;97;117;115;101] then Some (if has_channel then "PauseChannel" else "PauseTopic")
  else if bytes_eqb action [117;110;112;97;117;115;101] then Some (if has_channel then "UnPauseChannel" else "UnPauseTopic")
  else if bytes_eqb action [101;109;112;116;121] then Some (if has_channel then "EmptyChannel" else "EmptyTopic")
  else None.

(* interpreter state: what the handler has decoded so far and caused upstream *)
Record hst := mkH { h_body : body; h_calls : list ucall; h_warn : bool; h_swapped : bool }.

Inductive hres := Continue (s : hst) | Done (o : outcome).

Definition refuse (code : N) (s : hst) : hres := Done (mkOut code false (h_calls s) (h_swapped s)).

Definition body_topic (b : body) : bytes := match b with BodyJson t _ _ => t | BodyBad => [] end.
Definition body_channel (b : body) : bytes := match b with BodyJson _ c _ => c | BodyBad => [] end.
Definition body_action (b : body) : bytes := match b with BodyJson _ _ a => a | BodyBad => [] end.

Definition do_action (w : world) (name : string) (a : aargs) (s : hst) : hres :=
  let o := run_action w name a in
  let s' := mkH (h_body s) (h_calls s ++ o_calls o) (h_warn s || o_warn o) (h_swapped s) in
  if o_status o =? 200 then Continue s' else Done (mkOut (o_status o) false (h_calls s') (h_swapped s)).

Definition run_step (cfg : acfg) (w : world) (rq : areq) (s : hst) (st : step) : hres :=
  match st with
  | SGuard => if authorized cfg rq then Continue s else refuse 403 s
  | SCidr =>
      match config_gate (cf_cidr cfg) (rq_remote rq) with
      | GatePass => Continue s
      | GateBadRemote => refuse 400 s
      | GateForbidden => refuse 403 s
      end
  | SDecode _ =>
      match rq_body rq with
      | BodyBad => refuse 400 s
      | b => Continue (mkH b (h_calls s) (h_warn s) (h_swapped s))
      end
  | SValidTopic => if is_valid_name (body_topic (h_body s)) then Continue s else refuse 400 s
  | SValidChannelOpt =>
      let c := body_channel (h_body s) in
      if negb (Nat.eqb (length c) 0) && negb (is_valid_name c) then refuse 400 s else Continue s
  | SCi name k =>
      let a := match k with
               | BkCreate => mkArgs (body_topic (h_body s)) (body_channel (h_body s)) []
               | BkTombstone => mkArgs (body_topic (h_body s)) [] (rq_node rq)
               | BkAction => mkArgs (rq_topic rq) (rq_channel rq) []
               end in
      do_action w name a s
  | SActionSwitch =>
      match action_name (body_action (h_body s)) (negb (Nat.eqb (length (rq_channel rq)) 0)) with
      | None => refuse 400 s
      | Some name => do_action w name (mkArgs (rq_topic rq) (rq_channel rq) []) s
      end
  | SPutSwap =>
      if String.eqb (rq_method rq) "PUT" then
        match rq_put rq with
        | PutEmpty | PutTooBig => refuse 413 s
        | pb =>
            match rq_opt rq with
            | OptLookupdAddrs | OptLogLevel =>
                match pb with
                | PutValid => Continue (mkH (h_body s) (h_calls s) (h_warn s) true)
                | _ => refuse 400 s
                end
            | _ => refuse 400 s
            end
        end
      else Continue s
  | SGetOpt => match rq_opt rq with OptUnknown => refuse 400 s | _ => Continue s end
  | SRead _ | SAuthFlag | SClient _ | SNotify | SParams => Continue s
  end.

Fixpoint run_steps (cfg : acfg) (w : world) (rq : areq) (s : hst) (ss : list step) : outcome :=
  match ss with
  | [] => mkOut 200 (h_warn s) (h_calls s) (h_swapped s)
  | st :: r =>
      match run_step cfg w rq s st with
      | Done o => o
      | Continue s' => run_steps cfg w rq s' r
      end
  end.

Definition init_hst : hst := mkH BodyBad [] false false.

(* ------------------------------------------------------------------ routing *)

Definition route_matches (m p : string) (r : aroute) : bool :=
  String.eqb (ar_method r) m && String.eqb (ar_path r) p.

(* httprouter with HandleMethodNotAllowed and the default HandleOPTIONS *)
Inductive routed := RHandler (r : aroute) | ROptions | RMethodNotAllowed | RNotFound.

Definition find_route (routes : list aroute) (m p : string) : routed :=
  match find (route_matches m p) routes with
  | Some r => RHandler r
  | None =>
      if existsb (fun r => String.eqb (ar_path r) p) routes then
        (if String.eqb m "OPTIONS" then ROptions else RMethodNotAllowed)
      else RNotFound
  end.

(* a request whose path is an instance of the pattern [p] *)
Definition handle (cfg : acfg) (w : world) (routes : list aroute) (p : string) (rq : areq) : outcome :=
  match find_route routes (rq_method rq) p with
  | RHandler r =>
      match handler_steps (ar_handler r) with
      | Some ss => run_steps cfg w rq init_hst ss
      | None => mkOut 500 false [unknown_call] false
      end
  | ROptions => mkOut 200 false [] false
  | RMethodNotAllowed => mkOut 405 false [] false
  | RNotFound => mkOut 404 false [] false
  end.

(* ------------------------------------------------------------------ classification of routes *)

Definition is_mut (e : aev) : bool := match e with AMut _ | ASwap => true | _ => false end.
Definition is_gate (e : aev) : bool := match e with AGuard | ACidr => true | _ => false end.

(* a route whose handler can change state upstream or in nsqadmin itself *)
Definition state_changing (r : aroute) : bool := existsb is_mut (ar_events r).

(* its first event is the check that belongs to it: the admin guard when it reaches
   a mutating clusterinfo call, the CIDR test when it swaps the options *)
Definition is_amut (e : aev) : bool := match e with AMut _ => true | _ => false end.
Definition gate_first (r : aroute) : bool :=
  match ar_events r with
  | AGuard :: rest => negb (existsb (aev_eqb ASwap) rest)
  | ACidr :: rest => negb (existsb is_amut rest)
  | _ => false
  end.

(* the same on the modelled steps: the check is the very first step *)
Definition is_gate_step (s : step) : bool := match s with SGuard | SCidr => true | _ => false end.
Definition steps_gate_first (evs : list aev) (ss : list step) : bool :=
  match ss with
  | SGuard :: _ => existsb is_amut evs && negb (existsb (aev_eqb ASwap) evs)
  | SCidr :: _ => existsb (aev_eqb ASwap) evs && negb (existsb is_amut evs)
  | _ => false
  end.

(* a read-only route carries no check that could answer 403 *)
Definition no_gate (r : aroute) : bool := negb (existsb is_gate (ar_events r)).

Definition route_ok (r : aroute) : bool :=
  (if state_changing r then gate_first r else no_gate r) &&
  match handler_steps (ar_handler r) with
  | Some ss =>
      list_eqb aev_eqb (steps_events ss) (ar_events r) &&
      (if state_changing r then steps_gate_first (ar_events r) ss
       else forallb (fun s => negb (is_gate_step s)) ss)
  | None => false
  end.

(* routes registered for a configuration without --proxy-graphite *)
Definition plain_routes : list aroute := filter (fun r => String.eqb (ar_cond r) "") admin_routes.
