(* Which channels one tick of nsqd.queueScanLoop hands to the scan workers (C04, the
   "boundedly late" half):

     num := QueueScanSelectionCount; if num > len(channels) { num = len(channels) }
     for _, i := range util.UniqRands(num, len(channels)) { workCh <- channels[i] }

   internal/util/rand.go UniqRands is a partial Fisher-Yates shuffle; the values of
   rand.Int() are an arbitrary list [rs] here.  No proofs here. *)
From Coq Require Import List Arith.
Import ListNotations.

Fixpoint updn (l : list nat) (i x : nat) : list nat :=
  match l, i with
  | [], _ => []
  | _ :: r, O => x :: r
  | a :: r, S i' => a :: updn r i' x
  end.

(* intSlice[i], intSlice[j] = intSlice[j], intSlice[i] *)
Definition swapn (l : list nat) (i j : nat) : list nat :=
  updn (updn l i (nth j l 0)) j (nth i l 0).

(* for i := 0; i < quantity; i++ { j := rand.Int()%maxval + i; swap; maxval-- } *)
Fixpoint uniq_loop (k i maxval : nat) (rs : list nat) (sl : list nat) : list nat :=
  match k with
  | O => sl
  | S k' =>
      match rs with
      | [] => sl
      | r :: rs' => uniq_loop k' (S i) (maxval - 1) rs' (swapn sl i (r mod maxval + i))
      end
  end.

Definition uniq_rands (quantity maxval : nat) (rs : list nat) : list nat :=
  let q := Nat.min quantity maxval in
  firstn q (uniq_loop q 0 maxval rs (seq 0 maxval)).

(* the channel indices scanned by one tick *)
Definition tick_picks (selection_count nchannels : nat) (rs : list nat) : list nat :=
  uniq_rands (Nat.min selection_count nchannels) nchannels rs.
