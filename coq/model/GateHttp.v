(* HTTP side of C11: which HTTP listeners a configuration gives a daemon, what each of
   them answers to a request of every endpoint, and what the request does to the daemon's
   visible state (topics with their message_count, channels).

     nsqd/nsqd.go   New   httpListener  exists iff  opts.HTTPAddress != ""
                          httpsListener exists iff  n.tlsConfig != nil && opts.HTTPSAddress != ""
                    Main  one server per existing listener (Gate.plain_wiring / https_wiring)
     nsqd/http.go   ServeHTTP (Gate.http_refuses, in front of the router), the handlers

   The refusal of plaintext HTTP does NOT depend on the HTTPS listener existing: the
   configuration dimension [addrs] is here so that the statements (and the driver's
   daemons) range over it.  No proofs here. *)
From Coq Require Import List NArith Bool.
From NSQV Require Import model.Judge model.Names model.Gate.
Import ListNotations.
Open Scope bool_scope.

(* --http-address / --https-address are given (not the empty string) *)
Record addrs := mkAddrs { a_http : bool; a_https : bool }.

Definition plain_listens (cfg : config) (ad : addrs) : bool := a_http ad.
Definition https_listens (cfg : config) (ad : addrs) : bool := c_tls_config cfg && a_https ad.

Inductive listener := Plain | Https.

(* None: nobody listens; Some r: a server answers, r = it refuses every request with 403 *)
Definition served (cfg : config) (ad : addrs) (l : listener) : option bool :=
  match l with
  | Plain => if plain_listens cfg ad then Some (http_plain_refused cfg) else None
  | Https => if https_listens cfg ad then Some (https_refused cfg) else None
  end.

(* one request of every route of newHTTPServer's router (arguments always present) *)
Inductive hreq :=
| HPing | HInfo | HStats
| HNoSuch                         (* a path the router does not know: 404 *)
| HBadMethod                      (* a known path with a method it is not registered for: 405 *)
| HConfigGet (known : bool)       (* GET /config/:opt of a known / unknown option *)
| HConfigPut (ok : bool)          (* PUT /config/:opt: a settable option with a valid value / anything else *)
| HDebug                          (* the /debug/... routes *)
| HCreateTopic (t : str)
| HPub (t : str)                  (* one non-empty message *)
| HMpub (t : str) (n : N)         (* text mode, n non-empty lines *)
| HDeleteTopic (t : str)
| HEmptyTopic (t : str)
| HPauseTopic (t : str) (un : bool)
| HCreateChannel (t c : str)
| HDeleteChannel (t c : str)
| HEmptyChannel (t c : str)
| HPauseChannel (t c : str) (un : bool).

Definition has_topic (t : str) (w : world) : bool := existsb (fun x => str_eqb (fst x) t) (w_topics w).
Definition has_chan (t c : str) (w : world) : bool :=
  existsb (fun x => match x with (t', c', _) => str_eqb t' t && str_eqb c' c end) (w_chans w).
Definition del_topic (t : str) (w : world) : world :=
  mkW (filter (fun x => negb (str_eqb (fst x) t)) (w_topics w))
      (filter (fun x => match x with (t', _, _) => negb (str_eqb t' t) end) (w_chans w)).
Definition del_chan (t c : str) (w : world) : world :=
  mkW (w_topics w) (filter (fun x => match x with (t', c', _) => negb (str_eqb t' t && str_eqb c' c) end) (w_chans w)).

(* getExistingTopicFromQuery + GetExistingChannel: both names are validated (400), then the
   topic (404), then the channel (404) must exist *)
Definition on_existing_chan (t c : str) (w : world) (k : N * world) : N * world :=
  if negb (is_valid_name t) || negb (is_valid_name c) then (400%N, w)
  else if negb (has_topic t w) then (404%N, w)
  else if negb (has_chan t c w) then (404%N, w)
  else k.

(* the router and the handlers, for a request that got past ServeHTTP's guard *)
Definition http_step (w : world) (q : hreq) : N * world :=
  match q with
  | HPing | HInfo | HStats | HDebug => (200%N, w)
  | HNoSuch => (404%N, w)
  | HBadMethod => (405%N, w)
  | HConfigGet known => (if known then 200%N else 400%N, w)
  | HConfigPut ok => (if ok then 200%N else 400%N, w)
  | HCreateTopic t =>
      if is_valid_name t then (200%N, mkW (topic_touch t 0 (w_topics w)) (w_chans w)) else (400%N, w)
  | HPub t =>
      if is_valid_name t then (200%N, mkW (topic_touch t 1 (w_topics w)) (w_chans w)) else (400%N, w)
  | HMpub t n =>
      if is_valid_name t then (200%N, mkW (topic_touch t n (w_topics w)) (w_chans w)) else (400%N, w)
  | HDeleteTopic t =>                       (* the name is not validated: not found *)
      if has_topic t w then (200%N, del_topic t w) else (404%N, w)
  | HEmptyTopic t =>
      if negb (is_valid_name t) then (400%N, w)
      else if has_topic t w then (200%N, w) else (404%N, w)
  | HPauseTopic t _ =>
      if has_topic t w then (200%N, w) else (404%N, w)
  | HCreateChannel t c =>                   (* doCreateChannel wants an existing topic *)
      if negb (is_valid_name t) || negb (is_valid_name c) then (400%N, w)
      else if negb (has_topic t w) then (404%N, w)
      else (200%N, mkW (w_topics w) (chan_touch t c 0 (w_chans w)))
  | HDeleteChannel t c => on_existing_chan t c w (200%N, del_chan t c w)
  | HEmptyChannel t c => on_existing_chan t c w (200%N, w)
  | HPauseChannel t c _ => on_existing_chan t c w (200%N, w)
  end.

(* a request sent to listener [l] of a daemon configured (cfg, ad) whose state is w:
   None when nobody listens there, else the status and the state afterwards *)
Definition http_exchange (cfg : config) (ad : addrs) (l : listener) (w : world) (q : hreq) : option (N * world) :=
  match served cfg ad l with
  | None => None
  | Some true => Some (403%N, w)
  | Some false => Some (http_step w q)
  end.
