(* Vocabulary of the tables that tools/gotables/gate.go regenerates from
   nsqd/protocol_v2.go, nsqd/http.go and nsqd/nsqd.go (coq/gen/GateTable.v).
   No proofs here. *)
From Coq Require Import List String.
Import ListNotations.

(* events of a protocol handler, in first-occurrence (= execution) order *)
Inductive gevent :=
| GvValidTopic      (* protocol.IsValidTopicName *)
| GvValidChannel    (* protocol.IsValidChannelName *)
| GvReadLen         (* readLen: the 4-byte size of the body *)
| GvReadBody        (* io.ReadFull / readMPUB: the body itself *)
| GvCheckAuth       (* p.CheckAuth, in the guard shape  if err := p.CheckAuth(..); err != nil { return nil, err } *)
| GvCheckAuthLoose  (* p.CheckAuth called, but its result is not returned by such a guard *)
| GvGetTopic        (* nsqd.GetTopic: creates the topic *)
| GvGetChannel      (* topic.GetChannel: creates the channel *)
| GvPut             (* topic.PutMessage / PutMessages *)
| GvAddClient.      (* channel.AddClient *)

Definition gevent_eqb (a b : gevent) : bool :=
  match a, b with
  | GvValidTopic, GvValidTopic | GvValidChannel, GvValidChannel | GvReadLen, GvReadLen
  | GvReadBody, GvReadBody | GvCheckAuth, GvCheckAuth | GvCheckAuthLoose, GvCheckAuthLoose
  | GvGetTopic, GvGetTopic | GvGetChannel, GvGetChannel | GvPut, GvPut | GvAddClient, GvAddClient => true
  | _, _ => false
  end.

(* one row of protocolV2.Exec: the command literal, the handler method it calls, and
   whether the dispatch sits after the enforceTLSPolicy call whose error is returned *)
Record exec_row := mkRow { row_cmd : string; row_handler : string; row_after_gate : bool }.

(* a return statement of CheckAuth / enforceTLSPolicy that returns an error:
   the E_ code and whether it is built by protocol.NewFatalClientErr *)
Record err_return := mkErr { er_code : string; er_fatal : bool }.

(* boolean expressions over the configuration that wire an HTTP listener's tlsRequired *)
Inductive wexp :=
| WTrue | WFalse
| WReqEq (c : string)     (* n.getOpts().TLSRequired == c *)
| WReqNe (c : string)     (* n.getOpts().TLSRequired != c *)
| WOther (src : string).  (* anything else: no theorem can use it *)

Record http_wiring := mkWire { hw_listener : string; hw_tls_enabled : wexp; hw_tls_required : wexp }.

(* the shape of the test at the top of httpServer.ServeHTTP and of enforceTLSPolicy *)
Inductive guard_shape :=
| GuardNotEnabledAndRequired (status : nat)   (* if !s.tlsEnabled && s.tlsRequired { ... WriteHeader(status) ...; return } *)
| GuardReqNeAndNotTLS (c : string)            (* if opts.TLSRequired != c && client.TLS != 1 { return fatal } *)
| GuardOther (src : string).

(* the condition under which nsqd.New creates an HTTP listener *)
Inductive lexp :=
| LAddr (opt : string)          (* opts.<opt> != "" *)
| LTlsAndAddr (opt : string)    (* n.tlsConfig != nil && opts.<opt> != "" *)
| LOther (src : string).

(* one assignment  n.<listener>, err = <pkg>.Listen(...)  of package nsqd: the function it
   is in, the enclosing condition, whether it is tls.Listen with n.tlsConfig *)
Record http_listen := mkListen { hl_listener : string; hl_func : string; hl_cond : lexp; hl_tls : bool }.

(* one  http_api.Serve(n.<listener>, <server>, ...)  of NSQD.Main: the listener of the
   enclosing  if n.X != nil, the listener passed, and the listener of the block in which
   the server variable passed was built by newHTTPServer *)
Record http_serve := mkServe { hs_guard : string; hs_listener : string; hs_server_of : string }.
