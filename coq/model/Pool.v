(* Model of the pooled serialisation buffers (C07):

     nsqd/buffer_pool.go   bufferPoolGet / bufferPoolPut (sync.Pool of *bytes.Buffer; Put = Reset, then hand back)
     nsqd/protocol_v2.go   protocolV2.SendMessage: Get, msg.WriteTo(buf), Send(buf.Bytes()), Put
     nsqd/message.go       writeMessageToBackend: Get, msg.WriteTo(buf), bq.Put(buf.Bytes()), Put

   Any number of such calls ("users") run concurrently; a schedule interleaves their steps
   in any order.  A buffer has an identity (its backing array); the heap maps identities to
   the bytes the array holds.  What a user hands to its sink (the connection's writer stack,
   the disk queue) is read from the array piece by piece, at the moment of each write -- the
   write may block between pieces (a full TCP window, a slow disk, a contended write lock),
   and other users run meanwhile.

     Get    any buffer of the free list (sync.Pool promises nothing about which), or a new
            one when the pick is out of range / the list is empty;
     Fill   Reset happened at Put time (length 0, same array); WriteTo overwrites the
            array's prefix with the record and leaves what lies beyond as it was (growth of
            the array is modelled in place: a reallocation only makes aliasing rarer);
     Write  the next 1..k+1 bytes of buf.Bytes()[off:len(record)] as the array holds them NOW;
     Put    the buffer goes back on the free list.

   [late = true]: the Put runs after the last Write (`defer bufferPoolPut(buf)`: at function
   exit).  [late = false]: the Put runs right after Fill, before the first Write -- the
   discipline under which the property fails ([Pool_early_release_refuted] in the proofs).
   Which discipline the Go source follows is read from the source on every run
   (gen/PoolUse.v).  No proofs here. *)
From Coq Require Import List Arith Bool NArith.
From NSQV Require Import model.Judge.
Import ListNotations.

Inductive ppc :=
| PIdle                          (* before bufferPoolGet *)
| PGot (b : nat)                 (* has buffer b, nothing serialised yet *)
| PFilled (b : nat) (off : nat)  (* record serialised into b; off bytes handed to the sink so far *)
| PDone.

Record puser := mkUser {
  u_rec : bytes;          (* the record this call serialises (Message.WriteTo's output) *)
  u_pc : ppc;
  u_owns : option nat;    (* the buffer it has checked out of the pool *)
  u_out : bytes           (* what its sink has received *)
}.

Record pstate := mkPS {
  p_heap : nat -> bytes;  (* backing arrays *)
  p_free : list nat;      (* the pool *)
  p_fresh : nat;          (* identities below it exist *)
  p_users : nat -> puser
}.

Definition upd {A : Type} (f : nat -> A) (k : nat) (v : A) : nat -> A :=
  fun x => if Nat.eqb x k then v else f x.

Fixpoint remove_nth (k : nat) (l : list nat) : list nat :=
  match l, k with
  | [], _ => []
  | _ :: r, O => r
  | x :: r, S k' => x :: remove_nth k' r
  end.

(* WriteTo into a Reset buffer whose array held [old] *)
Definition overwrite (old new : bytes) : bytes := new ++ skipn (length new) old.

(* one step of user t; k resolves the step's nondeterminism (which free buffer; how many
   bytes the sink takes before it blocks again) *)
Definition pstep (late : bool) (s : pstate) (t k : nat) : pstate :=
  let u := p_users s t in
  match u_pc u with
  | PIdle =>
      match nth_error (p_free s) k with
      | Some b =>
          mkPS (p_heap s) (remove_nth k (p_free s)) (p_fresh s)
               (upd (p_users s) t (mkUser (u_rec u) (PGot b) (Some b) (u_out u)))
      | None =>
          let b := p_fresh s in
          mkPS (upd (p_heap s) b []) (p_free s) (S b)
               (upd (p_users s) t (mkUser (u_rec u) (PGot b) (Some b) (u_out u)))
      end
  | PGot b =>
      let h := upd (p_heap s) b (overwrite (p_heap s b) (u_rec u)) in
      if late
      then mkPS h (p_free s) (p_fresh s)
                (upd (p_users s) t (mkUser (u_rec u) (PFilled b 0) (Some b) (u_out u)))
      else mkPS h (b :: p_free s) (p_fresh s)
                (upd (p_users s) t (mkUser (u_rec u) (PFilled b 0) None (u_out u)))
  | PFilled b off =>
      let n := Nat.min (S k) (length (u_rec u) - off) in
      let out := u_out u ++ firstn n (skipn off (p_heap s b)) in
      if Nat.leb (length (u_rec u)) (off + n)
      then if late
           then mkPS (p_heap s) (b :: p_free s) (p_fresh s)
                     (upd (p_users s) t (mkUser (u_rec u) PDone None out))
           else mkPS (p_heap s) (p_free s) (p_fresh s)
                     (upd (p_users s) t (mkUser (u_rec u) PDone None out))
      else mkPS (p_heap s) (p_free s) (p_fresh s)
                (upd (p_users s) t (mkUser (u_rec u) (PFilled b (off + n)) (u_owns u) out))
  | PDone => s
  end.

(* a schedule: (user, choice) pairs *)
Definition prun (late : bool) (s : pstate) (sched : list (nat * nat)) : pstate :=
  fold_left (fun s tk => pstep late s (fst tk) (snd tk)) sched s.

(* nobody has started; the pool is empty; user t will serialise [recs t] *)
Definition pinit (recs : nat -> bytes) : pstate :=
  mkPS (fun _ => []) [] 0 (fun t => mkUser (recs t) PIdle None []).
