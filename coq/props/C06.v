(* C06 — hard-kill consistency of persisted metadata.  Property theorems only. *)
From Coq Require Import List NArith Bool Arith.
From NSQV Require Import model.Judge model.Names model.Meta proofs.MetaProofs.
Import ListNotations.
Open Scope nat_scope.

Theorem C06_protocol_order : forall tmp,
  persist_ops tmp = [FOpen tmp; FWrite tmp; FFsync tmp; FClose tmp; FRename tmp].
Proof. exact persist_ops_shape. Qed.
Print Assumptions C06_protocol_order.
