(* C06 — hard-kill consistency of persisted metadata.  Property theorems only.
   Model: model/Meta.v (every schedule of request micro-steps, Notify goroutines, persist
   steps, SIGKILLs and restarts).  Proofs: proofs/MetaProofs.v. *)
From Coq Require Import List NArith Bool Arith.
From NSQV Require Import gen.MetaShape model.Judge model.Names model.MetaSrc model.Meta proofs.MetaProofs proofs.MetaPause proofs.MetaSeq.
From NSQV Require Import model.PathLock proofs.PathLockProofs.
Import ListNotations.
Open Scope nat_scope.

(* The source text (gen/MetaShape.v, regenerated from the repository on every run) has the
   shape the model is written against: open(O_WRONLY|O_CREATE|O_TRUNC) tmp, write, fsync
   unless the write failed, close, rename tmp -> nsqd.dat; deletions remove from the map and
   THEN persist; pause handlers flip and THEN persist under the lock; Notify hands over and
   THEN persists; GetMetadata(false) skips ephemeral topics and channels; LoadMetadata skips
   invalid names; start-up is load, persist, serve.  [step] itself is defined from this
   table (model/Meta.v [pad_src]), so the theorems below are about the source as it is now. *)
Theorem C06_source_shape : shape_ok = true /\ step = step_ true.
Proof. exact (conj shape_ok_true step_fixed). Qed.
Print Assumptions C06_source_shape.

(* At every instant of every schedule -- a kill may fall between any two steps, also inside
   the write and during the start-up persist; any number of restart cycles -- nsqd.dat is
   absent or a completely written and fsynced document (it is only ever produced by the
   rename of such a temp file), no restart ever finds an undecodable file, the topic set
   of the document is the set of non-ephemeral topics of a live state the daemon passed
   through, and each entry is the persisted form of that topic in a live state the daemon
   passed through. *)
Theorem C06_atomic : forall evs,
  let s := run init evs in
  broken s = false /\
  (dat (fs s) = None \/
   exists c, dat (fs s) = Some c /\ complete c = true /\ f_synced c = true /\ from_hist (hist s) (f_doc c)).
Proof. exact atomic_all. Qed.
Print Assumptions C06_atomic.

(* The stronger reading -- the whole document is the persisted form of ONE live state the
   daemon passed through -- is FALSE of the code (known finding K8, reproduced on the real
   daemon by metadrive's kind=mix scenario): GetMetadata reads the topics one after the
   other, each under its own lock, while channel create/delete and pause flips that already
   passed their lookup do not take the NSQD lock.  The witness schedule (MetaSeq.v
   [k8_schedule]): create a, b, b/y, a/x; two concurrent deleters; a Notify persist reads a,
   then a/x and b/y leave their maps, then it reads b: nsqd.dat = {a/x, b}. *)
Definition C06_atomic_full : Prop :=
  forall evs, let s := run init evs in
  forall c, dat (fs s) = Some c -> exists L, In L (hist s) /\ f_doc c = snapshot L.
Theorem C06_atomic_full_refuted : ~ C06_atomic_full.
Proof. exact atomic_full_refuted. Qed.
Print Assumptions C06_atomic_full_refuted.

(* It holds outside the K8 region: in every schedule in which no GetMetadata has two mutation
   steps (channel insert/drop/remove, pause flip) between its first and its last topic read,
   nsqd.dat is the persisted form of one live state the daemon passed through ... *)
Theorem C06_atomic_outside : forall evs, Single evs ->
  let s := run init evs in
  forall c, dat (fs s) = Some c -> exists L, In L (hist s) /\ f_doc c = snapshot L.
Proof. exact atomic_outside. Qed.
Print Assumptions C06_atomic_outside.

(* ... and a sequential client (at most one request in progress at any time; any number of
   pending Notify goroutines, any interleaving, kills, restarts) never leaves that region:
   its next request blocks on NSQD.RLock while a persist holds the lock, and one request
   makes at most one lock-free change. *)
Theorem C06_sequential_is_outside : forall evs, Sequential evs -> Single evs.
Proof. exact sequential_single. Qed.
Print Assumptions C06_sequential_is_outside.
Theorem C06_atomic_sequential : forall evs, Sequential evs ->
  let s := run init evs in
  forall c, dat (fs s) = Some c -> exists L, In L (hist s) /\ f_doc c = snapshot L.
Proof. exact atomic_sequential. Qed.
Print Assumptions C06_atomic_sequential.

(* Write faults.  [EFault k]: the write of the temp file stores at most k more bytes -- never
   the whole document -- and fails (ENOSPC, EDQUOT, EFBIG, EIO); writeSyncFile then skips
   the fsync and reports the error, PersistMetadata returns before the rename.  Schedules
   range over these events too, so C06_atomic above already says that nsqd.dat stays absent
   or complete and loadable under any number of write faults at any point; the step itself
   never touches nsqd.dat: *)
Theorem C06_write_fault_keeps_dat : forall s j k, dat (fs (fail_step s j k)) = dat (fs s).
Proof. exact fail_keeps_dat. Qed.
Print Assumptions C06_write_fault_keeps_dat.

(* Whenever the daemon is idle (no request in progress, no Notify goroutine pending, no
   persist running), nsqd.dat is exactly the persisted form of the live state: every
   completed creation is in it, every completed deletion is not.  All interleavings; no
   write faults (after a failed persist the file is stale until the next successful one). *)
Theorem C06_idle_full : forall evs, fault_free evs ->
  let s := run init evs in
  idle s ->
  exists c, dat (fs s) = Some c /\ complete c = true /\ f_synced c = true /\ f_doc c = snapshot (live_ s).
Proof. exact idle_full. Qed.
Print Assumptions C06_idle_full.

(* A pause/unpause request (thread i) for a valid, non-ephemeral topic t arrives in any
   reachable state.  From then on no OTHER request creates, deletes or (un)pauses t and
   thread id i is not reused (ev_ok); everything else is arbitrary: other requests on other
   topics and on t's channels, Notify goroutines, persist steps in any interleaving, kills
   and restarts.  If the request is answered 200, then at every later instant nsqd.dat is a
   complete document that lists t with exactly that paused flag -- in particular after any
   SIGKILL and restart.  (quiet: no request in flight at the arrival touches t.) *)
Theorem C06_pause_acked : forall (t : name) (b : bool) (i : N),
  eph t = false -> valid t = true ->
  forall pre evs,
  let s0 := run init pre in
  get_thread i (threads s0) = Some [MEnter (OPauseTopic t b)] ->
  quiet t i s0 -> ~ In (i, 200%N) (acks s0) ->
  Forall (ev_ok t i) evs ->
  let s := run s0 evs in
  In (i, 200%N) (acks s) ->
  exists c, dat (fs s) = Some c /\ complete c = true /\
            (exists e, In e (f_doc c) /\ dt_name e = t) /\
            (forall e, In e (f_doc c) -> dt_name e = t -> dt_paused e = b).
Proof. exact pause_acked_topic. Qed.
Print Assumptions C06_pause_acked.

(* ------------------------------------------------------------------ the data-path lock
   "A second nsqd pointed at a data path that is in use refuses to start."  Model:
   model/PathLock.v -- any number of daemon processes on one data path; the life of a daemon
   is the step list BUILT FROM THE SOURCE TABLE (nsqd.New takes the flock before anything
   else, program.Start loads / persists / starts Main, NSQD.Exit in source order, what
   DirLock.Lock / Unlock do); flock(2) itself is modelled: one owner, non-blocking, dropped
   by the kernel when the process ends.  Schedules: starts, steps, background writes and
   SIGKILLs of all processes in any interleaving.

   The source has the shape the model reads it with: DirLock.Lock opens the directory, flocks
   it LOCK_EX|LOCK_NB and KEEPS the descriptor; and in the daemon's life every step that reads
   or writes the data path is made while the flock is held, which is given up only after
   waitGroup.Wait() has joined every background goroutine. *)
Theorem C06_lock_source_shape : dirlock_src = true /\ life_ok life_src = true.
Proof. exact lock_shape. Qed.
Print Assumptions C06_lock_source_shape.

(* In every schedule no process ever reads or writes the data path, or has background
   goroutines (which write it) running, at an instant at which it does not hold the flock. *)
Theorem C06_path_never_used_unlocked : forall evs, clash (lrun linit evs) = false.
Proof. exact path_no_clash. Qed.
Print Assumptions C06_path_never_used_unlocked.

(* A process uses the path from its successful flock until it has neither background
   goroutines nor path steps left -- through its whole graceful exit, up to the return of
   waitGroup.Wait().  At every instant of every schedule at most one process does. *)
Theorem C06_path_exclusive : forall evs d1 d2,
  in_use (lrun linit evs) d1 -> in_use (lrun linit evs) d2 -> d1 = d2.
Proof. exact path_exclusive. Qed.
Print Assumptions C06_path_exclusive.

(* While d1 uses the path, the flock step of any other process fails and that process ends
   (nsqd.New returns the error, apps/nsqd exits non-zero) -- it has not touched the path
   (previous theorems) and d1 and the lock are as they were. *)
Theorem C06_second_refused : forall evs d1 d2 p s r,
  let w := lrun linit evs in
  in_use w d1 -> d2 <> d1 -> procs w d2 = Some p -> todo p = (LsFlock, s) :: r ->
  let w' := lstep_src w (EvStep d2) in
  procs w' d2 = None /\ procs w' d1 = procs w d1 /\ owner w' = Some d1 /\ clash w' = false.
Proof. exact path_second_refused. Qed.
Print Assumptions C06_second_refused.

(* non-vacuity: a second daemon started while the first serves is refused; after a graceful
   exit, and after a SIGKILL, the path is taken over; and were the flock given up before the
   background goroutines are joined (Exit: ... Unlock ; dl.Unlock ; close(exitChan) ; Wait),
   the static check fails and a second daemon serves while the first one still writes *)
Example C06_witness_lock_refused :
  let w := lrun linit (up_to_serving 0 ++ up_to_serving 1) in
  serving w 0 = true /\ procs w 1 = None /\ owner w = Some 0 /\ clash w = false.
Proof. exact witness_refused_while_serving. Qed.
Example C06_witness_lock_takeover :
  let w := lrun linit (whole_life 0 ++ up_to_serving 1 ++ [EvKill 1] ++ up_to_serving 2) in
  procs w 0 = None /\ procs w 1 = None /\ serving w 2 = true /\ owner w = Some 2 /\ clash w = false.
Proof. exact witness_takeover_after_exit_and_kill. Qed.
Example C06_witness_lock_early_unlock_refuted :
  life_ok life_early = false /\
  let w := lrun_ life_early linit (EvStart 0 :: repeat (EvStep 0) (boot_steps + 6) ++ up_to_serving 1 ++ [EvBg 0]) in
  serving w 0 = true /\ serving w 1 = true /\ owner w = Some 1 /\ clash w = true.
Proof. exact witness_early_unlock_refuted. Qed.

(* ------------------------------------------------------------------ non-vacuity *)
Definition P8 : list ev := repeat (EPersist 4096%N) 8.
Definition steps (i : N) (n : nat) : list ev := repeat (EStep i) n.
Definition tname : name := [116%N].
(* create t ; idle ; delete t with the Notify persist running BEFORE the map removal
   (the schedule of the old finding F6) ; idle *)
Definition f6_schedule : list ev :=
  [ERestart] ++ P8 ++ [EStart 1%N (OCreateTopic tname)] ++ steps 1%N 4 ++ [ETask] ++ P8
  ++ [EStart 2%N (ODeleteTopic tname)] ++ steps 2%N 2 ++ [ETask] ++ P8
  ++ steps 2%N 3 ++ P8 ++ steps 2%N 2.

Example C06_witness_idle_after_create :
  let s := run init ([ERestart] ++ P8 ++ [EStart 1%N (OCreateTopic tname)] ++ steps 1%N 4 ++ [ETask] ++ P8) in
  idle s /\ option_map f_doc (dat (fs s)) = Some [mkDT tname false []] /\ acks s = [(1%N, 200%N)].
Proof. vm_compute. repeat split; reflexivity. Qed.

Example C06_witness_F6_now :
  let s := run init f6_schedule in
  idle s /\ live_ s = [] /\ option_map f_doc (dat (fs s)) = Some [] /\ length (hist s) = 5.
Proof. vm_compute. repeat split; reflexivity. Qed.

(* the same schedule on the code before fix d8e666b (no persist after the removal): the
   daemon is idle, the topic is gone, and the file still lists it *)
Example C06_witness_F6_old :
  let s := run_old init f6_schedule in
  idle s /\ live_ s = [] /\ option_map f_doc (dat (fs s)) = Some [mkDT tname false []].
Proof. vm_compute. repeat split; reflexivity. Qed.

(* a kill inside the write leaves a partial temp file and an intact nsqd.dat *)
Example C06_witness_kill_in_write :
  let s := run init ([ERestart] ++ P8 ++ [EStart 1%N (OCreateTopic tname)] ++ steps 1%N 4 ++ [ETask]
                     ++ [EPersist 0%N; EPersist 7%N; EPersist 0%N; EKill; ERestart] ++ P8) in
  idle s /\ map t_name (live_ s) = [] /\
  option_map f_doc (dat (fs s)) = Some [] /\
  map (fun x => (f_written (snd x), complete (snd x))) (tmps (fs s)) = [(1, false)].
Proof. vm_compute. repeat split; reflexivity. Qed.

(* the hypotheses of C06_pause_acked are met: pause t, answered 200, then an unrelated
   creation, a kill in the middle of its persist and a restart -- the flag is in the file *)
Example C06_witness_pause_acked :
  let pre := [ERestart] ++ P8 ++ [EStart 1%N (OCreateTopic tname)] ++ steps 1%N 4 ++ [ETask] ++ P8
             ++ [EStart 2%N (OPauseTopic tname true)] in
  let evs := steps 2%N 3 ++ P8 ++ steps 2%N 1
             ++ [EStart 3%N (OCreateTopic [117%N])] ++ steps 3%N 3 ++ [ETask; EPersist 0%N; EPersist 9%N; EKill; ERestart] ++ P8 in
  let s0 := run init pre in
  let s := run s0 evs in
  get_thread 2%N (threads s0) = Some [MEnter (OPauseTopic tname true)] /\
  In (2%N, 200%N) (acks s) /\ ~ In (2%N, 200%N) (acks s0) /\
  forallb (fun e => match e with EStart j o => negb (N.eqb j 2) && negb (touches_op tname o) | _ => true end) evs = true /\
  option_map f_doc (dat (fs s)) = Some [mkDT tname true []] /\ idle s.
Proof. vm_compute. intuition (try discriminate; auto). Qed.

(* the K8 schedule really produces the mixed document, and it is not Single / not Sequential;
   the F6 schedule is sequential *)
Example C06_witness_K8 : k8_check = true.
Proof. exact k8_check_true. Qed.
Example C06_witness_sequential : Sequential f6_schedule.
Proof. vm_compute. repeat split; auto. Qed.

(* a write fault while the creation of t is being persisted: nsqd.dat keeps the previous
   complete document, a cut-off temp file stays behind, the daemon restarts after a kill *)
Example C06_witness_write_fault :
  let s1 := run init ([ERestart] ++ P8 ++ [EStart 1%N (OCreateTopic tname)] ++ steps 1%N 4
                      ++ [ETask; EPersist 0%N; EPersist 7%N; EFault 0%N]) in
  let s2 := run s1 ([EKill; ERestart] ++ P8) in
  option_map f_doc (dat (fs s1)) = Some [] /\ lock s1 = None /\
  map (fun x => complete (snd x)) (tmps (fs s1)) = [false] /\
  up s2 = true /\ broken s2 = false /\ idle s2.
Proof. vm_compute. repeat split; reflexivity. Qed.
