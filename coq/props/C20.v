(* C20 — relay tools forward every record exactly.  Property theorems only. *)
From Coq Require Import List NArith.
From NSQV Require Import model.Judge model.Relay proofs.RelayProofs.
Import ListNotations.
Open Scope N_scope.

(* to_nsq publishes exactly the non-empty delimiter-separated records of its input,
   byte-exact and in order, including a final record without trailing delimiter;
   for every input and every delimiter byte. *)
Theorem C20_to_nsq_full : forall delim input,
  to_nsq_records delim input = Some (split_nonempty delim input).
Proof. exact to_nsq_records_spec. Qed.
Print Assumptions C20_to_nsq_full.

(* ... and the same sequence goes to every destination *)
Theorem C20_to_nsq_every_destination : forall n delim input,
  published_per_dest n delim input = Some (repeat (split_nonempty delim input) n).
Proof. exact published_per_dest_spec. Qed.
Print Assumptions C20_to_nsq_every_destination.

(* what the specification means: any list of non-empty, delimiter-free records,
   joined by the delimiter, with or without a trailing one, is published as is *)
Theorem C20_to_nsq_roundtrip : forall delim records,
  Forall (good_record delim) records ->
  to_nsq_records delim (join delim records) = Some records /\
  to_nsq_records delim (join delim records ++ [delim]) = Some records.
Proof. exact to_nsq_roundtrip. Qed.
Print Assumptions C20_to_nsq_roundtrip.

(* non-vacuity: the witness of the repaired defect (stdin "one\ntwo\nab") *)
Example C20_witness_unterminated :
  to_nsq_records 10 [111;110;101;10;116;119;111;10;97;98]
  = Some [[111;110;101];[116;119;111];[97;98]].
Proof. vm_compute. reflexivity. Qed.
