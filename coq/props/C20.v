(* C20 — relay tools forward every record exactly and acknowledge only on success.
   Property theorems only. *)
From Coq Require Import List NArith Bool String.
From NSQV Require Import model.Judge model.Relay proofs.RelayProofs.
From NSQV Require Import gen.RelayCfg model.RelayAck proofs.RelayAckProofs.
Import ListNotations.
Open Scope N_scope.

(* to_nsq publishes exactly the non-empty delimiter-separated records of its input,
   byte-exact and in order, including a final record without trailing delimiter;
   for every input and every delimiter byte. *)
Theorem C20_to_nsq_full : forall delim input,
  to_nsq_records delim input = Some (split_nonempty delim input).
Proof. exact to_nsq_records_spec. Qed.
Print Assumptions C20_to_nsq_full.

(* ... and the same sequence goes to every destination *)
Theorem C20_to_nsq_every_destination : forall n delim input,
  published_per_dest n delim input = Some (repeat (split_nonempty delim input) n).
Proof. exact published_per_dest_spec. Qed.
Print Assumptions C20_to_nsq_every_destination.

(* what the specification means: any list of non-empty, delimiter-free records,
   joined by the delimiter, with or without a trailing one, is published as is *)
Theorem C20_to_nsq_roundtrip : forall delim records,
  Forall (good_record delim) records ->
  to_nsq_records delim (join delim records) = Some records /\
  to_nsq_records delim (join delim records ++ [delim]) = Some records.
Proof. exact to_nsq_roundtrip. Qed.
Print Assumptions C20_to_nsq_roundtrip.

(* non-vacuity: the witness of the repaired defect (stdin "one\ntwo\nab") *)
Example C20_witness_unterminated :
  to_nsq_records 10 [111;110;101;10;116;119;111;10;97;98]
  = Some [[111;110;101];[116;119;111];[97;98]].
Proof. vm_compute. reflexivity. Qed.

(* ======================= nsq_to_nsq / nsq_to_http ======================= *)
Open Scope nat_scope.

(* For every tool (nsq_to_nsq, nsq_to_http POST / GET), every mode (all, round-robin,
   hostpool/epsilon-greedy with any choice sequence), every number of destinations >= 1,
   every destination behaviour stream (accept / reject / close / refuse / any status), every
   source message list and any number of deliveries, with max_attempts = 0: the trace
   satisfies the acknowledgement rule [ack_ok]: a message is finished only after requests
   carrying exactly its body were all accepted (one per destination in mode all), and it is
   requeued exactly when its last request was not accepted. *)
Theorem C20_finish_only_on_success : forall c e msgs fuel, 0 < ndest c -> max_attempts c = 0 ->
  ack_ok c [] (rtr (relay fuel c e (rinit msgs))) = true.
Proof. exact finish_only_on_success. Qed.
Print Assumptions C20_finish_only_on_success.

(* The same statement for the configuration the tools really run with (the client
   library's default max_attempts, read from the go-nsq source the repository builds
   against, which neither tool overrides) is FALSE: known finding K7. *)
Definition C20_finish_only_on_success_full : Prop := ack_full.
Theorem C20_finish_only_on_success_refuted : ~ C20_finish_only_on_success_full.
Proof. exact ack_full_refuted. Qed.
Print Assumptions C20_finish_only_on_success_refuted.

(* ... and it holds outside the finding: on every run in which no message is requeued
   max_attempts times, *)
Theorem C20_finish_only_on_success_holds_outside : forall c e msgs fuel, 0 < ndest c ->
  (forall m, nreq m (rtr (relay fuel c e (rinit msgs))) < max_attempts c) ->
  ack_ok c [] (rtr (relay fuel c e (rinit msgs))) = true.
Proof. exact finish_only_on_success_holds_outside. Qed.
Print Assumptions C20_finish_only_on_success_holds_outside.

(* ... every finish that is not a give-up of the client library obeys the rule, *)
Theorem C20_finish_only_on_success_outside : forall c e msgs fuel, 0 < ndest c ->
  ack_ok_outside c [] (rtr (relay fuel c e (rinit msgs))) = true.
Proof. exact finish_only_on_success_outside. Qed.
Print Assumptions C20_finish_only_on_success_outside.

(* ... and a give-up happens only after max_attempts requeues of that message. *)
Theorem C20_giveup_needs_failures : forall c e msgs fuel m,
  In (EGiveUp m) (rtr (relay fuel c e (rinit msgs))) ->
  0 < max_attempts c /\ max_attempts c <= nreq m (rtr (relay fuel c e (rinit msgs))).
Proof. exact giveup_needs_failures. Qed.
Print Assumptions C20_giveup_needs_failures.

(* what the rule means for one finish (no filter, no sampling): it is directly preceded by
   an accepted request carrying exactly the message's body *)
Theorem C20_fin_has_accepted_publish : forall c e msgs fuel pre m post, 0 < ndest c -> plain c = true ->
  rtr (relay fuel c e (rinit msgs)) = pre ++ EFin m :: post ->
  exists pre1 d a pre2,
    pre = pre1 ++ EPub d (snd m) a :: pre2 /\ accepted (tool_ c) a = true /\
    forallb (pub_ok (tool_ c) (snd m)) pre2 = true.
Proof. exact fin_has_accepted_publish. Qed.
Print Assumptions C20_fin_has_accepted_publish.

(* at-least-once: if from some request on the destination accepts (and the source
   redelivers requeued messages: property C01, modelled by the queue), then with
   max_attempts = 0 after N + |msgs| deliveries nothing is owed, every message has been
   finished and a request carrying exactly its body was accepted *)
Theorem C20_eventual : forall c e msgs N,
  filter c = None -> 0 < ndest c -> max_attempts c = 0 ->
  (forall k, N <= k -> accepted (tool_ c) (oracle e k) = true) ->
  let s := relay (N + List.length msgs) c e (rinit msgs) in
  queue s = [] /\ forall m, In m msgs -> delivered c (rtr s) m.
Proof. exact eventual. Qed.
Print Assumptions C20_eventual.

(* tie to the source (regenerated tables): the tools do not override max_attempts, and the
   status tests of PostPublisher / GetPublisher are the ones the model transcribes *)
Theorem C20_tools_use_library_default :
  nsq_to_nsq_assigns_max_attempts = false /\ nsq_to_http_assigns_max_attempts = false /\
  0 < go_nsq_default_max_attempts.
Proof. exact tools_use_library_default. Qed.
Print Assumptions C20_tools_use_library_default.

Theorem C20_status_tests_as_modelled :
  post_error_test = "resp.StatusCode < 200 || resp.StatusCode >= 300"%string /\
  get_error_test = "resp.StatusCode != 200"%string.
Proof. exact status_tests_as_modelled. Qed.
Print Assumptions C20_status_tests_as_modelled.

(* non-vacuity: a flapping destination (500, 500, then 200s), two messages, POST round-robin *)
Example C20_ex_flapping :
  let c := mkRcfg HttpPost MRoundRobin 1 None false 0 in
  let e := mkEnv (fun k => if Nat.ltb k 2 then AStatus 500 else AStatus 200) (fun _ => 0) (fun _ => false) in
  let s := relay 4 c e (rinit [(1%N, [97%N]); (2%N, [98%N])]) in
  queue s = [] /\
  rtr s = [EPub 0 [97%N] (AStatus 500); EReq (1%N, [97%N]); EPub 0 [98%N] (AStatus 500); EReq (2%N, [98%N]);
           EPub 0 [97%N] (AStatus 200); EFin (1%N, [97%N]); EPub 0 [98%N] (AStatus 200); EFin (2%N, [98%N])].
Proof. vm_compute. split; reflexivity. Qed.

(* the witness of K7 in the model: five rejections, then the message is given up *)
Example C20_ex_giveup :
  rtr (relay 6 (tool_cfg HttpPost MRoundRobin 1) (kf_env HttpPost) (rinit [kf_msg]))
  = [EPub 0 [109%N] (AStatus 500); EReq kf_msg; EPub 0 [109%N] (AStatus 500); EReq kf_msg;
     EPub 0 [109%N] (AStatus 500); EReq kf_msg; EPub 0 [109%N] (AStatus 500); EReq kf_msg;
     EPub 0 [109%N] (AStatus 500); EReq kf_msg; EGiveUp kf_msg].
Proof. vm_compute. reflexivity. Qed.
