(* C03 — RDY flow control, CLS and pause are respected.  Property theorems only. *)
From Coq Require Import List NArith ZArith.
From NSQV Require Import model.Core model.Num proofs.CoreBase proofs.CoreFlow proofs.CoreCount proofs.CoreCountInv proofs.NumProofs.
Import ListNotations.
Open Scope N_scope.

(* Every delivery, in every history, happens in a state where the consumer is connected
   and subscribed to the channel, the channel is not paused, its RDY is positive and the
   number of messages it holds unanswered and unexpired is strictly below RDY. *)
Theorem C03_send_guard : forall cfg s k id now s' att,
  step cfg s (ODeliver k id now) = (s', RDelivered att) ->
  exists kl t c ch,
    find_client s k = Some kl /\ k_sub kl = Some (t, c) /\ get_chan s t c = Some ch /\
    k_alive kl = true /\ c_paused ch = false /\ (0 < k_rdy kl)%Z /\ (k_ifl kl < k_rdy kl)%Z /\
    In k (c_clients ch) /\ exists m q', remove_msg id (c_queue ch) = Some (m, q') /\ att = m_att (bump m).
Proof. exact deliver_guard. Qed.
Print Assumptions C03_send_guard.

(* The counter that guard reads (client.InFlightCount) is exact: in EVERY reachable state,
   for every consumer attached to a channel, it equals the number of in-flight entries of
   that channel the consumer owns (a cross-structure invariant between the client records
   and the channels' in-flight sets, proved over all histories together with uniqueness of
   topic / channel / connection ids and "every in-flight entry's owner is subscribed here"). *)
Theorem C03_counter_exact : forall cfg ops tp ch kl,
  let s := run cfg init ops in
  In tp (s_topics s) -> In ch (t_chans tp) -> In kl (s_clients s) -> In (k_id kl) (c_clients ch) ->
  k_ifl kl = owned (k_id kl) (c_ifl ch) /\ k_sub kl = Some (t_id tp, c_id ch).
Proof. exact counter_exact. Qed.
Print Assumptions C03_counter_exact.

Theorem C03_counter_invariant_step : forall cfg s o, CInv s -> CInv (fst (step cfg s o)).
Proof. exact step_CInv. Qed.
Print Assumptions C03_counter_invariant_step.

(* hence the running bound on what the consumer REALLY holds: at every delivery of every
   history, the unanswered, unexpired messages it owns number strictly fewer than its RDY *)
Theorem C03_true_window : forall cfg ops k id now att,
  let s := run cfg init ops in
  snd (step cfg s (ODeliver k id now)) = RDelivered att ->
  exists kl t c ch, find_client s k = Some kl /\ k_sub kl = Some (t, c) /\ get_chan s t c = Some ch /\
                    (owned k (c_ifl ch) < k_rdy kl)%Z.
Proof. exact delivery_true_window. Qed.
Print Assumptions C03_true_window.

(* non-vacuity: two competing consumers, a timeout, a requeue, an empty: counters 1 and 0 *)
Example C03_counter_witness :
  let cfg := mkCfg 10 900000000000%Z in
  let s := run cfg init
     [OCreateTopic 1 false; OConnect 7 1000%Z; OConnect 8 60000000000%Z;
      OSub 7 1 1 false false 0%Z; OSub 8 1 1 false false 0%Z; ORdy 7 2%Z; ORdy 8 3%Z;
      OPub 1 false [10;11;12;13] 40 0%Z 1%Z;
      ODeliver 7 10 2%Z; ODeliver 8 11 2%Z; ODeliver 7 12 2%Z; ODeliver 8 13 2%Z;
      OReq 8 11 0%Z 3%Z; OScanInFlight 1 1 1003%Z; ODeliver 8 10 1004%Z; OFin 8 13] in
  map (fun kl => (k_id kl, k_ifl kl)) (s_clients s) = [(7, 0%Z); (8, 1%Z)]
  /\ map (fun tp => map (fun ch => (owned 7 (c_ifl ch), owned 8 (c_ifl ch), length (c_queue ch))) (t_chans tp)) (s_topics s)
     = [[(0%Z, 1%Z, 2%nat)]].
Proof. vm_compute. split; reflexivity. Qed.

(* no RDY yet / RDY 0 / window full / CLS / paused channel: nothing is deliverable *)
Theorem C03_rdy0_blocks : forall s kl ch id, (k_rdy kl <= 0)%Z -> deliverable s kl ch id = false.
Proof. exact not_deliverable_rdy0. Qed.
Print Assumptions C03_rdy0_blocks.
Theorem C03_window_full_blocks : forall s kl ch id, (k_rdy kl <= k_ifl kl)%Z -> deliverable s kl ch id = false.
Proof. exact not_deliverable_full. Qed.
Print Assumptions C03_window_full_blocks.
Theorem C03_pause_blocks : forall s kl ch id, c_paused ch = true -> deliverable s kl ch id = false.
Proof. exact not_deliverable_paused. Qed.
Print Assumptions C03_pause_blocks.
Theorem C03_cls_rdy_ignored : forall cfg s k kl n,
  find_client s k = Some kl -> k_state kl = st_closing -> step cfg s (ORdy k n) = (s, ROk).
Proof. exact rdy_ignored_when_closing. Qed.
Print Assumptions C03_cls_rdy_ignored.
Theorem C03_cls_zeroes_rdy : forall cfg s k kl,
  find_client s k = Some kl -> k_state kl = st_subscribed ->
  snd (step cfg s (OCls k)) = ROk /\
  forall kl', find_client (fst (step cfg s (OCls k))) k = Some kl' -> k_rdy kl' = 0%Z /\ k_state kl' = st_closing.
Proof. exact cls_zeroes_rdy. Qed.
Print Assumptions C03_cls_zeroes_rdy.

(* a paused topic hands nothing to its channels, yet accepts and counts publishes *)
Theorem C03_topic_pause : forall cfg now tp, t_paused tp = true -> pump cfg now tp = tp.
Proof. exact paused_topic_pumps_nothing. Qed.
Print Assumptions C03_topic_pause.

(* delivery resumes: as soon as the guard's conditions hold again (unpause, RDY raised,
   an answer freed the window) a delivery of any queued message is enabled *)
Theorem C03_resume : forall cfg s k kl t c ch id m q' now,
  find_client s k = Some kl -> k_sub kl = Some (t, c) -> get_chan s t c = Some ch ->
  k_alive kl = true -> c_paused ch = false -> (0 < k_rdy kl)%Z -> (k_ifl kl < k_rdy kl)%Z ->
  In k (c_clients ch) -> remove_msg id (c_queue ch) = Some (m, q') ->
  snd (step cfg s (ODeliver k id now)) = RDelivered (m_att (bump m)).
Proof. exact resume_enabled. Qed.
Print Assumptions C03_resume.

(* RDY values outside [0, max-rdy-count] are refused, for every way of writing the number
   (the digit parser saturates instead of wrapping: commit e1b0fc0) *)
Theorem C03_rdy_range : forall max_rdy p, (0 <= max_rdy <= max_i64)%Z ->
  rdy_param max_rdy p =
    if all_digits p && (Z.of_N (dec_value p) <=? max_rdy)%Z
    then RdyOk (Z.of_N (dec_value p)) else RdyInvalid.
Proof. exact rdy_param_spec. Qed.
Print Assumptions C03_rdy_range.

Example C03_witness_rdy_wrap : rdy_param 2500 [49;56;52;52;54;55;52;52;48;55;51;55;48;57;53;53;49;54;49;55] = RdyInvalid.
Proof. vm_compute. reflexivity. Qed.

(* Schedules (F23): the consumer's in-flight count against the channel's in-flight set, step by
   step - deliveries (insert | count+1), FIN / REQ / timeouts (pop | count-1 if it popped) and
   Channel.Empty (take the set | count-1 per message taken), ANY number of them under ANY
   schedule: the count differs from the size of the set by exactly what the threads in progress
   still owe, and is the size of the set when they have finished.  The rule - whoever removes a
   message from the set takes it off the count, and only after the removal succeeded - is read
   off the CURRENT source; the zeroing Empty of the source before 72b06c9 is refuted (former
   known findings K1, K2). *)
From NSQV Require model.Counter proofs.CounterProofs proofs.CounterSrc.
Theorem C03_count_exact_every_schedule : forall ts sched,
  forallb Counter.fresh ts = true -> forallb Counter.no_zeroing ts = true ->
  let x := Counter.run (Counter.init ts) sched in
  (Counter.count x + CounterProofs.debt (Counter.threads x) = Z.of_nat (length (Counter.inflight x)))%Z /\
  (forallb Counter.finished (Counter.threads x) = true -> Counter.count x = Z.of_nat (length (Counter.inflight x))).
Proof. exact CounterProofs.count_exact_every_schedule. Qed.
Print Assumptions C03_count_exact_every_schedule.

Theorem C03_count_rule_in_the_source : CounterSrc.src_count_rule.
Proof. exact CounterSrc.src_count_rule_holds. Qed.
Print Assumptions C03_count_rule_in_the_source.

Theorem C03_zeroing_empty_refuted :
  exists ts sched, forallb Counter.fresh ts = true /\
    let x := Counter.run (Counter.init ts) sched in
    forallb Counter.finished (Counter.threads x) = true /\ Counter.count x <> Z.of_nat (length (Counter.inflight x)).
Proof. exact CounterProofs.zeroing_empty_refuted. Qed.
Print Assumptions C03_zeroing_empty_refuted.

(* The model is tied to the CURRENT source: the order-of-effects facts about nsqd's core
   functions that the model assumes (proofs/CoreSrcDefs.v) hold of the statement skeletons
   regenerated from /repo on this run (gen/CoreShape.v). *)
(* ... and it applies to EVERY connected, subscribed consumer: in every reachable state such a
   consumer is attached to its channel (deleting a channel or topic closes its consumers, an
   ephemeral channel only goes with its last consumer), so its counter equals the in-flight
   entries it owns there *)
From NSQV Require proofs.CoreAttached.
Theorem C03_connected_counter_exact : forall cfg ops kl t c,
  let s := run cfg init ops in
  In kl (s_clients s) -> k_alive kl = true -> k_sub kl = Some (t, c) ->
  exists ch, get_chan s t c = Some ch /\ In (k_id kl) (c_clients ch) /\ k_ifl kl = owned (k_id kl) (c_ifl ch).
Proof. exact CoreAttached.connected_counter_exact. Qed.
Print Assumptions C03_connected_counter_exact.

From NSQV Require proofs.CoreSrcDefs proofs.CoreSrcC03.
Theorem C03_source_shape : CoreSrcDefs.src_facts_C03.
Proof. exact CoreSrcC03.src_C03. Qed.
Print Assumptions C03_source_shape.
