(* C03 — RDY flow control, CLS and pause are respected.  Property theorems only. *)
From Coq Require Import List NArith ZArith.
From NSQV Require Import model.Core model.Num proofs.CoreBase proofs.CoreFlow proofs.CoreCount proofs.NumProofs.
Import ListNotations.
Open Scope N_scope.

(* Every delivery, in every history, happens in a state where the consumer is connected
   and subscribed to the channel, the channel is not paused, its RDY is positive and the
   number of messages it holds unanswered and unexpired is strictly below RDY. *)
Theorem C03_send_guard : forall cfg s k id now s' att,
  step cfg s (ODeliver k id now) = (s', RDelivered att) ->
  exists kl t c ch,
    find_client s k = Some kl /\ k_sub kl = Some (t, c) /\ get_chan s t c = Some ch /\
    k_alive kl = true /\ c_paused ch = false /\ (0 < k_rdy kl)%Z /\ (k_ifl kl < k_rdy kl)%Z /\
    In k (c_clients ch) /\ exists m q', remove_msg id (c_queue ch) = Some (m, q') /\ att = m_att (bump m).
Proof. exact deliver_guard. Qed.
Print Assumptions C03_send_guard.

(* no RDY yet / RDY 0 / window full / CLS / paused channel: nothing is deliverable *)
Theorem C03_rdy0_blocks : forall s kl ch id, (k_rdy kl <= 0)%Z -> deliverable s kl ch id = false.
Proof. exact not_deliverable_rdy0. Qed.
Print Assumptions C03_rdy0_blocks.
Theorem C03_window_full_blocks : forall s kl ch id, (k_rdy kl <= k_ifl kl)%Z -> deliverable s kl ch id = false.
Proof. exact not_deliverable_full. Qed.
Print Assumptions C03_window_full_blocks.
Theorem C03_pause_blocks : forall s kl ch id, c_paused ch = true -> deliverable s kl ch id = false.
Proof. exact not_deliverable_paused. Qed.
Print Assumptions C03_pause_blocks.
Theorem C03_cls_rdy_ignored : forall cfg s k kl n,
  find_client s k = Some kl -> k_state kl = st_closing -> step cfg s (ORdy k n) = (s, ROk).
Proof. exact rdy_ignored_when_closing. Qed.
Print Assumptions C03_cls_rdy_ignored.
Theorem C03_cls_zeroes_rdy : forall cfg s k kl,
  find_client s k = Some kl -> k_state kl = st_subscribed ->
  snd (step cfg s (OCls k)) = ROk /\
  forall kl', find_client (fst (step cfg s (OCls k))) k = Some kl' -> k_rdy kl' = 0%Z /\ k_state kl' = st_closing.
Proof. exact cls_zeroes_rdy. Qed.
Print Assumptions C03_cls_zeroes_rdy.

(* a paused topic hands nothing to its channels, yet accepts and counts publishes *)
Theorem C03_topic_pause : forall cfg now tp, t_paused tp = true -> pump cfg now tp = tp.
Proof. exact paused_topic_pumps_nothing. Qed.
Print Assumptions C03_topic_pause.

(* delivery resumes: as soon as the guard's conditions hold again (unpause, RDY raised,
   an answer freed the window) a delivery of any queued message is enabled *)
Theorem C03_resume : forall cfg s k kl t c ch id m q' now,
  find_client s k = Some kl -> k_sub kl = Some (t, c) -> get_chan s t c = Some ch ->
  k_alive kl = true -> c_paused ch = false -> (0 < k_rdy kl)%Z -> (k_ifl kl < k_rdy kl)%Z ->
  In k (c_clients ch) -> remove_msg id (c_queue ch) = Some (m, q') ->
  snd (step cfg s (ODeliver k id now)) = RDelivered (m_att (bump m)).
Proof. exact resume_enabled. Qed.
Print Assumptions C03_resume.

(* RDY values outside [0, max-rdy-count] are refused, for every way of writing the number
   (the digit parser saturates instead of wrapping: commit e1b0fc0) *)
Theorem C03_rdy_range : forall max_rdy p, (0 <= max_rdy <= max_i64)%Z ->
  rdy_param max_rdy p =
    if all_digits p && (Z.of_N (dec_value p) <=? max_rdy)%Z
    then RdyOk (Z.of_N (dec_value p)) else RdyInvalid.
Proof. exact rdy_param_spec. Qed.
Print Assumptions C03_rdy_range.

Example C03_witness_rdy_wrap : rdy_param 2500 [49;56;52;52;54;55;52;52;48;55;51;55;48;57;53;53;49;54;49;55] = RdyInvalid.
Proof. vm_compute. reflexivity. Qed.
