(* C09 — nsqd TCP protocol: every input gets its defined answer; limits hold.
   Property theorems only.  Model: model/Proto.v (exec_conn / run / handle_conn);
   protocol table: model/ProtoSpec.v; generated tables: gen/ProtoTable.v, gen/Consts.v. *)
From Coq Require Import List NArith ZArith Bool.
From Coq Require String.
From NSQV Require Import gen.Consts gen.ProtoTable gen.AcceptTable model.Judge model.Names model.Num model.Proto model.ProtoSpec
     model.AcceptLoop proofs.NamesProofs proofs.ProtoProofs proofs.ProtoTableProofs proofs.ProtoLineProofs proofs.AcceptProofs.
Import ListNotations.
Open Scope Z_scope.

(* ------------------------------------------------------------------ the daemon stays up *)
(* For every configuration, every answer of the core, every JSON decoding, every byte
   sequence: no slice / index / make of the handlers is out of range, and the fuel
   (= length of the input) is never exhausted. *)
Theorem C09_no_panic : forall cf orc json bs,
  ~ In Panic (exec_conn cf orc json bs) /\ ~ In OutOfFuel (exec_conn cf orc json bs).
Proof. exact exec_conn_no_panic. Qed.
Print Assumptions C09_no_panic.

(* ... from every client state (hence also for whatever is read after a negotiated
   upgrade), and for the whole connection, magic included *)
Theorem C09_no_panic_any_state : forall cf orc json st bs,
  ~ In Panic (run cf orc json st bs) /\ ~ In OutOfFuel (run cf orc json st bs).
Proof. exact run_no_panic. Qed.
Print Assumptions C09_no_panic_any_state.

Theorem C09_no_panic_connection : forall cf orc json bs,
  ~ In Panic (handle_conn cf orc json bs) /\ ~ In OutOfFuel (handle_conn cf orc json bs).
Proof. exact handle_conn_no_panic. Qed.
Print Assumptions C09_no_panic_connection.

(* ------------------------------------------------------------------ every command gets its defined answer *)
(* Each executed command conforms to the protocol table ([exec_ok] = [conforms] with
   [accepts] and [may_return_gated]):
     HOk    : accepted (TLS gate open, in state, well-formed, core said yes); exactly the
              response frame of its row; no error frame; the state moves as the table says;
     HStop  : accepted IDENTIFY that negotiated an upgrade;
     HFatal : NOT accepted; the code is in the command's row and is a fatal one;
     HSoft  : NOT accepted; the code is in the row and is one of the three non-fatal
              ones; the connection state and the stream position are unchanged;
   and there is no other outcome (no panic). *)
Theorem C09_codes : forall cf orc json st bs,
  Forall (ev_conforms cf orc json) (steps cf orc json (length bs) st bs).
Proof. exact steps_conform_len. Qed.
Print Assumptions C09_codes.

(* the loop: after a command that returned nil or a non-fatal error, processing continues
   from the state and stream position it left; after anything else nothing follows *)
Theorem C09_codes_loop : forall cf orc json st bs,
  steps cf orc json (length bs) st bs = loop_body cf orc json st bs.
Proof. exact steps_unfold. Qed.
Print Assumptions C09_codes_loop.

(* a fatal error is answered with its frame, then the close, and nothing else *)
Theorem C09_fatal_closes : forall cf orc json st bs pre st0 c params rest e post,
  steps cf orc json (length bs) st bs = pre ++ EvCmd st0 c params rest (HFatal e) :: post ->
  post = [] /\ outs_of_ev (EvCmd st0 c params rest (HFatal e)) = [Err e; Close].
Proof. exact fatal_closes. Qed.
Print Assumptions C09_fatal_closes.

(* a consumer may answer the messages it holds while subscribed AND after CLS: FIN / TOUCH /
   REQ with a 16-byte id (and a numeric delay) that the core accepts succeed in both
   states, without a frame and without leaving the state *)
Theorem C09_held_answers_succeed : forall cf orc json st id rest,
  c_tls_required cf = false ->
  st_kind st = SSubscribed \/ st_kind st = SClosing ->
  len id = nsqd_MsgIDLength ->
  (orc (st_hist st) (KFin id) = true ->
     exec cf orc json st [lit_fin; id] rest = XRes CFin (HOk [Fin id] (push_hist st (KFin id) true) rest))
  /\ (orc (st_hist st) (KTouch id) = true ->
     exec cf orc json st [lit_touch; id] rest
       = XRes CTouch (HOk [Touch id (st_msgto st)] (push_hist st (KTouch id) true) rest))
  /\ (forall t d, req_param (c_max_req cf) t = ReqDelay d -> orc (st_hist st) (KReq id d) = true ->
     exec cf orc json st [lit_req; id; t] rest = XRes CReq (HOk [Req id d] (push_hist st (KReq id d) true) rest)).
Proof. exact held_answers_succeed. Qed.
Print Assumptions C09_held_answers_succeed.

(* the model's table is the source's table: dispatch order, handlers, position of the TLS
   gate, the unknown-command answer, each handler's (code, fatal?) set, the magic *)
Theorem C09_dispatch_is_source : model_dispatch = exec_dispatch.
Proof. exact dispatch_matches. Qed.
Print Assumptions C09_dispatch_is_source.
Theorem C09_codes_are_source :
  forallb (fun c => match gen_codes (handler_name c) with
                    | Some l => same_set (spec_codes c) l
                    | None => false
                    end) all_cmds = true
  /\ map fst handler_codes = map handler_name all_cmds
  /\ exec_default = (code_name E_INVALID, is_fatal E_INVALID)
  /\ tls_gate_codes = [(code_name E_INVALID, is_fatal E_INVALID)]
  /\ tcp_magics = [magic_v2] /\ tcp_bad_magic = code_name E_BAD_PROTOCOL.
Proof.
  exact (conj codes_match (conj handlers_match (conj default_matches (conj gate_matches magic_matches)))).
Qed.
Print Assumptions C09_codes_are_source.

(* each handler's tests, index / make operations, reads and core calls occur in the source
   in the order the model performs them *)
Theorem C09_check_order_is_source : source_order = handler_checks.
Proof. exact checks_match. Qed.
Print Assumptions C09_check_order_is_source.

(* ------------------------------------------------------------------ limits *)
(* Every effect handed to the core is within the configured limits ([out_ok]):
   Enqueue: valid topic name, 1 <= |body| <= max-msg-size, 0 <= defer <= max-req-timeout;
   Batch (accepted MPUB): 1 <= declared size <= max-body-size, 1 <= count <= (max-body-size-4)/5;
   Rdy n: 0 <= n <= max-rdy-count;  Sub: valid topic and channel names;
   Fin/Req/Touch: a 16-byte id, Req delay within [0, max-req-timeout];
   Ident: heartbeat / output buffer size / output buffer timeout / sample rate / message
   timeout each the default, the documented special value, or inside its range;
   Upgrade: deflate level <= max-deflate-level. *)
Theorem C09_limits : forall cf orc json bs, Forall (out_ok cf) (exec_conn cf orc json bs).
Proof. exact exec_conn_limits. Qed.
Print Assumptions C09_limits.

Theorem C09_limits_any_state : forall cf orc json st bs,
  st_vals_ok cf st -> Forall (out_ok cf) (run cf orc json st bs).
Proof. exact run_limits. Qed.
Print Assumptions C09_limits_any_state.

Theorem C09_limits_connection : forall cf orc json bs, Forall (out_ok cf) (handle_conn cf orc json bs).
Proof. exact handle_conn_limits. Qed.
Print Assumptions C09_limits_connection.

(* ------------------------------------------------------------------ the command line is bounded *)
(* Every command the loop executes was split from a line that fits the connection's read
   buffer: its parameters and the spaces between them take less than defaultBufferSize
   bytes - for every byte sequence, however long its lines. *)
Theorem C09_line_bounded : forall cf orc json st bs,
  Forall ev_line_bounded (steps cf orc json (length bs) st bs).
Proof. exact line_bounded_len. Qed.
Print Assumptions C09_line_bounded.

(* A full buffer without a delimiter ends the connection with the close alone - no frame,
   no effect - from every state, WHATEVER follows it: a delimiter later on, more bytes,
   the end of the stream or nothing at all.  The decision needs no byte beyond the buffer:
   no input makes the daemon hold more than defaultBufferSize bytes of an unfinished line. *)
Theorem C09_long_line_dropped : forall cf orc json st pre post,
  length pre = buffer_size -> ~ In NL pre ->
  run cf orc json st (pre ++ post) = [Close].
Proof. exact run_long_line. Qed.
Print Assumptions C09_long_line_dropped.

Theorem C09_long_line_dropped_connection : forall cf orc json pre post,
  length pre = buffer_size -> ~ In NL pre ->
  handle_conn cf orc json (magic_v2 ++ pre ++ post) = [Close].
Proof. exact handle_conn_long_line. Qed.
Print Assumptions C09_long_line_dropped_connection.

(* the source reads a command line with ReadSlice('\n') (the bufio read that fails when the
   buffer is full instead of growing), on readers of defaultBufferSize bytes, which is the
   model's buffer *)
Theorem C09_line_reader_is_source :
  (ioloop_line_reads = [(name_ReadSlice, NL)]
   /\ reader_sizes <> []
   /\ forallb (String.eqb name_defaultBufferSize) reader_sizes = true)
  /\ Z.of_nat buffer_size = nsqd_defaultBufferSize.
Proof. exact (conj line_reader_matches buffer_matches). Qed.
Print Assumptions C09_line_reader_is_source.

(* the name rule, for every byte string *)
Theorem C09_names : forall l,
  is_valid_name l = true <-> (1 <= length l <= 64)%nat /\ matches_spec l.
Proof. exact is_valid_name_spec. Qed.
Print Assumptions C09_names.

(* an accepted IDENTIFY's options are inside their intervals (from C09_codes, spelled out) *)
Theorem C09_identify_ranges : forall cf d,
  ident_ok cf d = true ->
  (i_hb d = -1 \/ i_hb d = 0 \/ 1000 <= i_hb d <= ms (c_max_hb cf)) /\
  (i_obt d = -1 \/ i_obt d = 0 \/ ms (c_min_obt cf) <= i_obt d <= ms (c_max_obt cf)) /\
  (i_obsize d = -1 \/ i_obsize d = 0 \/ 64 <= i_obsize d <= c_max_obsize cf) /\
  0 <= i_sample d <= 99 /\
  (i_msgto d = 0 \/ 1000 <= i_msgto d <= ms (c_max_msgto cf)).
Proof. exact ident_ok_intervals. Qed.
Print Assumptions C09_identify_ranges.

(* ------------------------------------------------------------------ a rejected publish enqueues nothing *)
(* For every executed command ([enq_rule]): an error answer (fatal or not) carries no
   Enqueue; an accepted PUB / DPUB exactly one; an accepted MPUB is
   [Batch size n; Enqueue x n; OK] with n >= 1 the declared count and
   4 + sum (4 + |body|) <= size <= max-body-size (all n or, on any error, none);
   every other command none. *)
Theorem C09_reject_enqueues_nothing : forall cf orc json st bs,
  Forall (ev_enq cf) (steps cf orc json (length bs) st bs).
Proof. exact steps_enq_len. Qed.
Print Assumptions C09_reject_enqueues_nothing.

(* ------------------------------------------------------------------ isolation *)
(* A daemon serving two connections under ANY schedule of their IOLoop iterations:
   what A writes and hands to the core does not depend on B's bytes, state, JSON bodies or
   core answers ... *)
Theorem C09_isolation : forall cf pa pb pb' sched a b b',
  outputs_of true (sys_run cf pa pb sched a b) = outputs_of true (sys_run cf pa pb' sched a b').
Proof. exact isolation. Qed.
Print Assumptions C09_isolation.

(* ... it is the run of A's own loop on A's own bytes: exactly exec_conn's outputs once A
   has been scheduled more often than it has bytes *)
Theorem C09_isolation_complete : forall cf pa pb sched st bs b,
  (length bs < count_true sched)%nat ->
  outputs_of true (sys_run cf pa pb sched (Some (st, bs)) b) = run cf (p_orc pa) (p_json pa) st bs.
Proof. exact isolation_complete. Qed.
Print Assumptions C09_isolation_complete.

(* ------------------------------------------------------------------ the accept loop stays up *)
(* protocol.TCPServer, the loop that hands new connections to the protocol handler (nsqd and
   nsqlookupd run it on their TCP listener; when it returns an error, Main returns and the
   daemon goes down for every client).  A script is the list of results the listener's
   successive Accept calls return.  An error whose Temporary() method answers true (EMFILE,
   ENFILE: out of descriptors during a burst of connections; EINTR; a deadline) is retried -
   whether or not it is also a timeout, whatever else is true of it - and no other error is. *)
Theorem C09_accept_temporary_is_retried : forall e,
  decide (AErr e) = DRetry <-> e_temporary e = Some true.
Proof. exact decide_retry_iff. Qed.
Print Assumptions C09_accept_temporary_is_retried.

Theorem C09_accept_decision_ignores_timeout : forall t o o' c,
  decide (AErr (mkAErr t o c)) = decide (AErr (mkAErr t o' c)).
Proof. exact decide_ignores_timeout. Qed.
Print Assumptions C09_accept_decision_ignores_timeout.

(* While nothing but connections and temporary errors has come out of Accept - in any
   number and any order - every connection offered has been handed to the handler, every
   result has been consumed and the loop has NOT returned: the daemon stays up. *)
Theorem C09_accept_survives_temporary_errors : forall script,
  forallb passes script = true ->
  run_accept script = mkAOut (N.of_nat (List.length script)) (conn_ids script) RRunning false.
Proof. exact run_all_pass. Qed.
Print Assumptions C09_accept_survives_temporary_errors.

(* a temporary error anywhere changes nothing for the connections before and after it *)
Theorem C09_accept_temporary_is_transparent : forall e pre post,
  e_temporary e = Some true ->
  o_served (run_accept (pre ++ AErr e :: post)) = o_served (run_accept (pre ++ post))
  /\ o_ret (run_accept (pre ++ AErr e :: post)) = o_ret (run_accept (pre ++ post))
  /\ o_waits (run_accept (pre ++ AErr e :: post)) = o_waits (run_accept (pre ++ post)).
Proof. exact temporary_transparent. Qed.
Print Assumptions C09_accept_temporary_is_transparent.

Theorem C09_accept_offered_is_served : forall pre id post,
  forallb passes pre = true ->
  In id (o_served (run_accept (pre ++ AConn id :: post))).
Proof. exact offered_is_served. Qed.
Print Assumptions C09_accept_offered_is_served.

(* The loop ends at the first result that is neither, consuming nothing after it, with
   exactly the connections offered before it served: on net.ErrClosed (the listener was
   closed: shutdown) it returns nil AFTER waiting for the handlers it started; any other
   error is returned.  And it returns in no other way. *)
Theorem C09_accept_stops_at_first_permanent_error : forall pre s post,
  forallb passes pre = true -> passes s = false ->
  run_accept (pre ++ s :: post)
  = mkAOut (N.of_nat (S (List.length pre))) (conn_ids pre) (stop_ret s) (stop_waits s).
Proof. exact run_stop. Qed.
Print Assumptions C09_accept_stops_at_first_permanent_error.

Theorem C09_accept_returns_only_then : forall script,
  o_ret (run_accept script) <> RRunning ->
  exists pre s post, script = pre ++ s :: post /\ forallb passes pre = true /\ passes s = false
    /\ o_consumed (run_accept script) = N.of_nat (S (List.length pre))
    /\ o_served (run_accept script) = conn_ids pre.
Proof. exact returns_only_at_stop. Qed.
Print Assumptions C09_accept_returns_only_then.

(* the error branch of TCPServer in the source (conditions and actions in order, the
   statements after the loop), read as a function of the error, is the model's decision for
   EVERY error; an accepted connection is registered in the wait group, then handled in a
   goroutine of its own; nsqd and nsqlookupd run this loop on their TCP listener *)
Theorem C09_accept_loop_is_source :
  (forall e, table_decide accept_err_branches accept_err_default accept_after_loop e = dec_of (decide (AErr e)))
  /\ accept_ok_steps = model_ok_steps
  /\ accept_call = name_listener_Accept /\ accept_conn_var = name_clientConn /\ accept_loop_users = users_expected.
Proof. exact (conj table_is_decide (conj ok_steps_match accept_call_matches)). Qed.
Print Assumptions C09_accept_loop_is_source.

(* ------------------------------------------------------------------ non-vacuity *)
Definition ex_cfg : cfg := default_cfg 64 384 10.
Definition yes : oracle := fun _ _ => true.
Definition nojson : bytes -> jres := fun _ => BadJSON.
Definition s_sub : bytes := [83;85;66;32;116;32;99;10]%N.                     (* "SUB t c\n" *)
Definition s_rdy_f1 : bytes :=                                                   (* "RDY 18446744073709551617\n" *)
  [82;68;89;32;49;56;52;52;54;55;52;52;48;55;51;55;48;57;53;53;49;54;49;55;10]%N.
Definition s_mpub_t : bytes := [77;80;85;66;32;116;10]%N.                       (* "MPUB t\n" *)

(* the F1 witness: a RDY count that used to wrap to 1 is refused, fatally *)
Example C09_witness_rdy_wrap :
  exec_conn ex_cfg yes nojson (s_sub ++ s_rdy_f1) =
  [Sub [116]%N [99]%N; Resp ROk; Err E_INVALID; Close].
Proof. vm_compute. reflexivity. Qed.

(* an MPUB whose LAST message is empty: E_BAD_MESSAGE, close, and no Enqueue at all *)
Example C09_witness_mpub_none :
  exec_conn ex_cfg yes nojson (s_mpub_t ++ [0;0;0;17; 0;0;0;2; 0;0;0;1;65; 0;0;0;0]%N) = [Err E_BAD_MESSAGE; Close].
Proof. vm_compute. reflexivity. Qed.

(* the same batch well-formed: both messages; then a NOP and a PUB are still processed *)
Example C09_witness_mpub_all :
  exec_conn ex_cfg yes nojson (s_mpub_t ++ [0;0;0;14; 0;0;0;2; 0;0;0;1;65; 0;0;0;1;66]%N
                               ++ [78;79;80;10]%N ++ [80;85;66;32;116;10; 0;0;0;1;67]%N) =
  [Batch 14 2; Enqueue [116]%N [65]%N 0; Enqueue [116]%N [66]%N 0; Resp ROk;
   Enqueue [116]%N [67]%N 0; Resp ROk; Close].
Proof. vm_compute. reflexivity. Qed.

(* the declared MPUB size is enforced: size 1 in front of a real batch is refused *)
Example C09_witness_mpub_declared_size :
  exec_conn ex_cfg yes nojson (s_mpub_t ++ [0;0;0;1; 0;0;0;2; 0;0;0;1;65; 0;0;0;1;66]%N) = [Err E_BAD_BODY; Close].
Proof. vm_compute. reflexivity. Qed.

(* a non-fatal error: FIN of an unknown id answers E_FIN_FAILED and the next command runs *)
Example C09_witness_soft_error :
  exec_conn ex_cfg (fun _ k => match k with KFin _ => false | _ => true end) nojson
    (s_sub ++ [70;73;78;32; 48;49;50;51;52;53;54;55;56;57;97;98;99;100;101;102; 10]%N ++ [67;76;83;10]%N) =
  [Sub [116]%N [99]%N; Resp ROk; Err E_FIN_FAILED; Cls; Resp RCloseWait; Close].
Proof. vm_compute. reflexivity. Qed.

(* after CLS the consumer still answers what it holds: TOUCH, REQ and FIN of in-flight
   messages are silent successes in the closing state (the witness of seeded change C09-m4);
   a second CLS is out of state *)
Definition s_id1 : bytes := [48;49;50;51;52;53;54;55;56;57;97;98;99;100;101;102]%N.
Definition s_id2 : bytes := [102;101;100;99;98;97;57;56;55;54;53;52;51;50;49;48]%N.
Example C09_witness_closing_answers :
  exec_conn ex_cfg yes nojson
    (s_sub ++ [67;76;83;10]%N
     ++ [84;79;85;67;72;32]%N ++ s_id1 ++ [10]%N
     ++ [82;69;81;32]%N ++ s_id1 ++ [32;48;10]%N
     ++ [70;73;78;32]%N ++ s_id2 ++ [10]%N
     ++ [67;76;83;10]%N) =
  [Sub [116]%N [99]%N; Resp ROk; Cls; Resp RCloseWait;
   Touch s_id1 (c_def_msgto ex_cfg); Req s_id1 0; Fin s_id2; Err E_INVALID; Close].
Proof. vm_compute. reflexivity. Qed.

(* a line longer than the read buffer closes the connection without an error frame *)
Example C09_witness_long_line :
  exec_conn ex_cfg yes nojson (repeat 120%N 16384 ++ [10]%N) = [Close]
  /\ exec_conn ex_cfg yes nojson (repeat 120%N 16383 ++ [10]%N) = [Err E_INVALID; Close].
Proof. split; vm_compute; reflexivity. Qed.

(* the hypotheses of C09_long_line_dropped are satisfiable, and its conclusion is not the
   general rule: one byte less and the same line is executed (and echoes nothing: the frame
   carries a code); a client that goes on streaming after the full buffer changes nothing *)
Example C09_witness_long_line_any_suffix :
  let pre := repeat 120%N 16384 in
  length pre = buffer_size /\ ~ In NL pre
  /\ run ex_cfg yes nojson (init_state ex_cfg) (pre ++ repeat 120%N 50000) = [Close]
  /\ run ex_cfg yes nojson (init_state ex_cfg) (pre ++ [10; 78;79;80;10]%N) = [Close]
  /\ run ex_cfg yes nojson (init_state ex_cfg) (repeat 120%N 16383 ++ [10; 78;79;80;10]%N) = [Err E_INVALID; Close].
Proof.
  split; [vm_compute; reflexivity|]. split.
  - intro H. apply repeat_spec in H. discriminate.
  - split; [|split]; vm_compute; reflexivity.
Qed.

(* C09_line_bounded on a concrete stream: the longest line that is still executed *)
Example C09_witness_line_bounded :
  map (fun e => match e with EvCmd _ c p _ _ => Some (c, Z.of_nat (params_bytes p)) | _ => None end)
      (steps ex_cfg yes nojson buffer_size (init_state ex_cfg) (repeat 120%N 16383 ++ [10]%N))
  = [Some (CUnknown, 16383)].
Proof. vm_compute. reflexivity. Qed.

(* IDENTIFY: an in-range record is accepted with its values; heartbeat 999 is refused *)
Example C09_witness_identify :
  let body := [123;125]%N in
  let stream := [73;68;69;78;84;73;70;89;10; 0;0;0;2; 123;125]%N in
  exec_conn ex_cfg yes (fun _ => Json (mkIdent 1000 64 (-1) false false false 0 false 99 900000)) stream =
    [Ident 1000000000 64 0 99 900000000000; Resp ROk; Close]
  /\ exec_conn ex_cfg yes (fun _ => Json (mkIdent 999 0 0 false false false 0 false 0 0)) stream =
    [Err E_BAD_BODY; Close].
Proof. split; vm_compute; reflexivity. Qed.

(* two connections: B's garbage, scheduled in between, changes nothing for A *)
Example C09_witness_isolation :
  let pa := mkPeer yes nojson in
  let a := Some (init_state ex_cfg, s_sub ++ [67;76;83;10]%N) in
  outputs_of true (sys_run ex_cfg pa pa [false;true;false;false;true;true;false;true] a
                           (Some (init_state ex_cfg, [255;0;10;80;85;66;10]%N)))
  = exec_conn ex_cfg yes nojson (s_sub ++ [67;76;83;10]%N).
Proof. vm_compute. reflexivity. Qed.

(* C09_codes on a concrete stream: an accepted SUB, a non-fatal FIN error after which the
   loop goes on, a fatal RDY error (11 > max-rdy-count 10) after which nothing follows *)
Definition ev_kind (e : ev) : option (cmd * option code * bool) :=
  match e with
  | EvCmd _ c _ _ (HOk _ _ _) => Some (c, None, true)
  | EvCmd _ c _ _ (HSoft x _ _) => Some (c, Some x, true)
  | EvCmd _ c _ _ (HFatal x) => Some (c, Some x, false)
  | _ => None
  end.
Example C09_witness_codes :
  let stream := s_sub ++ [70;73;78;32; 48;49;50;51;52;53;54;55;56;57;97;98;99;100;101;102; 10]%N
                      ++ [82;68;89;32;49;49;10]%N ++ [78;79;80;10]%N in
  map ev_kind (steps ex_cfg (fun _ k => match k with KFin _ => false | _ => true end) nojson
                     (length stream) (init_state ex_cfg) stream)
  = [Some (CSub, None, true); Some (CFin, Some E_FIN_FAILED, true); Some (CRdy, Some E_INVALID, false)].
Proof. vm_compute. reflexivity. Qed.

(* the accept loop on concrete scripts.  The witness of seeded change C09-m10: a connection,
   then Accept fails with EMFILE (Temporary() true, Timeout() false), then another
   connection, then the listener is closed: both connections are served, the loop returns
   nil after waiting for them.  The hypotheses of the theorems above are satisfiable. *)
Definition ex_emfile : aerr := mkAErr (Some true) (Some false) false.
Definition ex_deadline : aerr := mkAErr (Some true) (Some true) false.
Definition ex_closed : aerr := mkAErr (Some false) (Some false) true.
Definition ex_einval : aerr := mkAErr (Some false) (Some false) false.
Definition ex_plain : aerr := mkAErr None None false.
Example C09_witness_accept_emfile :
  run_accept [AConn 0; AErr ex_emfile; AConn 2; AErr ex_closed]%N = mkAOut 4 [0; 2]%N RNil true
  /\ run_accept [AConn 0; AErr ex_emfile; AErr ex_deadline; AConn 3]%N = mkAOut 4 [0; 3]%N RRunning false
  /\ forallb passes [AConn 0; AErr ex_emfile; AErr ex_deadline; AConn 3]%N = true
  /\ e_temporary ex_emfile = Some true.
Proof. repeat split; vm_compute; reflexivity. Qed.

(* a permanent error is returned at once and nothing after it is consumed; an error without
   a Temporary method is permanent *)
Example C09_witness_accept_permanent :
  run_accept [AConn 0; AErr ex_einval; AConn 2; AErr ex_closed]%N = mkAOut 2 [0]%N (RErr ex_einval) false
  /\ run_accept [AErr ex_plain; AConn 1]%N = mkAOut 1 [] (RErr ex_plain) false
  /\ passes (AErr ex_einval) = false /\ passes (AErr ex_closed) = false
  /\ o_ret (run_accept [AConn 0; AErr ex_closed]%N) <> RRunning.
Proof. repeat split; try (vm_compute; reflexivity). vm_compute. discriminate. Qed.
