(* C05 — graceful shutdown and restart lose nothing.  Property theorems only. *)
From Coq Require Import List NArith ZArith Permutation.
From NSQV Require Import model.Core proofs.CoreBase proofs.CoreLife proofs.CoreOwes proofs.CoreRestart.
Import ListNotations.
Open Scope N_scope.

(* After Exit + restart every durable topic and channel exists again with its paused flag,
   ephemeral ones are gone *)
Theorem C05_structure : forall s,
  map t_id (s_topics (restart s)) = map t_id (filter (fun tp => negb (t_eph tp)) (s_topics s)) /\
  forall tp, In tp (s_topics s) -> t_eph tp = false ->
    exists tp', In tp' (s_topics (restart s)) /\ t_id tp' = t_id tp /\ t_paused tp' = t_paused tp /\
      map m_id (t_queue tp') = map m_id (t_queue tp) /\
      map c_id (t_chans tp') = map c_id (filter (fun ch => negb (c_eph ch)) (t_chans tp)) /\
      forall ch, In ch (t_chans tp) -> c_eph ch = false -> In (restart_chan ch) (t_chans tp').
Proof. exact restart_structure. Qed.
Print Assumptions C05_structure.

(* every message the channel held — queued in memory or on disk, in flight (to a live or a
   vanished consumer), deferred — waits on it again, same id, attempts count continuing;
   finished messages stay finished and are in none of those sets *)
Theorem C05_messages : forall ch,
  c_queue (restart_chan ch) = all_msgs ch /\ c_ifl (restart_chan ch) = [] /\ c_dfr (restart_chan ch) = [] /\
  c_paused (restart_chan ch) = c_paused ch /\ c_id (restart_chan ch) = c_id ch /\
  c_fin (restart_chan ch) = c_fin ch /\ c_clients (restart_chan ch) = [].
Proof. exact restart_chan_keeps. Qed.
Print Assumptions C05_messages.

Theorem C05_messages_multiset : forall ch, Permutation (all_msgs (restart_chan ch)) (all_msgs ch).
Proof. exact restart_chan_messages. Qed.
Print Assumptions C05_messages_multiset.

Theorem C05_no_ephemeral : forall s,
  Forall (fun tp => t_eph tp = false /\ Forall (fun ch => c_eph ch = false) (t_chans tp)) (s_topics (restart s)).
Proof. exact restart_no_ephemeral. Qed.
Print Assumptions C05_no_ephemeral.

(* OVER HISTORIES: take any state in which the durable channel (t,c) exists, publish a batch
   containing x to topic t, then let ANY history follow in which operations of every kind
   (short of deleting that channel / topic or emptying the topic's own queue) are interleaved
   with ANY number of graceful Exit + restart cycles at arbitrary points: x is still
   accounted for on the channel (queued, in flight, deferred, finished or explicitly
   emptied) or waits in the topic's queue; nothing is lost by a shutdown *)
Theorem C05_no_loss_across_restarts : forall cfg t c x s teph ids bytes defer now hs,
  channel_exists t c s -> In x ids -> forallb (hkeeps t c) hs = true ->
  J t c x (hrun cfg (fst (step cfg s (OPub t teph ids bytes defer now))) hs).
Proof. exact no_loss_across_restarts. Qed.
Print Assumptions C05_no_loss_across_restarts.

Theorem C05_restart_keeps_tracking : forall t c x s, J t c x s -> J t c x (restart s).
Proof. exact restart_J. Qed.
Print Assumptions C05_restart_keeps_tracking.

(* ... and right after the restart whatever was unfinished waits in the channel's queue *)
Theorem C05_unfinished_requeued : forall ch x,
  In x (map m_id (c_queue ch) ++ map (fun e => m_id (i_msg e)) (c_ifl ch) ++ map (fun e => m_id (d_msg e)) (c_dfr ch)) ->
  In x (map m_id (c_queue (restart_chan ch))).
Proof. exact restart_queue_has. Qed.
Print Assumptions C05_unfinished_requeued.

(* any number of Exit/Restart cycles *)
Theorem C05_cycles : forall ch, c_queue (restart_chan (restart_chan ch)) = c_queue (restart_chan ch).
Proof. exact restart_chan_idem. Qed.
Print Assumptions C05_cycles.

Example C05_witness :
  let cfg := mkCfg 1 900000000000%Z in
  let s := run cfg init
     [OCreateTopic 1 false; OCreateChan 1 1 false false 0%Z; OConnect 7 60000000000%Z; OSub 7 1 1 false false 0%Z;
      ORdy 7 2%Z; OPub 1 false [10;11;12;13] 40 0%Z 1%Z; ODeliver 7 10 2%Z; ODeliver 7 11 2%Z;
      OReq 7 10 30000000000%Z 3%Z; OFin 7 11; OPauseChan 1 1 true] in
  map (fun tp => map (fun ch => (map (fun m => (m_id m, m_att m)) (c_queue ch), c_paused ch, c_fin ch)) (t_chans tp)) (s_topics (restart s))
  = [[([(12,0);(13,0);(10,1)], true, [11])]].
Proof. vm_compute. reflexivity. Qed.

(* Schedules: a REQ, a TOUCH, a timeout scan, a deferred scan or a put by the topic pump in
   progress when Channel.exit closes the channel (F16, F21 and their siblings).  For ANY number of them and ANY
   interleaving with the close - its statements as the CURRENT source has them - the message
   being moved is among what the close writes to disk. *)
From NSQV Require model.Handoff proofs.HandoffProofs proofs.HandoffSrc proofs.HandoffCompose.
Theorem C05_moves_vs_close_every_schedule : forall ks sched,
  forallb HandoffProofs.locked ks = true -> forall m,
  let st := Handoff.run (Handoff.init ks HandoffCompose.src_channel_close) sched in
  In m (Handoff.movers st) -> Handoff.lost st m = false /\ Handoff.missed st = false.
Proof. exact HandoffCompose.channel_close_loses_no_handoff. Qed.
Print Assumptions C05_moves_vs_close_every_schedule.

Theorem C05_movers_follow_the_protocol :
  HandoffSrc.channel_mover CoreShape.shape_Channel_RequeueMessage = true /\
  HandoffSrc.channel_mover CoreShape.shape_Channel_TouchMessage = true /\
  HandoffSrc.channel_mover CoreShape.shape_Channel_processInFlightQueue = true /\
  HandoffSrc.channel_mover CoreShape.shape_Channel_processDeferredQueue = true /\
  HandoffSrc.channel_mover CoreShape.shape_Channel_PutMessage = true.
Proof. exact HandoffSrc.src_channel_movers_locked. Qed.
Print Assumptions C05_movers_follow_the_protocol.

(* .. and nobody else moves messages: of EVERY function of package nsqd that calls a pop /
   push / put primitive (regenerated list), each one that pops and pushes follows the protocol *)
Theorem C05_every_pop_and_push_follows_the_protocol :
  forallb (fun e => negb (HandoffSrc.pops_of (snd e) && HandoffSrc.pushes_of (snd e))
                    || HandoffSrc.channel_mover (HandoffSrc.shape_named (fst e))) CoreShape.core_touches = true.
Proof. exact HandoffSrc.src_every_pop_and_push_is_a_protocol_mover. Qed.
Print Assumptions C05_every_pop_and_push_follows_the_protocol.

Theorem C05_who_touches_messages : map fst CoreShape.core_touches = HandoffSrc.expected_touchers.
Proof. exact HandoffSrc.src_who_touches_messages. Qed.
Print Assumptions C05_who_touches_messages.

(* Progress: whatever the publishers, movers (ANY kinds, ANY number) and the closer have done
   so far, there is a way for all of them to run to their end - the exit locks the repairs
   F16, F18, F20, F21 added cannot deadlock with each other (programs of the CURRENT source) *)
From NSQV Require proofs.HandoffProgress.
Theorem C05_close_empty_delete_cannot_deadlock : forall ks sched prog,
  In prog [HandoffCompose.src_topic_close; HandoffCompose.src_topic_delete; HandoffCompose.src_channel_close;
           HandoffCompose.src_channel_delete; HandoffCompose.src_channel_empty] ->
  exists more, HandoffProgress.finished (Handoff.run (Handoff.init ks prog) (sched ++ more)) = true.
Proof. exact HandoffCompose.source_closers_cannot_deadlock. Qed.
Print Assumptions C05_close_empty_delete_cannot_deadlock.

(* known finding K3, as a theorem: the consumer pump's hand-off (receive from the queue, then
   StartInFlightTimeout) is outside the protocol in the current source, and a mover outside the
   protocol loses its message under this schedule *)
Theorem C05_consumer_pump_outside_protocol_refuted :
  HandoffSrc.channel_mover CoreShape.shape_Channel_StartInFlightTimeout = false /\
  exists sched m, In m (Handoff.movers (Handoff.run (Handoff.init [Handoff.Bare] (Handoff.channel_exit_prog Handoff.WMode)) sched))
                  /\ Handoff.lost (Handoff.run (Handoff.init [Handoff.Bare] (Handoff.channel_exit_prog Handoff.WMode)) sched) m = true.
Proof. split; [exact HandoffSrc.src_consumer_pump_bare|exact HandoffProofs.bare_mover_refuted]. Qed.
Print Assumptions C05_consumer_pump_outside_protocol_refuted.

(* The model is tied to the CURRENT source: the order-of-effects facts about nsqd's core
   functions that the model assumes (proofs/CoreSrcDefs.v) hold of the statement skeletons
   regenerated from /repo on this run (gen/CoreShape.v). *)
From NSQV Require proofs.CoreSrcDefs proofs.CoreSrcC05.
Theorem C05_source_shape : CoreSrcDefs.src_facts_C05.
Proof. exact CoreSrcC05.src_C05. Qed.
Print Assumptions C05_source_shape.
